"""C08 - certificate name and fingerprint matching accept exactly what the rules allow.

stage 1  TLC (spec/HostMatch.tla, MC_HostMatch.tla) on three machines - every (entry, host) pair over the label
         alphabet, SAN lists of typed entries x CN x switch x api, pins under perturbation - checks that the
         repaired MATCHER (no deviation) satisfies RULES and that the code-shaped MATCHER (KnownDefects = D13
         "ABORT", D15 "ACECASE") leaves RULES exactly on the recorded input classes; three further runs show that
         the code-shaped MATCHER really breaks ListAcceptsStrict / ListRejectsForbidden / PairMatcherRejectsForbidden.
stage 2  TLC emits, per entry, the must-accept / either host sets (sparse) and the hosts MATCHER accepts; per SAN
         list every case that is not must-reject; every perturbed pin with its verdict; the reject clauses used.
stage 3  everything in the enumerated domains is replayed into the real match_hostname /
         connection._match_hostname / assert_fingerprint and compared with the emitted values (disagreement with
         a must class = violation, disagreement with MATCHER inside Either = drift).
stage 4  the verdicts of the real code (accepted host sets, list cases, concrete pins with hashlib digests,
         plus seeded random lists and pins beyond the exhaustive bound) go back to TLC as trace batches and
         are judged by spec/HostMatch_Trace.tla with the same RULES operators (the hard verdict, clause named
         by TLC; the suffix after "/" is the recorded input class when a deviation action explains the verdict).
"""
from __future__ import annotations

import hashlib
import ipaddress
import itertools
import json
import logging
import multiprocessing as mp
import random

from . import known, tlc

LABELS = {"MCLabels14": ["a", "b", "ab", "*", "a*", "*a", "a*b", "**", "xn--a", "xn--*", "", "A", "XN--*", "XN--a"],
          "MCLabels12": ["a", "b", "ab", "*", "a*", "*a", "a*b", "**", "xn--a", "xn--*", "", "A"],
          "MCLabels8": ["a", "b", "*", "a*", "**", "xn--a", "", "A"],
          "MCLabels6": ["a", "*", "*a", "xn--a", "", "A"],
          "MCLabels5": ["a", "*", "a*", "xn--a", ""]}
TRLABELS = {"MCLabels14": "TrLabels14", "MCLabels12": "TrLabels12", "MCLabels8": "TrLabels8", "MCLabels6": "TrLabels6", "MCLabels5": "TrLabels5"}
# An IP address is (family, value id).  Canonical lower-case literals, used verbatim as the "plain" spelling.  The
# value ids are shared by both families: (4, 1) / (6, 1) and (4, 7) / (6, 7) are the same INTEGER in the other
# family, i.e. different addresses; (6, 3) is the IPv4-mapped form of 10.0.0.1 (another integer).
ADDRS = {(4, 1): "10.0.0.1", (6, 1): "::a00:1", (6, 2): "fe80::1", (6, 3): "::ffff:a00:1", (4, 4): "10.0.0.2",
         (6, 4): "::a00:2", (6, 5): "2001:db8::5", (4, 6): "192.168.1.9", (6, 6): "::c0a8:109", (4, 7): "0.0.0.1",
         (6, 7): "::1"}
AKEYS = sorted(ADDRS)


def _check_addrs():
    ints = {}
    for (f, a), txt in ADDRS.items():
        ip = ipaddress.ip_address(txt)
        if ip.version != f or ints.setdefault(a, int(ip)) != int(ip):
            raise tlc.MachineryError(f"address table: {txt} is not family {f} / value id {a}")
    if len(set(ints.values())) != len(ints):
        raise tlc.MachineryError("address table: two value ids share an integer")


_check_addrs()
NSHARD = 16          # number of emission / replay shards of the thorough tier (a partition, not a process count)


def jobs():
    """Process budget: VERIF_JOBS or the number of CPUs; every pool of this check is sized from it."""
    import os
    return max(1, int(os.environ.get("VERIF_JOBS") or os.cpu_count() or 4))

BASE = """CONSTANTS Labels <- {labels}
  MaxLabels = {ml}
  MaxHostLabels = {ml}
  KnownDefects <- {kd}
  RepEntries <- {re}
  RepHosts <- {rh}
  RepCNs <- MCCNs
  MaxSan = {ms}
  FpDepth = {fd}
  FpStride = {fs}
  ShardK = {k}
  ShardS = {s}
CHECK_DEADLOCK FALSE
"""
# checked with KnownDefects = AllDefects (MATCHER = the code as it is): the repaired design is inside RULES, the
# code leaves RULES only on the recorded input classes; *_EXPECTED_TO_FAIL are shown to fail in a separate run
PAIR_INVS = ["PairRefWellDefined", "PairMatcherAcceptsStrict", "PairErrIffTooMany", "PairRepairedWithinRules",
             "PairDeviatesOnlyAsRecorded"]
PAIR_EXPECTED_TO_FAIL = ["PairMatcherRejectsForbidden"]
LIST_INVS = ["ListRefWellDefined", "ListRepairedWithinRules", "ListDeviatesOnlyAsRecorded", "ListCommonNameInert",
             "ListOrderIrrelevant"]
LIST_EXPECTED_TO_FAIL = ["ListRejectsForbidden", "ListAcceptsStrict"]
PAIR_CLAUSES = {"none", "OutsideLiberal", "TooManyWildcards", "WildcardOutsideLeftmost", "WildcardEmptyLabel",
                "WildcardInALabel"}
LIST_CLAUSES = {"none", "NotAnIdentity", "DnsEntryVsIpHost", "IpEntryVsDnsHost", "IpNotByValue", "IpEntryOtherFamily",
                "OutsideLiberal",
                "TooManyWildcards", "WildcardOutsideLeftmost", "CommonNameWhenSansExist", "CommonNameNotEnabled",
                "CommonNameVsIpHost", "NoIdentity", "CommonNameOutsideLiberal", "CommonNameTooManyWildcards",
                "CommonNameWildcardInALabel"}
ACE = "/uppercase-ace-prefix-wildcard"
POISON = "/multi-wildcard-entry-before-match"
FP_INVS = ["FpMatcherIsRules", "FpTrueDigestAccepted", "FpOtherLengthRejected", "FpWrongNibbleRejected",
           "FpIntactRightLengthAccepted"]
TRACE_CFG = """SPECIFICATION TSpec
CONSTANTS Labels <- {labels}
  MaxLabels = {ml}
  MaxHostLabels = {ml}
  KnownDefects <- TrNone
  RepEntries <- TrNone
  RepHosts <- TrNone
  RepCNs <- TrNone
  MaxSan = 0
  FpDepth = 0
  FpStride = 1
CHECK_DEADLOCK FALSE
"""


def cfg(spec, invs=(), props=(), view=None, **kw):
    d = dict(labels="MCLabels14", ml=2, kd="AllDefects", re="MCEntries", rh="MCHosts", ms=2, fd=1, fs=8, k=1, s=0)
    d.update(kw)
    t = "SPECIFICATION " + spec + "\n" + BASE.format(**d)
    t += "".join("INVARIANT " + i + "\n" for i in invs) + "".join("PROPERTY " + p + "\n" for p in props)
    if view:
        t += "VIEW " + view + "\n"
    return t


# ----------------------------------------------------------------------------------------- real code

def _real():
    from urllib3.connection import _match_hostname
    from urllib3.util.ssl_ import assert_fingerprint
    from urllib3.util.ssl_match_hostname import CertificateError, match_hostname
    logging.getLogger("urllib3.connection").setLevel(logging.CRITICAL)   # the wrapper logs every mismatch
    return match_hostname, _match_hostname, assert_fingerprint, CertificateError


ODD = []    # exceptions other than the documented rejection (counted as a rejection, reported as drift)


def accepts(api, cert, host, on):
    mh, wmh, _, cerr = _real()
    try:
        (mh if api == "raw" else wmh)(cert, host, on)
        return True
    except cerr:
        return False
    except Exception as ex:      # anything else also prevents the connection: a rejection
        if len(ODD) < 5:
            ODD.append(f"{type(ex).__name__} for host {host!r} cert {cert!r}")
        return False


def fp_accepts(der, pin):
    from urllib3.exceptions import SSLError
    af = _real()[2]
    try:
        af(der, pin)
        return True
    except SSLError:
        return False
    except Exception as ex:
        if len(ODD) < 5:
            ODD.append(f"{type(ex).__name__} for pin {pin!r}")
        return False


# ----------------------------------------------------------------------------------------- value mapping

def name_syms(s):            # "a*.b" -> [["a","*"],["b"]]   (JSON form of a TLA+ name)
    return [list(l) for l in s.split(".")]


def syms_name(n):            # inverse; n == [] is "no name"
    return ".".join("".join(l) for l in n)


def ip_text(f, a, sp):
    ip = ipaddress.ip_address(ADDRS[(f, a)])
    plain = ADDRS[(f, a)]
    v6 = ip.version == 6
    if sp == "dotted":       # ::a.b.c.d, the other way to write an IPv6 address below 2**32
        if not v6 or int(ip) >= 2 ** 32:
            raise tlc.MachineryError(f"no dotted spelling for {plain}")
        return "::" + str(ipaddress.IPv4Address(int(ip)))
    if sp == "plain" or (not v6 and sp in ("alt", "ossl")):
        return plain
    if sp == "alt":          # host side: exploded, upper case, leading zeros
        return ip.exploded.upper()
    if sp == "ossl":         # entry side: the way OpenSSL prints an iPAddress SAN
        return ":".join(format(int(g, 16), "X") for g in ip.exploded.split(":"))
    if sp == "nl":
        return plain + "\n"
    if sp == "zoned":
        return plain + "%eth0"
    if sp == "brack":
        return "[" + plain + "]"
    if sp == "brackzoned":
        return "[" + plain + "%eth0]"
    raise tlc.MachineryError("spelling " + sp)


def entry_pair(e):
    if e["t"] == "DNS":
        return ("DNS", syms_name(e["n"]))
    if e["t"] == "IP":
        sp = e["sp"]
        if sp == "alt":
            sp = "ossl"
        return ("IP Address", ip_text(e["f"], e["a"], sp))
    return ("email", "x@a.b")


def host_text(h):
    """The string handed to the API is ALWAYS the text the spec sees (h.n); for an ip host the harness checks
    that this text is the literal of address h.a in spelling h.sp, and that the interpreter agrees on the value."""
    t = syms_name(h["n"])
    if h["k"] == "ip":
        want = ip_text(h["f"], h["a"], h["sp"])
        if t != want or ipaddress.ip_address(t.strip("[]").split("%")[0]) != ipaddress.ip_address(ADDRS[(h["f"], h["a"])]):
            raise tlc.MachineryError(f"ip host text {t!r} is not address {(h['f'], h['a'])} spelled {h['sp']} ({want!r})")
    return t


def ip_host(f, a, sp):
    return {"k": "ip", "n": name_syms(ip_text(f, a, sp)), "f": f, "a": a, "sp": sp}


def make_cert(entries, cn):
    cert = {"version": 3}
    if entries:
        cert["subjectAltName"] = tuple(entry_pair(e) for e in entries)
    if cn:
        cert["subject"] = ((("organizationName", "x"),), (("commonName", syms_name(cn)),))
    else:
        cert["subject"] = ((("organizationName", "x"),),)
    return cert


def domain(labels, ml):
    ls = LABELS[labels]
    return [".".join(t) for k in range(1, ml + 1) for t in itertools.product(ls, repeat=k)]


# ----------------------------------------------------------------------------------------- trace judging

def judge(doc, labels="MCLabels5", ml=1):
    """Send a batch of recorded verdicts to TLC.  Returns (bad, tallies): bad = [(tid, pos, clause, host)],
    tallies = {tid: (n, must, mustnot, either)}."""
    for k in ("entries", "hosts", "cns", "blobs"):
        doc.setdefault(k, [])
    if not doc["traces"]:
        return [], {}
    r = tlc.run("HostMatch_Trace", TRACE_CFG.format(labels=TRLABELS[labels], ml=ml), workers=1,
                files={"traces.json": json.dumps(doc)}, env={"TRACE_FILE": "traces.json"}, timeout=7200)
    done, bad = {}, []
    for ln in r.out.splitlines():
        if ln.startswith('"DONE|') and ln.endswith('"'):
            f = ln[1:-1].split("|")
            done[int(f[1])] = tuple(int(x) for x in f[2:])
        elif ln.startswith('"VERDICT|') and ln.endswith('"'):
            f = ln[1:-1].split("|")
            if len(f) != 5:
                raise tlc.MachineryError(f"unparsable VERDICT line {ln}")
            bad.append((int(f[1]), int(f[2]), f[3], f[4]))
    if len(done) != len(doc["traces"]) or r.distinct != len(doc["traces"]) + 1 or any(len(d) != 5 for d in done.values()):
        raise tlc.MachineryError(f"trace judgement: {len(done)} DONE lines / {r.distinct} states for "
                                 f"{len(doc['traces'])} traces\n{r.out[-2000:]}")
    if sum(d[4] for d in done.values()) != len(bad) or "VERDICT" in r.out.replace('"VERDICT|', ""):
        raise tlc.MachineryError(f"trace judgement: TLC reports {sum(d[4] for d in done.values())} failing cases, "
                                 f"{len(bad)} VERDICT lines were read\n{r.out[-2000:]}")
    return bad, {k: d[:4] for k, d in done.items()}


def _trim(lst, n=40):
    """Bound what a shard sends back WITHOUT letting cases of a recorded class (clause with a "/" suffix) crowd out
    anything else: both kinds are capped separately."""
    plain = [x for x in lst if "/" not in x[0]]
    classed = [x for x in lst if "/" in x[0]]
    return plain[:n] + classed[:n]


# ----------------------------------------------------------------------------------------- pairs

VIAS = ("raw", "wrap", "cn")


def pair_accepts(via, dn, host):
    if via == "cn":
        return accepts("raw", {"subject": ((("commonName", dn),),)}, host, True)
    return accepts(via, {"subjectAltName": (("DNS", dn),)}, host, False)


def _pair_shard(args):
    plan, s = args
    hosts = domain(plan["labels"], plan["ml"])
    hset = set(hosts)
    st = dict(entries=0, calls=0, bad=[], drift=[], nontriv=set(), traces=[], must=0, either=0, samples=[], rc=set())

    def on_line(ln):
        if not ln.startswith('<<"HM"'):
            return False
        for rec in tlc.tagged_json(ln, "HM"):
            dn = rec["dn"]
            must, either, macc, ace = set(rec["must"]), set(rec["either"]), set(rec["macc"]), set(rec["ace"])
            if rec["nhosts"] != len(hosts) or not (must | either) <= hset:
                raise tlc.MachineryError(f"host domain mismatch for entry {dn!r}")
            st["entries"] += 1
            st["rc"].update(rec["rc"])
            st["must"] += len(must)
            st["either"] += len(either)
            by_acc = {}
            for via in VIAS:
                acc = frozenset(h for h in hosts if pair_accepts(via, dn, h))
                st["calls"] += len(hosts)
                by_acc.setdefault(acc, []).append(via)
                for h in must - acc:
                    st["bad"].append(("MustAccept:Strict", {"kind": "pair", "dn": dn, "host": h, "via": via}))
                for h in acc - must - either:
                    st["bad"].append(("MustReject" + (ACE if h in ace else ""),
                                      {"kind": "pair", "dn": dn, "host": h, "via": via}))
                if acc != macc and len(st["drift"]) < 5:
                    st["drift"].append(f"entry {dn!r} via {via}: code accepts {sorted(acc ^ macc)[:4]} "
                                       f"differently from MATCHER")
                st["nontriv"].update((dn, h) for h in acc | must | either)
            for acc, vias in by_acc.items():
                st["traces"].append({"kind": "set", "dn": name_syms(dn), "acc": [name_syms(h) for h in sorted(acc)],
                                     "vias": vias})
            if len(st["samples"]) < 1 and must and either:
                st["samples"].append({"entry": dn, "must_accept": sorted(must), "either": sorted(either)[:8],
                                      "code_accepts": sorted(acc)[:12]})
        return True

    r = tlc.run("MC_HostMatch", cfg("PairsSpec", ["EmitPairs"], labels=plan["labels"], ml=plan["ml"], k=plan["k"], s=s, kd=plan["kd"]),
                workers=1, on_line=on_line, timeout=7200)
    bad, done = judge({"traces": st["traces"]}, plan["labels"], plan["ml"])
    st["verdicts"] = [(c, {"kind": "pair", "dn": syms_name(st["traces"][tid - 1]["dn"]), "host": h,
                           "via": st["traces"][tid - 1]["vias"][0]}) for tid, pos, c, h in bad]
    st["tally"] = [sum(d[i] for d in done.values()) for i in range(4)]
    st["ntraces"] = len(st["traces"])
    st["distinct"] = r.distinct
    st["bad"] = _trim(st["bad"])
    st["verdicts"] = _trim(st["verdicts"])
    del st["traces"]
    return st


# ----------------------------------------------------------------------------------------- lists

def run_list_cases(entries, hosts, cns, san_idx, cases):
    """cases: iterable of (host idx, cn idx, on, api) 1-based / 0 = no CN.  Returns list of 5-tuples."""
    ents = [entries[i - 1] for i in san_idx]
    out = []
    for h, c, on, api in cases:
        cert = make_cert(ents, cns[c - 1] if c else None)
        out.append([h, c, on, api, accepts(api, cert, host_text(hosts[h - 1]), on)])
    return out


def _facts(clause):
    """"MustReject:WildcardInALabel/uppercase-ace-prefix-wildcard" -> verdict, clause, input class (named by TLC)."""
    base, _, cls = clause.partition("/")
    return {"clause": base, "verdict": base.partition(":")[0], "class": cls}


def _list_shard(args):
    """One emission shard of the list machine: returns the domain tables (shard 0) and the LS records."""
    plan, s = args
    got = {"dom": None, "recs": []}

    def on_line(ln):
        if ln.startswith('<<"DOM"'):
            got["dom"] = tlc.tagged_json(ln, "DOM")[0]
            return True
        if not ln.startswith('<<"LS"'):
            return False
        got["recs"].extend(tlc.tagged_json(ln, "LS"))
        return True

    r = tlc.run("MC_HostMatch", cfg("ListsSpec", ["EmitLists"], ms=plan["ms"], re=plan["re"], rh=plan["rh"], k=plan["k"], s=s, kd=plan["kd"]), workers=1, on_line=on_line, timeout=7200)
    return {"dom": got["dom"], "pending": got["recs"], "distinct": r.distinct,
            "rc": sorted({c for rec in got["recs"] for c in rec["rc"]})}


def _list_replay(args):
    dom, recs = args
    entries, hosts, cns = dom["entries"], dom["hosts"], dom["cns"]
    allcases = [(h, c, on, api) for c in range(len(cns) + 1) for h in sorted(dom["hsel"])
                for on in (False, True) for api in ("raw", "wrap")]
    st = dict(lists=0, calls=0, bad=[], drift=[], nontriv=set(), traces=[], samples=[])
    for rec in recs:
        if rec["ncases"] != len(allcases):
            raise tlc.MachineryError(f"list case domain mismatch: TLC {rec['ncases']} python {len(allcases)}")
        exp = {(o["h"], o["cn"], o["on"], o["api"]): o for o in rec["out"]}
        res = run_list_cases(entries, hosts, cns, rec["san"], allcases)
        st["lists"] += 1
        st["calls"] += len(res)
        for h, c, on, api, acc in res:
            o = exp.get((h, c, on, api), {"cls": "mustnot", "m": False, "p": False, "a": False})
            case = {"kind": "list", "entries": [entries[i - 1] for i in rec["san"]], "host": hosts[h - 1],
                    "cn": cns[c - 1] if c else [], "on": on, "api": api}
            if o["cls"] == "must" and not acc:
                st["bad"].append(("MustAccept" + (POISON if o["p"] else ""), case))
            elif o["cls"] == "mustnot" and acc:
                st["bad"].append(("MustReject" + (ACE if o["a"] else ""), case))
            elif acc != o["m"] and len(st["drift"]) < 5:
                st["drift"].append(f"list {rec['san']} case {(h, c, on, api)}: code {acc}, MATCHER {o['m']}")
            if o["cls"] != "mustnot" or acc:
                st["nontriv"].add((tuple(rec["san"]), h, c, on, api))
        st["traces"].append({"kind": "list", "san": rec["san"], "cases": res})
        if not st["samples"] and len(rec["san"]) == 2 and rec["out"]:
            st["samples"].append({"san": [entry_pair(entries[i - 1]) for i in rec["san"]],
                                  "cases(host,cn,switch,api,accepted)": [
                                      [host_text(hosts[q[0] - 1]), syms_name(cns[q[1] - 1]) if q[1] else None] + q[2:]
                                      for q in res if q[4]][:6]})
    bad, done = judge({"entries": entries, "hosts": hosts, "cns": cns, "traces": st["traces"]})
    st["verdicts"] = []
    for tid, pos, c, _ in bad:
        tr = st["traces"][tid - 1]
        q = tr["cases"][pos - 1]
        st["verdicts"].append((c, {"kind": "list", "entries": [entries[i - 1] for i in tr["san"]],
                                   "host": hosts[q[0] - 1], "cn": cns[q[1] - 1] if q[1] else [], "on": q[2],
                                   "api": q[3]}))
    st["tally"] = [sum(d[i] for d in done.values()) for i in range(4)]
    st["ntraces"] = len(st["traces"])
    del st["traces"]
    st["bad"] = _trim(st["bad"])
    st["verdicts"] = _trim(st["verdicts"])
    return st


def _rand_name(rng, ls, maxl):
    return [list(rng.choice(ls)) for _ in range(rng.randint(1, maxl))]


def _rand_list_shard(args):
    seed, n = args
    rng = random.Random(seed)
    ls = LABELS["MCLabels14"] + ["B", "aB", "b*", "Xn--a*"]
    entries, hosts, cns, traces = [], [], [], []
    calls = 0
    nontriv = set()
    for _ in range(n):
        base = len(entries)
        k = rng.randint(0, 3)
        mine = []
        for _ in range(k):
            t = rng.random()
            if t < 0.6:
                e = {"t": "DNS", "n": _rand_name(rng, ls, 4), "f": 0, "a": 0, "sp": "-"}
            elif t < 0.7:           # a dNSName whose text is (a wildcarded form of) an IP address
                txt = ADDRS[rng.choice(AKEYS)]
                if rng.random() < 0.5:
                    txt = "*" + (txt[txt.index("."):] if "." in txt else txt[1:])
                e = {"t": "DNS", "n": name_syms(txt), "f": 0, "a": 0, "sp": "-"}
            elif t < 0.92:
                f, a = rng.choice(AKEYS)
                e = {"t": "IP", "n": [], "f": f, "a": a, "sp": rng.choice(["plain", "alt", "nl"])}
            else:
                e = {"t": "OTHER", "n": [], "f": 0, "a": 0, "sp": "-"}
            mine.append(e)
        entries.extend(mine)
        cn0 = len(cns)
        cns.append(_rand_name(rng, ls, 3))
        cases = []
        h0 = len(hosts)
        for _ in range(6):
            t = rng.random()
            dns_e = [e for e in mine if e["t"] == "DNS" and not any(c.isdigit() or c == ":" for l in e["n"] for c in l)]
            if t < 0.45 and dns_e:      # a host derived from an entry: stars replaced, one label perturbed
                src = rng.choice(dns_e)["n"]
                n = [[rng.choice("abA") if c == "*" and rng.random() < 0.8 else c for c in l] for l in src]
                if rng.random() < 0.3:
                    n[rng.randrange(len(n))] = list(rng.choice(ls))
                if rng.random() < 0.3:
                    n = [[c.swapcase() if c.isalpha() and c not in "xn" else c for c in l] for l in n]
                h = {"k": "dns", "n": n, "f": 0, "a": 0, "sp": "-"}
            elif t < 0.6:
                n = cns[cn0] if rng.random() < 0.7 else _rand_name(rng, ls, 4)
                h = {"k": "dns", "n": n, "f": 0, "a": 0, "sp": "-"}
            else:
                ipe = [e for e in mine if e["t"] == "IP"]
                if ipe and rng.random() < 0.5:     # the integer of an IP entry, in either family
                    a = rng.choice(ipe)["a"]
                    f, a = rng.choice([k for k in AKEYS if k[1] == a])
                else:
                    f, a = rng.choice(AKEYS)
                sps = ["plain", "plain", "brack"] if f == 4 else ["plain", "alt", "zoned", "brack", "brackzoned"] + \
                    (["dotted"] if (4, a) in ADDRS else [])
                h = ip_host(f, a, rng.choice(sps))
            hosts.append(h)
            hi = len(hosts)
            for c in (0, cn0 + 1):
                on = rng.random() < 0.6
                api = rng.choice(["raw", "wrap"])
                cert = make_cert(mine, cns[c - 1] if c else None)
                acc = accepts(api, cert, host_text(h), on)
                calls += 1
                cases.append([hi, c, on, api, acc])
                if acc:
                    nontriv.add(json.dumps([mine, h, c and cns[c - 1], on, api], sort_keys=True))
        traces.append({"kind": "list", "san": list(range(base + 1, base + k + 1)), "cases": cases})
    bad, done = judge({"entries": entries, "hosts": hosts, "cns": cns, "traces": traces})
    verdicts = []
    for tid, pos, c, _ in bad:
        tr = traces[tid - 1]
        q = tr["cases"][pos - 1]
        verdicts.append((c, {"kind": "list", "entries": [entries[i - 1] for i in tr["san"]], "host": hosts[q[0] - 1],
                             "cn": cns[q[1] - 1] if q[1] else [], "on": q[2], "api": q[3]}))
    return {"calls": calls, "ntraces": len(traces), "verdicts": _trim(verdicts), "nontriv": nontriv,
            "tally": [sum(d[i] for d in done.values()) for i in range(4)], "odd": list(ODD)}


# ----------------------------------------------------------------------------------------- fingerprints

ALGS = (("md5", 32), ("sha1", 40), ("sha256", 64))


def make_blobs(seed):
    """Three byte strings standing for DER certificates (assert_fingerprint hashes, it never parses), derived from
    the seed so that every seed sees other nibbles and the same seed sees the same pins."""
    out = []
    for i in range(3):
        body = b"".join(hashlib.sha256(f"C08/{seed}/{i}/{j}".encode()).digest() for j in range(12 + 7 * i))
        out.append(b"\x30\x82" + len(body).to_bytes(2, "big") + body)
    return out


def check_domain(dom):
    """The list domain TLC emitted is the one the harness can realise: every ip host text is the literal of its
    address id + spelling, some DNS entry spells an IP address that is also a host (the clause 'DNS entry against
    IP host' is exercised on equal text), both APIs see bracketed literals."""
    texts = {host_text(h) for h in dom["hosts"] if h["k"] == "ip"}
    hsel = [dom["hosts"][i - 1] for i in dom["hsel"]]
    esel = [dom["entries"][i - 1] for i in dom["esel"]]
    if not any(h["k"] == "ip" and h["sp"] == "brack" for h in hsel) or not any(h["k"] == "ip" and h["sp"] == "zoned" for h in hsel):
        raise tlc.MachineryError("list domain lacks bracketed / zoned literals")
    if not any(e["t"] == "DNS" and (syms_name(e["n"]) in texts or syms_name(e["n"]).startswith("*.0")) for e in esel):
        raise tlc.MachineryError("list domain lacks a DNS entry spelled like an IP host")
    for e in esel:
        entry_pair(e)
    fam = {(e["f"], e["a"]) for e in esel if e["t"] == "IP"}
    if not any((10 - f, a) in {(h["f"], h["a"]) for h in hsel if h["k"] == "ip" and h["sp"] == sp} for f, a in fam
               for sp in ("plain",)) or not {"dotted", "zoned", "brack"} <= {h["sp"] for h in hsel if h["k"] == "ip" and h["f"] == 6
                                                                      and (4, h["a"]) in fam}:
        raise tlc.MachineryError("list domain lacks an IP entry and host literals of the SAME integer in the OTHER family")


def digests(der):
    return {a: getattr(hashlib, a)(der).hexdigest() for a, _ in ALGS}


def concretize(cells, src, dg, salt):
    """Abstract pin (cells over o O x X e E :) -> concrete pin for a blob whose digests are dg."""
    true = dg[src]
    out = []
    i = 0
    for c in cells:
        if c == ":":
            out.append(":")
            continue
        if c in "oO":
            ch = true[i]
        else:
            delta = 1 + (i * 7 + salt) % 15
            ch = format(int(true[i], 16) ^ delta, "x") if i < len(true) else format((i * 5 + salt) % 16, "x")
        out.append(ch.upper() if c in "OXE" else ch)
        i += 1
    return "".join(out)


def hashlib_accept(pin, dg):
    """Harness fact (not the oracle): does the normalised pin equal the digest selected by its length?"""
    f = pin.replace(":", "").lower()
    return any(len(f) == n and f == dg[a] for a, n in ALGS)


def _fp_replay(args):
    recs, ders, salt = args
    dgs = [digests(d) for d in ders]
    st = dict(calls=0, bad=[], drift=[], nontriv=set(), traces=[], samples=[])
    for b, der in enumerate(ders):
        cases = []
        for rec in recs:
            pin = concretize(rec["cells"], rec["src"], dgs[b], salt + b)
            if hashlib_accept(pin, dgs[b]) != rec["acc"]:
                raise tlc.MachineryError(f"abstract pin {rec} does not concretize faithfully: {pin}")
            acc = fp_accepts(der, pin)
            st["calls"] += 1
            if acc != rec["acc"]:
                st["bad"].append(("FpMustAccept" if rec["acc"] else "FpMustReject:" + rec["clause"],
                                  {"kind": "fp", "der": der.hex(), "pin": pin}))
            if acc != rec["m"] and len(st["drift"]) < 5:
                st["drift"].append(f"pin {pin!r}: code {acc}, MATCHER {rec['m']}")
            if rec["d"] > 0:
                st["nontriv"].add((rec["src"], rec["cells"]))
            cases.append([list(pin), acc])
            if len(st["samples"]) < 2 and rec["d"] == 2 and b == 1:
                st["samples"].append({"pin": pin, "abstract": rec["cells"], "from": rec["src"], "accepted": acc})
        st["traces"].append({"kind": "fp", "blob": b + 1, "cases": cases})
    st.update(_fp_judge(st["traces"], dgs, ders))
    del st["traces"]
    return st


def _fp_judge(traces, dgs, ders):
    bad, done = judge({"blobs": [{a: list(d[a]) for a, _ in ALGS} for d in dgs], "traces": traces})
    verdicts = [(c, {"kind": "fp", "der": ders[traces[tid - 1]["blob"] - 1].hex(),
                     "pin": "".join(traces[tid - 1]["cases"][pos - 1][0])}) for tid, pos, c, _ in bad]
    return {"verdicts": _trim(verdicts), "ntraces": len(traces),
            "tally": [sum(d[i] for d in done.values()) for i in range(4)]}


def _fp_random(args):
    seed, n, ders = args
    rng = random.Random(seed)
    dgs = [digests(d) for d in ders]
    st = dict(calls=0, nontriv=set())
    traces = []
    for b, der in enumerate(ders):
        cases = []
        for _ in range(n):
            src, ln = rng.choice(ALGS)
            pin = list(dgs[b][src])
            for _ in range(rng.randint(1, 6)):
                op = rng.choice(["case", "colon", "flip", "trunc", "ext", "upper", "colons", "restore"])
                if op == "case" and pin:
                    i = rng.randrange(len(pin))
                    pin[i] = pin[i].swapcase()
                elif op == "colon":
                    pin.insert(rng.randint(0, len(pin)), ":")
                elif op == "flip" and pin:
                    i = rng.randrange(len(pin))
                    if pin[i] != ":":
                        pin[i] = format(int(pin[i], 16) ^ rng.randint(1, 15), "x")
                elif op == "trunc" and len(pin) > 1:
                    del pin[-rng.choice([1, 2, 8, 24, 32, len(pin) - 1]):]
                elif op == "ext":
                    pin.extend(rng.choice("0123456789abcdefABCDEF") for _ in range(rng.choice([1, 2, 8, 24, 32])))
                elif op == "upper":
                    pin = [c.upper() for c in pin]
                elif op == "colons":
                    f = [c for c in pin if c != ":"]
                    pin = list(":".join("".join(f[i:i + 2]) for i in range(0, len(f), 2)))
                elif op == "restore":     # back to a true digest of another algorithm, keeps decorations going
                    src, ln = rng.choice(ALGS)
                    pin = list(dgs[b][src])
            if not pin:
                pin = [":"]
            p = "".join(pin)
            acc = fp_accepts(der, p)
            st["calls"] += 1
            st["nontriv"].add(p)
            cases.append([pin, acc])
        traces.append({"kind": "fp", "blob": b + 1, "cases": cases})
    st.update(_fp_judge(traces, dgs, ders))
    st["odd"] = list(ODD)
    return st


# ----------------------------------------------------------------------------------------- driver

def _report(rep, findings, clause, case, what):
    f = known.match(findings, _facts(clause))
    if f:
        rep.known.append((f["id"], f["what"]))
        rep.extra["known_cases"] = rep.extra.get("known_cases", 0) + 1
        ks = rep.extra.setdefault("known_finding_samples", {})
        if len(ks.setdefault(f["id"], [])) < 2:
            ks[f["id"]].append(describe(case))
    else:
        rep.violation(clause, what + ": " + describe(case), case)


def describe(case):
    if case["kind"] == "pair":
        return f"entry {case['dn']!r} host {case['host']!r} via {case['via']}"
    if case["kind"] == "list":
        return (f"SAN {[entry_pair(e) for e in case['entries']]} CN {syms_name(case['cn']) if case['cn'] else None!r} "
                f"host {host_text(case['host'])!r} commonName-switch {case['on']} api {case['api']}")
    return f"pin {case['pin']!r} against a {len(case['der']) // 2}-byte DER blob"


def _tlc_job(args):
    """One stage-1 TLC run in a helper thread.  kind "check": must hold; kind "expect": MATCHER with the recorded
    deviations must break exactly this clause (and the counter-example must show `needle`)."""
    kind, name, spec, plan, invs, props, view, workers, needle = args
    if kind == "check":
        r = tlc.run("MC_HostMatch", cfg(spec, invs, props, view=view, **plan), workers=workers, heap="3g", timeout=7200)
        return kind, name, plan, r
    r = tlc.run("MC_HostMatch", cfg(spec, invs, **plan), workers=1, expect_fail=True, heap="2g")
    if r.violated != list(invs) or (needle or "") not in r.out:
        raise tlc.MachineryError(f"{name}: the recorded deviations were expected to break {invs} on an input holding "
                                 f"{needle}; TLC says {r.violated}\n{r.out[-1500:]}")
    return kind, name, plan, r


def run(rep):
    import time
    from concurrent.futures import ThreadPoolExecutor
    quick = rep.tier == "quick"
    findings = known.load("C08")
    rep.rule = ("pairs: every (entry, host) over the label alphabet is replayed through match_hostname (SAN), "
                "_match_hostname (SAN) and the commonName path; lists: every SAN list over the representative "
                "typed entries x CN x host x switch x api, plus seeded random lists; pins: every pin of the "
                "perturbation graph x 3 blobs plus seeded random perturbation chains.  A case is non-trivial "
                "when the reference does not class it must-reject or the code accepts it (pairs / lists), or when "
                "the pin differs from the unperturbed digest (pins); distinct by (entry, host) / (list, case) / pin")
    rep.assumptions = ["digests are opaque: hashlib computes them, TLC only compares normalised symbol sequences; the "
                       "'certificates' handed to assert_fingerprint are seeded byte strings (it never parses DER)",
                       "IP addresses are opaque ids in the spec (equal id <=> equal value); the harness maps id + "
                       "spelling to the literal, checks that the text TLC sees is that literal, and ipaddress decides "
                       "nothing in the oracle", "TLC 1.8 and CPython are trusted",
                       "the anchored regex of _dnsname_match is transcribed label-wise in MATCHER",
                       "a bracketed literal handed to the raw match_hostname is not an IP host (latitude, HostMatch.tla "
                       "RefKind); a commonName never counts for an IP host"]
    nsh = 2 if quick else NSHARD
    J = jobs()
    tpw = max(1, J // 4)                 # stage-1 JVMs running next to the shard processes
    w1 = 2 if quick else max(2, J // 4)  # workers of one stage-1 JVM (quick: tiny state spaces, a small JVM starts faster)
    pair_plans = ([dict(labels="MCLabels14", ml=2), dict(labels="MCLabels6", ml=3)] if quick else
                  [dict(labels="MCLabels14", ml=2), dict(labels="MCLabels12", ml=3), dict(labels="MCLabels5", ml=4)])
    list_plan = dict(ms=2, re="MCEntriesQ", rh="MCHostsQ") if quick else dict(ms=3, re="MCEntries", rh="MCHosts")
    small_list_plan = dict(ms=2, re="MCEntriesQ", rh="MCHostsQ")
    fp_plan = dict(fd=2, fs=8) if quick else dict(fd=2, fs=1)
    tallies = {"pairs": [0, 0, 0, 0], "lists": [0, 0, 0, 0], "pins": [0, 0, 0, 0]}
    t0 = time.time()
    phases = rep.extra["finished_at_s"] = {}

    def tick(name):
        phases[name] = round(time.time() - t0, 1)

    def add_tally(k, t):
        tallies[k] = [a + b for a, b in zip(tallies[k], t)]

    def absorb(o, what):
        rep.evaluations += o["calls"]
        rep.traces += o["ntraces"]
        rep.nontrivial.update(o["nontriv"])
        for d in o.get("drift", []):
            rep.drift.append(d)
        for d in o.get("odd", []):
            rep.drift.append("unexpected exception class (counted as rejection): " + d)
        for clause, case in o.get("bad", []):       # stage 3: disagreement with the values TLC emitted
            _report(rep, findings, clause, case, "real code outside the emitted reference (" + what + ")")
        for clause, case in o["verdicts"]:          # stage 4: TLC's judgement of the recorded verdicts
            _report(rep, findings, clause, case, "TLC rejected the recorded verdict (" + what + ")")

    # ---- stage 1 jobs (MATCHER |= RULES), run in helper threads next to the emission / replay shards.
    # FpSpec uses one worker: with a VIEW hiding the depth counter only strict BFS order makes the reached set
    # deterministic (a pin first met at a larger depth would otherwise cut its successors off).
    s1jobs = [("check", "PairsSpec", "PairsSpec", plan, PAIR_INVS, (), None, w1, None) for plan in pair_plans]
    s1jobs.append(("check", "ListsSpec", "ListsSpec", list_plan, LIST_INVS, (), None, w1, None))
    s1jobs.append(("check", "FpSpec", "FpSpec", fp_plan, FP_INVS, ["FpCaseColonBlind"], "FpView", 1, None))
    s1jobs.append(("expect", "PairsSpec", "PairsSpec", dict(labels="MCLabels14", ml=1), ["PairMatcherRejectsForbidden"],
                 (), None, 1, '"X", "N"'))
    s1jobs.append(("expect", "ListsSpec", "ListsSpec", small_list_plan, ["ListAcceptsStrict"], (), None, 1, '"*", "*"'))
    s1jobs.append(("expect", "ListsSpec", "ListsSpec", small_list_plan, ["ListRejectsForbidden"], (), None, 1, None))
    # a deviation the code must NOT have: comparing the integers of the addresses instead of the packed octets
    # accepts an entry of the other family; TLC shows it leaves RULES, the replay refutes it on the real code
    s1jobs.append(("expect", "ListsSpec (IpComparedAsInteger)", "ListsSpec", dict(small_list_plan, kd="OnlyIpInt"),
                   ["ListRejectsForbidden"], (), None, 1, '"IP"'))

    # which of the recorded deviations does this tree still have?  The emitted MATCHER predictions follow it (so a
    # fix: commit leaves no drift); the verdicts never depend on it.
    dns = lambda *names: {"subjectAltName": tuple(("DNS", n) for n in names)}
    present = [d for d, there in (("ABORT", not accepts("raw", dns("**.b", "a.b"), "a.b", False)),
                                  ("ACECASE", accepts("raw", dns("XN--*.b"), "XN--a.b", False))) if there]
    kd = {(): "NoDefects", ("ABORT",): "OnlyAbort", ("ACECASE",): "OnlyAceCase", ("ABORT", "ACECASE"): "AllDefects"}[tuple(present)]
    rep.extra["recorded_deviations_present_in_tree"] = present

    rep.extra["process_budget"] = J
    with mp.Pool(max(1, min(NSHARD, J - tpw))) as pool, ThreadPoolExecutor(tpw) as tp:
        s1 = [tp.submit(_tlc_job, j) for j in s1jobs]
        # ---- everything that does not depend on another result is submitted at once
        pplans = [dict(plan, k=nsh, kd=kd) for plan in pair_plans]
        pair_f = [[pool.apply_async(_pair_shard, ((plan, s),)) for s in range(nsh)] for plan in pplans]
        lplan = dict(list_plan, k=nsh, kd=kd)
        lemit_f = [pool.apply_async(_list_shard, ((lplan, s),)) for s in range(nsh)]
        nr, pr = (2400, 800) if quick else (96000, 2000)
        rlist_f = [pool.apply_async(_rand_list_shard, ((rep.seed * 100003 + i, pr),)) for i in range(nr // pr)]
        ders = make_blobs(rep.seed)
        nr, pr = (2, 900) if quick else (64, 1500)
        rpin_f = [pool.apply_async(_fp_random, ((rep.seed * 7919 + i, pr, ders),)) for i in range(nr)]
        # ---- pins: emission (here), replay + judgement (shards)
        fprecs = []

        def on_line(ln):
            if not ln.startswith('<<"FP"'):
                return False
            fprecs.extend(tlc.tagged_json(ln, "FP"))
            return True
        r = tlc.run("MC_HostMatch", cfg("FpSpec", ["EmitFp"], view="FpView", **fp_plan), workers=1, on_line=on_line)
        fp_emitted = r.distinct
        if len(fprecs) != r.distinct:
            raise tlc.MachineryError(f"pin emission incomplete: {len(fprecs)} of {r.distinct}")
        if not any(p["acc"] and p["d"] > 0 for p in fprecs) or \
                {p["clause"] for p in fprecs} != {"none", "PinOfOtherLength", "DigestDiffers"}:
            raise tlc.MachineryError("vacuous pin reference")
        per = max(1, -(-len(fprecs) // nsh))
        pin_f = [pool.apply_async(_fp_replay, ((fprecs[i:i + per], ders, rep.seed),)) for i in range(0, len(fprecs), per)]
        tick("pin emission")
        # ---- lists: emission shards -> replay + judgement shards
        outs = [f.get() for f in lemit_f]
        dom = outs[0]["dom"]
        if not dom:
            raise tlc.MachineryError("list domain was not emitted")
        check_domain(dom)
        recs = [x for o in outs for x in o["pending"]]
        seen = {c for o in outs for c in o["rc"]}
        if not LIST_CLAUSES <= seen:
            raise tlc.MachineryError(f"list reference never uses the clauses {sorted(LIST_CLAUSES - seen)}")
        rep.extra["list_reject_clauses_exercised"] = sorted(seen - {"none"})
        nlists = outs[0]["distinct"]
        if len(recs) != nlists:
            raise tlc.MachineryError(f"list emission incomplete: {len(recs)} of {nlists} lists")
        random.Random(rep.seed).shuffle(recs)
        per = max(1, -(-len(recs) // (nsh * 2)))
        list_f = [pool.apply_async(_list_replay, ((dom, recs[i:i + per]),)) for i in range(0, len(recs), per)]
        tick("list emission")

        # ---- collect, in a fixed order
        pairs_checked = 0
        for kind, name, plan, r in [f.result() for f in s1]:
            if kind == "expect":
                rep.extra.setdefault("stage1_expected_counterexamples", []).append(
                    f"{r.violated[0]} fails in {name} with KnownDefects = {plan.get('kd', 'AllDefects')} (as expected)")
                continue
            rep.add_tlc(f"{name} {plan}", r)
            if r.violated:
                rep.violation("MatcherVsRules", f"TLC: {r.violated} violated in {name} {plan}", None)
            if name == "PairsSpec":
                n = len(domain(plan["labels"], plan["ml"]))
                if r.distinct != n + 1:
                    raise tlc.MachineryError(f"PairsSpec explored {r.distinct} states, expected {n + 1}")
                pairs_checked += n * n
            elif name == "ListsSpec" and r.distinct != nlists:
                raise tlc.MachineryError(f"ListsSpec explored {r.distinct} lists, emission {nlists}")
            elif name == "FpSpec" and r.distinct != fp_emitted:
                raise tlc.MachineryError(f"FpSpec explored {r.distinct} pins, emission {fp_emitted}")
        rep.extra["stage1_pairs_checked"] = pairs_checked
        tick("stage1")
        pseen = set()
        for plan, fs in zip(pplans, pair_f):
            outs = [f.get() for f in fs]
            n = len(domain(plan["labels"], plan["ml"]))
            if sum(o["entries"] for o in outs) != n:
                raise tlc.MachineryError(f"pair emission incomplete: {sum(o['entries'] for o in outs)} of {n} entries")
            if sum(o["calls"] for o in outs) != n * n * len(VIAS):
                raise tlc.MachineryError("pair replay incomplete")
            if not sum(o["must"] for o in outs) or not sum(o["either"] for o in outs):
                raise tlc.MachineryError("vacuous pair reference (no must-accept / either member)")
            pseen.update(c for o in outs for c in o["rc"])
            for o in outs:
                absorb(o, "pairs")
                add_tally("pairs", o["tally"])
                for s in o["samples"]:
                    rep.sample(s, cap=2)
        if not PAIR_CLAUSES <= pseen:
            raise tlc.MachineryError(f"pair reference never uses the clauses {sorted(PAIR_CLAUSES - pseen)}")
        rep.extra["pair_reject_clauses_exercised"] = sorted(pseen - {"none"})
        tick("pairs")
        outs = [f.get() for f in list_f]
        if sum(o["lists"] for o in outs) != len(recs):
            raise tlc.MachineryError("list replay incomplete")
        for o in outs:
            absorb(o, "lists")
            add_tally("lists", o["tally"])
            for s in o["samples"][:1]:
                rep.sample(s, cap=4)
        for o in [f.get() for f in rlist_f]:
            absorb(o, "random lists")
            add_tally("lists", o["tally"])
        tick("lists")
        outs = [f.get() for f in pin_f]
        if sum(o["calls"] for o in outs) != len(fprecs) * len(ders):
            raise tlc.MachineryError("pin replay incomplete")
        for o in outs:
            absorb(o, "pins")
            add_tally("pins", o["tally"])
            for s in o["samples"][:1]:
                rep.sample(s, cap=6)
        for o in [f.get() for f in rpin_f]:
            absorb(o, "random pins")
            add_tally("pins", o["tally"])
        tick("pins")
    for k, t in tallies.items():
        rep.extra[k + "_judged_by_tlc"] = {"cases": t[0], "must_accept": t[1], "must_reject": t[2], "either": t[3]}
        if not t[1] or not t[2] or (k != "pins" and not t[3]):
            raise tlc.MachineryError(f"vacuous judgement for {k}: {t}")
    rep.drift = rep.drift[:10]
    rep.exhaustive = True


def replay(rep, path):
    with open(path) as fh:
        case = json.load(fh)["case"]
    findings = known.load("C08")
    rep.rule = "replay of one recorded case"
    rep.nontrivial.add(1)
    rep.states = rep.transitions = 1
    if case["kind"] == "pair":
        acc = pair_accepts(case["via"], case["dn"], case["host"])
        ml = max(len(case["dn"].split(".")), len(case["host"].split(".")))
        doc = {"entries": [{"t": "DNS", "n": name_syms(case["dn"]), "f": 0, "a": 0, "sp": "-"}],
               "hosts": [{"k": "dns", "n": name_syms(case["host"]), "f": 0, "a": 0, "sp": "-"}],
               "cns": [name_syms(case["dn"])],
               "traces": [{"kind": "list", "san": [] if case["via"] == "cn" else [1],
                           "cases": [[1, 1 if case["via"] == "cn" else 0, case["via"] == "cn",
                                      "wrap" if case["via"] == "wrap" else "raw", acc]]}]}
    elif case["kind"] == "list":
        cert = make_cert(case["entries"], case["cn"] or None)
        acc = accepts(case["api"], cert, host_text(case["host"]), case["on"])
        doc = {"entries": case["entries"], "hosts": [case["host"]], "cns": [case["cn"] or [["a"]]],
               "traces": [{"kind": "list", "san": list(range(1, len(case["entries"]) + 1)),
                           "cases": [[1, 1 if case["cn"] else 0, case["on"], case["api"], acc]]}]}
    else:
        der = bytes.fromhex(case["der"])
        acc = fp_accepts(der, case["pin"])
        doc = {"blobs": [{a: list(d) for a, d in digests(der).items()}],
               "traces": [{"kind": "fp", "blob": 1, "cases": [[list(case["pin"]), acc]]}]}
    rep.evaluations += 1
    bad, done = judge(doc)
    rep.traces += 1
    for tid, pos, c, _ in bad:
        _report(rep, findings, c, case, f"TLC rejected the fresh verdict (accepted={acc})")
