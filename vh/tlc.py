"""Thin, strict driver around TLC / SANY.

Every run happens in a private scratch directory (a copy of /verif/spec plus generated cfg /
data files) that is removed afterwards, so nothing is left behind and /verif/spec stays clean.
Anything unexpected (TLC crash, parse error, missing summary line) raises MachineryError: a check
must never be silently green.
"""
from __future__ import annotations

import json
import os
import re
import shutil
import subprocess
import tempfile
import time
from dataclasses import dataclass, field

ROOT = os.path.dirname(os.path.dirname(os.path.abspath(__file__)))
SPEC_DIR = os.path.join(ROOT, "spec")
JAR = "/opt/veriftools/tla/tla2tools.jar"
CP = JAR + ":/opt/veriftools/tla/CommunityModules-deps.jar"
NCPU = int(os.environ.get("VERIF_JOBS") or 0) or os.cpu_count() or 4   # VERIF_JOBS caps "auto" workers


class MachineryError(Exception):
    """The verification machinery itself failed (exit code 2)."""


@dataclass
class TLCResult:
    rc: int
    out: str
    wall: float
    generated: int = 0
    distinct: int = 0
    depth: int = 0
    violated: list = field(default_factory=list)   # names of violated invariants/properties
    error: str | None = None                      # first "Error:" line not explained above
    printed: list = field(default_factory=list)   # raw PrintT lines (strings)
    coverage: dict = field(default_factory=dict)  # action name -> (distinct, total)
    workdir: str | None = None

    @property
    def ok(self) -> bool:
        return self.rc == 0 and not self.violated and self.error is None


_SUMMARY = re.compile(r"(\d+) states generated, (\d+) distinct states found")
_DEPTH = re.compile(r"The depth of the complete state graph search is (\d+)")
_INV = re.compile(r"Error: Invariant (\S+) is violated")
_PROP = re.compile(r"Error: (?:Temporal properties were violated|Action property (\S+) is violated)")
_COV = re.compile(r"^<(\w+) line \d+, col \d+ to line \d+, col \d+ of module (\w+)>: (\d+):(\d+)", re.M)


def _cpu_ticks(pid: int):
    """utime + stime of a process in clock ticks (None when it cannot be read)."""
    try:
        with open(f"/proc/{pid}/stat") as fh:
            f = fh.read().rsplit(")", 1)[1].split()
        return int(f[11]) + int(f[12])
    except Exception:
        return None


def scratch(prefix: str = "vh-") -> str:
    base = os.environ.get("VERIF_SCRATCH") or tempfile.gettempdir()
    return tempfile.mkdtemp(prefix=prefix, dir=base)


def _copy_specs(dst: str) -> None:
    for f in os.listdir(SPEC_DIR):
        if f.endswith(".tla") or f.endswith(".cfg"):
            shutil.copy2(os.path.join(SPEC_DIR, f), os.path.join(dst, f))


def run(module: str, cfg_text: str | None = None, *, cfg: str | None = None, workers: int | str = "auto",
        simulate: str | None = None, depth: int | None = None, seed: int | None = None,
        env: dict | None = None, deque: bool = False, timeout: float = 3600, coverage: bool = False,
        files: dict | None = None, keep: bool = False, extra: tuple = (), heap: str = "8g",
        deadlock: bool = True, expect_fail: bool = False, on_line=None) -> TLCResult:
    """Run TLC on spec/<module>.tla with either cfg_text (written to a scratch cfg) or an existing
    spec/<cfg>. `files` are extra files (name -> str/bytes) dropped next to the spec; `env` is added
    to the JVM environment (readable via IOEnv)."""
    wd = scratch("tlc-")
    try:
        _copy_specs(wd)
        for name, data in (files or {}).items():
            mode = "wb" if isinstance(data, bytes) else "w"
            with open(os.path.join(wd, name), mode) as fh:
                fh.write(data)
        cfgname = cfg or (module + "_gen.cfg")
        if cfg_text is not None:
            with open(os.path.join(wd, cfgname), "w") as fh:
                fh.write(cfg_text)
        nworkers = str(NCPU if workers == "auto" else workers)
        if int(nworkers) <= 2:
            # many single-worker JVMs run side by side: keep each one small and quiet
            jvm = ["java", "-XX:+UseSerialGC", "-Xmx" + (heap if heap != "8g" else "3g"), "-Xss32m",
                   "-XX:TieredStopAtLevel=4", "-XX:CICompilerCount=2"]
        else:
            jvm = ["java", "-XX:+UseParallelGC", "-Xmx" + heap, "-Xss32m"]
        if deque:
            jvm.append("-Dtlc2.tool.queue.IStateQueue=StateDeque")
        cmd = jvm + ["-cp", CP, "tlc2.TLC", "-workers", nworkers, "-metadir", os.path.join(wd, "states"),
                     "-noGenerateSpecTE", "-config", cfgname]
        if not deadlock:
            cmd.append("-deadlock")
        if coverage:
            cmd += ["-coverage", "1"]
        if simulate is not None:
            cmd += ["-simulate", simulate]
        if depth is not None:
            cmd += ["-depth", str(depth)]
        if seed is not None:
            cmd += ["-seed", str(seed)]
        cmd += list(extra) + [module + ".tla"]
        e = dict(os.environ)
        e.pop("JAVA_TOOL_OPTIONS", None)
        e.update({k: str(v) for k, v in (env or {}).items()})
        t0 = time.time()
        if on_line is None:
            # TLC occasionally dead-locks inside the JVM (seen once in ~10^4 runs: all workers parked, no CPU, no output).
            # A JVM that burns < 0.5 s of CPU in 120 s of wall time is taken for stalled, killed, and the run is repeated once.
            for attempt in (1, 2):
                p = subprocess.Popen(cmd, cwd=wd, env=e, stdout=subprocess.PIPE, stderr=subprocess.STDOUT,
                                     text=True, errors="replace")
                stalled, outbuf = False, None
                last_ticks, last_change = _cpu_ticks(p.pid), time.time()
                while True:
                    try:
                        outbuf, _ = p.communicate(timeout=10)
                        break
                    except subprocess.TimeoutExpired:
                        now = time.time()
                        if now - t0 > timeout:
                            p.kill(); p.communicate()
                            raise MachineryError(f"TLC timed out after {timeout}s on {module}")
                        ticks = _cpu_ticks(p.pid)
                        if ticks is None or ticks - last_ticks >= 50:
                            last_ticks, last_change = (ticks if ticks is not None else last_ticks), now
                        elif now - last_change > 120:
                            stalled = True
                            p.kill(); p.communicate()
                            break
                if not stalled:
                    break
                if attempt == 2:
                    raise MachineryError(f"TLC stalled twice (no CPU, no output) on {module}")
                shutil.rmtree(os.path.join(wd, "states"), ignore_errors=True)
            out = outbuf
        else:
            # streaming mode: lines for which on_line(line) returns True are consumed, the rest kept
            p = subprocess.Popen(cmd, cwd=wd, env=e, stdout=subprocess.PIPE, stderr=subprocess.STDOUT,
                                 text=True, errors="replace", bufsize=1 << 20)
            kept = []
            stall = {"hit": False}

            def _watch():   # same stall rule as above; streaming output cannot be replayed, so a stall is a machinery failure
                last_ticks, last_change = _cpu_ticks(p.pid), time.time()
                while p.poll() is None:
                    time.sleep(10)
                    ticks = _cpu_ticks(p.pid)
                    now = time.time()
                    if ticks is None or ticks - last_ticks >= 50:
                        last_ticks, last_change = (ticks if ticks is not None else last_ticks), now
                    elif now - last_change > 120:
                        stall["hit"] = True
                        p.kill()
                        return

            import threading
            threading.Thread(target=_watch, daemon=True).start()
            try:
                for ln in p.stdout:
                    if time.time() - t0 > timeout:
                        p.kill()
                        raise MachineryError(f"TLC timed out after {timeout}s on {module}")
                    if not on_line(ln.rstrip("\n")):
                        kept.append(ln)
                p.wait()
            finally:
                if p.poll() is None:
                    p.kill()
            out = "".join(kept)
            if stall["hit"]:
                raise MachineryError(f"TLC stalled (no CPU, no output) on {module}")
        wall = time.time() - t0
        r = TLCResult(rc=p.returncode, out=out, wall=wall, workdir=wd if keep else None)
        ms = _SUMMARY.findall(out)
        if ms:
            r.generated, r.distinct = int(ms[-1][0]), int(ms[-1][1])
        md = _DEPTH.search(out)
        if md:
            r.depth = int(md.group(1))
        r.violated = _INV.findall(out)
        for m in _PROP.finditer(out):
            r.violated.append(m.group(1) or "TemporalProperty")
        if "Error: Deadlock reached" in out:
            r.violated.append("Deadlock")
        if "is violated" in out and not r.violated:
            r.violated.append("Unknown")
        for line in out.splitlines():
            if line.startswith("Error:") and not r.violated and r.error is None:
                r.error = line
        for m in _COV.finditer(out):
            r.coverage[m.group(1)] = (int(m.group(4)), int(m.group(3)))  # (distinct, total)
        r.printed = [ln for ln in out.splitlines() if ln.startswith("<<") or ln.startswith("\"") or ln.startswith("[")]
        if simulate is None and not ms and not expect_fail:
            raise MachineryError(f"TLC produced no summary for {module}:\n{out[-3000:]}")
        if r.error and not expect_fail:
            raise MachineryError(f"TLC error on {module}: {r.error}\n{out[-3000:]}")
        return r
    finally:
        if not keep:
            shutil.rmtree(wd, ignore_errors=True)


def sany(module: str) -> None:
    wd = scratch("sany-")
    try:
        _copy_specs(wd)
        p = subprocess.run(["java", "-cp", CP, "tla2sany.SANY", module + ".tla"], cwd=wd,
                           stdout=subprocess.PIPE, stderr=subprocess.STDOUT, text=True, timeout=300)
        if p.returncode != 0 or "Semantic errors" in p.stdout or "*** Errors" in p.stdout or "Parse Error" in p.stdout:
            raise MachineryError(f"SANY rejected {module}:\n{p.stdout[-3000:]}")
    finally:
        shutil.rmtree(wd, ignore_errors=True)


# ---------------------------------------------------------------------------------------------
# Parsing TLC-printed values.  TLC prints PrintT(<<"TAG", x, y>>) as  <<"TAG", x, y>>  possibly
# wrapped over several lines.  We only ever print tuples whose payload is a JSON string produced by
# ToJson, or ints/strings, so a tiny parser suffices.

def tagged_json(out: str, tag: str) -> list:
    """Return the decoded JSON payloads of all lines  <<"tag", "<json>">>  in TLC output."""
    res = []
    pre = '<<"' + tag + '", "'
    for ln in out.splitlines():
        if ln.startswith(pre) and ln.endswith('">>'):
            body = ln[len(pre):-3]
            # TLC prints the TLA+ string with \" and \\ escapes
            body = body.replace('\\\\', '\x00').replace('\\"', '"').replace('\x00', '\\')
            res.append(json.loads(body))
    return res


def tagged_tuples(out: str, tag: str) -> list:
    """Lines of the form <<"tag", a, b, ...>> with int / "string" members -> python tuples."""
    res = []
    pre = '<<"' + tag + '"'
    for ln in out.splitlines():
        if ln.startswith(pre) and ln.endswith('>>'):
            inner = ln[2:-2]
            try:
                res.append(tuple(json.loads("[" + inner + "]"))[1:])
            except Exception:
                res.append((ln,))
    return res


def tla_str(s: str) -> str:
    return '"' + s.replace('\\', '\\\\').replace('"', '\\"') + '"'


def tla_val(v) -> str:
    """Python value -> TLA+ expression (ints, bools, strings, lists->sequences, sets, dicts->records)."""
    if isinstance(v, bool):
        return "TRUE" if v else "FALSE"
    if isinstance(v, int):
        return str(v)
    if isinstance(v, str):
        return tla_str(v)
    if isinstance(v, (list, tuple)):
        return "<<" + ", ".join(tla_val(x) for x in v) + ">>"
    if isinstance(v, (set, frozenset)):
        return "{" + ", ".join(sorted(tla_val(x) for x in v)) + "}"
    if isinstance(v, dict):
        return "[" + ", ".join(f"{k} |-> {tla_val(x)}" for k, x in v.items()) + "]"
    raise TypeError(v)
