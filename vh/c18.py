"""C18 — connections are never shared across differing connection settings.

constants  Keywords (inspect.signature of the pool / connection constructors), KeyFields (PoolKey._fields),
           IdentityKw, ManagerOwn, SslKeywords are extracted from the tree under test AT RUN TIME and written
           into the generated cfg; the per-keyword value table below contributes CloneKw / DefectTwinKw /
           CtorDefaultKw / StructKw / ValueEqKw / NVof, computed from the actual Python values (==, hash,
           constructor defaults).  For STRUCTURED keywords (Retry, Timeout, ProxyConfig, Url, header / option dicts,
           socket-option lists, SSLContext) the table is widened at run time by vh/c18values.py: base, separately
           built clone and one variant per constructor parameter / field (inspect.signature of the value type).
stage 1    TLC checks spec/PoolKey.tla on every scenario of spec/MC_PoolKey.tla: strict design (KnownDefects = {})
           and the Model with the recorded deviations enabled (invariants hold up to the recorded signatures);
           the Model with the seeded fault LossyValueCanonicalisation must be REFUTED (NoSharingAcrossSettings).
           quick = a 1/2 slice (rotated by VERIF_SEED) of value pairs x supply forms x manager kinds for every
           keyword; thorough = all ordered pairs of all values x all forms x all kinds.
stage 2    TLC emits every finished behaviour: scenario + the Model's expected observations + the Rules' verdict
stage 3    each scenario is replayed on a real PoolManager / ProxyManager (values supplied via constructor
           defaults, pool_kwargs or an explicit request context) and compared with the emitted expectation
stage 4    the recorded traces (exception class, pool identity, key equality, defaults untouched, how the returned
           pool is configured) plus seeded random multi-keyword traces are validated by TLC
           (spec/PoolKey_Trace.tla); the verdict on the real code is TLC's
"""
from __future__ import annotations

import inspect
import json
import multiprocessing as mp
import os
import random
import re
import socket
import ssl
import threading

from . import c18values, known, tlc

NV = 3          # plain values per keyword; structured keywords have NV + 2 + #fields (see table())
BASE, CLONE = NV + 1, NV + 2
STRIDE = 2      # quick: 1 / STRIDE of the (value pair x combo) product, slice chosen by VERIF_SEED
NOPORT = -1
NOOV = -1
OTHER = -1
UNKNOWN = "zz_unknown"
SIGS = ("PortZero", "PyEqTwins")
HARD = ("DefaultsAltered", "UnexpectedException", "SharedAcrossSettings", "NotSharedThoughEqual", "PoolMisconfigured")
INVARIANTS = ["TypeOK", "KeywordKeyedOrRejected", "NoSharingAcrossSettings", "OneApartDistinctKeys",
              "NormalisationMergesOnlyVariants", "SharedWhenEqual", "PoolConfiguredAsRequested", "DefaultsUntouched"]
PROPERTIES = ["DefaultsNeverWritten"]
PROXY_URL = "http://proxy.test:3128"


# ------------------------------------------------------------------------------ constants from the code

def extract():
    """Everything the specification takes from the tree under test."""
    from urllib3 import connection as cn
    from urllib3 import connectionpool as cp
    from urllib3 import poolmanager as pm
    classes = [cp.HTTPConnectionPool, cp.HTTPSConnectionPool, cn.HTTPConnection, cn.HTTPSConnection]
    try:
        from urllib3.contrib import socks
        classes += [socks.SOCKSConnection, socks.SOCKSHTTPSConnection]
    except Exception:   # PySocks missing: the SOCKS constructors are simply not part of this run
        pass
    P = inspect.Parameter
    accepted, defaults, pool_level, conn_level = {}, {}, set(), set()
    for c in classes:
        for name, p in inspect.signature(c.__init__).parameters.items():
            if name == "self" or p.kind in (P.VAR_POSITIONAL, P.VAR_KEYWORD):
                continue
            accepted.setdefault(name, []).append(c.__name__)
            (pool_level if c.__name__.endswith("Pool") else conn_level).add(name)
            if p.default is not P.empty:
                defaults.setdefault(name, []).append(p.default)
    fields = list(pm.PoolKey._fields)
    if not all(f.startswith("key_") for f in fields):
        raise tlc.MachineryError(f"PoolKey fields without key_ prefix: {fields}")
    keyfields = [f[4:] for f in fields]
    identity = [n for n in inspect.signature(pm.PoolManager._new_pool).parameters if n not in ("self", "request_context")]
    if sorted(identity) != ["host", "port", "scheme"]:
        raise tlc.MachineryError(f"_new_pool identity is {identity}; PoolKey.tla models (scheme, host, port)")
    own = set()
    for c in (pm.PoolManager, pm.ProxyManager):
        for name, p in inspect.signature(c.__init__).parameters.items():
            if name != "self" and p.kind not in (P.VAR_POSITIONAL, P.VAR_KEYWORD):
                own.add(name)
    return {"Keywords": sorted(accepted), "accepted_by": accepted, "KeyFields": keyfields, "IdentityKw": sorted(identity),
            "ManagerOwn": sorted(own), "SslKeywords": sorted(pm.SSL_KEYWORDS), "ctor_defaults": defaults,
            "pool_level": sorted(pool_level), "conn_level": sorted(conn_level),
            "default_blocksize": pm._DEFAULT_BLOCKSIZE}


def settings_of(c):
    return sorted((set(c["Keywords"]) | set(c["KeyFields"])) - set(c["IdentityKw"])) + [UNKNOWN]


# ------------------------------------------------------------------------------ the value table
# Three plain non-None values per keyword.  Conventions the specification relies on (all verified at run time
# against the actual objects, see table_meta): values are pairwise distinct settings, except that for the
# keywords in CLONES value 3 is an equal-content / equal-meaning twin of value 1 (a second dict / list with
# the same content, 0 for False); a value equal to a constructor's own default sits at index 1.
# Structured keywords (c18values.bases()) get further values, derived from the value type at run time:
# index BASE = a base object, CLONE = an equal-content object built separately, BASE+2.. = one variant per
# constructor parameter / field, differing from the base in exactly that parameter.

CLONES = {"headers", "_proxy_headers", "_socks_options", "socket_options", "block"}
_TABLE = None
_LABELS = {}            # kw -> labels of the values BASE.. ("base", "clone", parameter names)
_STRUCT_SKIPPED = {}    # kw -> parameters / attributes of the value type that could not be varied
_KINDS = {}             # kw -> how the variants were derived ("ctor" | "factory" | "value")
_STRUCT_CLS = {}        # kw -> class whose instances are recognised by identity when a pool is read back


def table():
    global _TABLE
    if _TABLE is not None:
        return _TABLE
    from urllib3.connection import ProxyConfig
    from urllib3.util.retry import Retry
    from urllib3.util.timeout import Timeout
    from urllib3.util.url import parse_url
    TV = ssl.TLSVersion
    ctxs = [ssl.create_default_context(), ssl.create_default_context(), ssl.SSLContext(ssl.PROTOCOL_TLS_CLIENT)]
    pctx = ssl.create_default_context()
    socks5 = {"socks_version": 2, "proxy_host": "socks1.test", "proxy_port": 1080, "username": None, "password": None, "rdns": False}
    t = {
        "timeout": (1.5, 2.5, Timeout(connect=1.0, read=3.0)),
        "retries": (False, 0, Retry(total=3)),
        "block": (False, True, 0),
        "maxsize": (2, 5, 10),
        "source_address": (("127.0.0.1", 0), ("127.0.0.2", 0), ("127.0.0.1", 50000)),
        "key_file": ("/pki/client1.key", "/pki/client2.key", "/pki/client3.key"),
        "key_password": ("secret-one", "secret-two", "secret-three"),
        "cert_file": ("/pki/client1.pem", "/pki/client2.pem", "/pki/client3.pem"),
        "cert_reqs": ("CERT_REQUIRED", "CERT_NONE", "CERT_OPTIONAL"),
        "ca_certs": ("/pki/ca1.pem", "/pki/ca2.pem", "/pki/ca3.pem"),
        "ca_cert_data": ("-----BEGIN CERTIFICATE-----\nAAA", b"\x30\x82\x01", "-----BEGIN CERTIFICATE-----\nCCC"),
        "ssl_version": ("PROTOCOL_TLS_CLIENT", ssl.PROTOCOL_TLS_CLIENT, "PROTOCOL_TLSv1_2"),
        "ssl_minimum_version": (TV.TLSv1_2, TV.TLSv1_3, TV.TLSv1_1),
        "ssl_maximum_version": (TV.TLSv1_3, TV.TLSv1_2, TV.MAXIMUM_SUPPORTED),
        "ca_cert_dir": ("/pki/cas1", "/pki/cas2", "/pki/cas3"),
        "ssl_context": tuple(ctxs),
        "headers": ({"X-Tenant": "one", "Accept": "*/*"}, {"X-Tenant": "two"}, {"Accept": "*/*", "X-Tenant": "one"}),
        "_proxy": (parse_url(PROXY_URL), parse_url("https://proxy2.test:8443"), parse_url("http://proxy3.test:3128")),
        "_proxy_headers": ({"Proxy-Authorization": "Basic b25l"}, {"Proxy-Authorization": "Basic dHdv"},
                           {"Proxy-Authorization": "Basic b25l"}),
        "_proxy_config": (ProxyConfig(None, False, None, None), ProxyConfig(pctx, False, None, None),
                          ProxyConfig(None, True, None, None)),
        "socket_options": ([(socket.IPPROTO_TCP, socket.TCP_NODELAY, 0)], [(socket.SOL_SOCKET, socket.SO_KEEPALIVE, 1)],
                           [(socket.IPPROTO_TCP, socket.TCP_NODELAY, 0)]),
        "_socks_options": (socks5, dict(socks5, proxy_host="socks2.test"), dict(reversed(list(socks5.items())))),
        "assert_hostname": ("other.test", False, "third.test"),
        "assert_fingerprint": ("AA:" * 31 + "AA", "BB:" * 31 + "BB", "CC:" * 19 + "CC"),
        "server_hostname": ("sni1.test", "sni2.test", "sni3.test"),
        "blocksize": (16384, 8192, 65536),
        "proxy": (parse_url("http://cproxy1.test:3128"), parse_url("http://cproxy2.test:3128"), parse_url("http://cproxy3.test:3128")),
        "proxy_config": (ProxyConfig(None, False, None, None), ProxyConfig(pctx, True, None, None),
                         ProxyConfig(None, True, "p.test", None)),
        UNKNOWN: (1, 2, 3),
    }
    from urllib3.poolmanager import PoolKey
    for kw, spec in c18values.bases().items():
        if kw not in t or "key_" + kw not in PoolKey._fields:
            continue        # a keyword the key rejects is never served: its three plain values show the rejection
        vs, skipped = c18values.variants(kw, spec)
        t[kw] = tuple(t[kw]) + tuple(v for _, v in vs)
        _LABELS[kw] = [lab for lab, _ in vs]
        _KINDS[kw] = spec[0]
        if spec[0] in ("ctor", "factory"):
            _STRUCT_CLS[kw] = spec[1] if spec[0] == "ctor" else ssl.SSLContext
        _STRUCT_SKIPPED[kw] = skipped
    _TABLE = t
    return t


def label_of(kw, i):
    """Human-readable name of value i of kw (for reports)."""
    table()
    if i <= 0:
        return "None" if i == 0 else "-"
    if i <= NV or kw not in _LABELS:
        return f"plain value {i}"
    lab = _LABELS[kw][i - BASE]
    return lab if lab in ("base", "clone") else f"base with {lab} changed"


def values_for(kw):
    """Table row for kw; a keyword the table does not know (added to a constructor later) gets generic values."""
    t = table()
    if kw not in t:
        t[kw] = (f"value-one-of-{kw}", f"value-two-of-{kw}", f"value-three-of-{kw}")
    return t[kw]


def _freeze(v):
    if isinstance(v, dict):
        return frozenset(v.items())
    if isinstance(v, list):
        return tuple(v)
    return v


def _pyeq(a, b):
    fa, fb = _freeze(a), _freeze(b)
    return bool(fa == fb) and hash(fa) == hash(fb)


def table_meta(c):
    """CloneKw / DefectTwinKw / CtorDefaultKw / KeyDefaultKw / StructKw / ValueEqKw / NVof, computed from the actual objects."""
    clone, twin, cdef, struct, valeq, nvof = [], [], [], [], [], {}
    for kw in settings_of(c):
        vs = values_for(kw)
        n = len(vs)
        nvof[kw] = n
        if any(v is None for v in vs) or (n != NV and (kw not in _LABELS or n < NV + 3 or n != NV + len(_LABELS[kw]))):
            raise tlc.MachineryError(f"value table for {kw} must hold {NV} non-None values (+ base, clone, >= 1 field variant)")
        eq = {(i, j) for i in range(1, n + 1) for j in range(i + 1, n + 1) if _pyeq(vs[i - 1], vs[j - 1])}
        want = {(1, 3)} if kw in CLONES else set()
        if n > NV:
            struct.append(kw)
            if vs[BASE - 1] is vs[CLONE - 1]:
                raise tlc.MachineryError(f"table: {kw} clone must be a distinct object")
            if (BASE, CLONE) in eq:          # the type has value equality (dict, list, namedtuple)
                valeq.append(kw)
                want.add((BASE, CLONE))
        if kw in CLONES and (1, 3) not in eq:
            raise tlc.MachineryError(f"table: {kw} value 3 should equal value 1")
        if kw in CLONES and kw != "block" and vs[0] is vs[2]:
            raise tlc.MachineryError(f"table: {kw} value 3 must be a distinct object")
        if _KINDS.get(kw) in ("ctor", "factory"):
            # Objects of a class with a constructor (Retry, Timeout, SSLContext): that the variants are different settings
            # was established from their STATE (c18values), not from ==.  Should the class define an __eq__ that conflates
            # two of them, that is for TLC to judge on the traces (shared pool across differing settings), not a table error.
            eq = {(i, j) for i, j in eq if j <= NV or (i, j) == (BASE, CLONE)}
        extra = eq - want
        if extra == {(1, 2)} and kw not in CLONES:
            twin.append(kw)     # two different settings that compare equal in Python
        elif extra:
            raise tlc.MachineryError(f"table: unexpected equal values for {kw}: {sorted(extra)}")
        if kw in CLONES:
            clone.append(kw)
        for i, v in enumerate(vs, 1):
            if any(type(v) is type(d) and v == d for d in c["ctor_defaults"].get(kw, [])):
                if i != 1:
                    raise tlc.MachineryError(f"table: {kw} value {i} equals a constructor default; put it at index 1")
                cdef.append(kw)
    kdef = []
    if "blocksize" in c["KeyFields"]:
        if values_for("blocksize")[0] != c["default_blocksize"] or "blocksize" not in cdef:
            raise tlc.MachineryError("table: blocksize value 1 must be poolmanager._DEFAULT_BLOCKSIZE and the constructor default")
        kdef.append("blocksize")
    return {"CloneKw": clone, "DefectTwinKw": twin, "CtorDefaultKw": cdef, "KeyDefaultKw": kdef,
            "StructKw": struct, "ValueEqKw": valeq, "NVof": nvof}


def table_json(c, meta):
    """The table file TLC reads (IOEnv.C18_TABLE): value counts and a stable index per keyword."""
    return json.dumps({"nv": meta["NVof"], "idx": {kw: i for i, kw in enumerate(settings_of(c))}})


# ------------------------------------------------------------------------------ cfg generation

def _set(xs):
    return "{" + ", ".join(tlc.tla_str(x) for x in sorted(xs)) + "}"


VIAS = ["url", "host", "context", "proxy"]
TABLE_FILE = "c18_table.json"


def constants_cfg(c, meta, known_defects, mc=None, deviations=()):
    """CONSTANTS section.  mc = None for the trace monitor, else the MC_PoolKey parameters
    {part, breadth, rot, shard_kw, shard_via}."""
    lines = ["CONSTANTS"]
    for k in ("Keywords", "KeyFields", "IdentityKw", "ManagerOwn", "SslKeywords"):
        lines.append(f"  {k} = {_set(c[k])}")
    for k in ("KeyDefaultKw", "CloneKw", "DefectTwinKw", "CtorDefaultKw", "StructKw", "ValueEqKw"):
        lines.append(f"  {k} = {_set(meta[k])}")
    lines.append(f"  NV = {NV}")
    lines.append("  NVof <- TableNV")
    lines.append(f"  KnownDefects = {_set(known_defects)}")
    lines.append(f"  Deviations = {_set(deviations)}")
    lines.append("  Scenarios = {}")        # PoolKey!Init is not used: MC_PoolKey enumerates its own initial states
    if mc:
        lines.append(f"  Part = {tlc.tla_str(mc['part'])}")
        lines.append(f"  ShardKw = {_set(settings_of(c) if mc.get('shard_kw') is None else mc['shard_kw'])}")
        lines.append(f"  ShardVia = {_set(VIAS if mc.get('shard_via') is None else mc['shard_via'])}")
        lines.append(f"  Breadth = {tlc.tla_str(mc['breadth'])}")
        lines.append(f"  Stride = {STRIDE}")
        lines.append(f"  Rot = {mc.get('rot', 0) % STRIDE}")
    return "\n".join(lines) + "\n"


def mc_cfg(c, meta, known_defects, mc, check=True, emit=False, deviations=(), invariants=None):
    s = "SPECIFICATION MCSpec\n" + constants_cfg(c, meta, known_defects, mc=mc, deviations=deviations)
    if check:
        s += "".join(f"INVARIANT {i}\n" for i in (invariants or INVARIANTS))
        if invariants is None:
            s += "".join(f"PROPERTY {p}\n" for p in PROPERTIES)
    s += "CHECK_DEADLOCK FALSE\n"
    if emit:
        s += "ACTION_CONSTRAINT Emit\n"
    return s


def trace_cfg(c, meta, known_defects):
    return "SPECIFICATION TSpec\n" + constants_cfg(c, meta, known_defects) + "CHECK_DEADLOCK FALSE\n"


def run_mc(c, meta, cfg, **kw):
    return tlc.run("MC_PoolKey", cfg, files={TABLE_FILE: table_json(c, meta)}, env={"C18_TABLE": TABLE_FILE}, **kw)


def expected_scenarios(c, meta, breadth, rot):
    """How many scenarios MC_PoolKey must enumerate - counted here independently (same formulas, in Python), so that a
    scenario family that silently vanishes from the spec is a machinery failure."""
    stride = STRIDE
    n = 0

    def mix(i):
        return i // 4 + (i // 2) % 2 + i % 2 if i < 20 else (i - 20) // 2 + (i - 20) % 2
    for ki, kw in enumerate(settings_of(c)):
        nv = meta["NVof"][kw]
        if breadth == "thorough":
            pairs = [(a, b) for a in range(nv + 1) for b in range(nv + 1) if (a, b) != (0, 0)]
        else:
            pairs = [(a, b) for a in range(NV + 1) for b in range(NV + 1) if (a, b) != (0, 0)]
            if kw in meta["StructKw"]:
                pairs += [(BASE, v) for v in range(CLONE, nv + 1)] + [(v, BASE) for v in range(CLONE, nv + 1)]
        for a, b in pairs:
            n += sum(1 for i in range(26) if breadth == "thorough" or (mix(i) + a + b + ki + rot) % stride == 0)

    def eidx(s, h, p):
        return {"http": 0, "https": 1}.get(s, 2) + {"a.test": 0, "A.TEST": 1}.get(h, 2) + {NOPORT: 0, 0: 1, 80: 2}.get(p, 3)
    groups = [[(s_, h, p) for s_ in ("http", "https", "HTTP") for h in ("a.test", "A.TEST", "b.test") for p in ports]
              for ports in ((NOPORT, 0, 80, 443), (NOPORT, 0, 80, 443), (0, 80, 443))]
    groups.append([(s_, h, p) for s_ in ("http", "https") for h in ("a.test", "b.test") for p in (NOPORT, 0, 80, 443)])
    for g in groups:
        n += sum(1 for e1 in g for e2 in g if breadth == "thorough" or (eidx(*e1) + eidx(*e2) + rot) % stride == 0)
    return n


# ------------------------------------------------------------------------------ driving the real code

POOL_ATTR = {
    "timeout": lambda p: p.timeout, "maxsize": lambda p: p.pool.maxsize, "block": lambda p: p.block,
    "headers": lambda p: p.headers, "retries": lambda p: p.retries, "_proxy": lambda p: p.proxy,
    "_proxy_headers": lambda p: p.proxy_headers, "_proxy_config": lambda p: p.proxy_config,
}
_ABSENT = object()


class _Recorder:
    """Stands in for ConnectionCls: records the keyword arguments a pool creates its connections with."""

    def __init__(self, **kw):
        self.kw = kw


def check_observable(c):
    """Never silently blind: every key field that a pool constructor keeps for itself must have a read-back."""
    blind = [k for k in c["pool_level"] if k in c["KeyFields"] and k not in c["IdentityKw"]
             and k not in POOL_ATTR and k not in c["conn_level"]]
    if blind:
        raise tlc.MachineryError(f"pool-level keywords without a read-back in vh/c18.py POOL_ATTR: {blind}")


def index_of(kw, obj):
    from urllib3.util.timeout import Timeout
    if obj is _ABSENT or obj is None:
        return 0
    vs = values_for(kw)
    for i, v in enumerate(vs, 1):
        if obj is v:
            return i
    cls = _STRUCT_CLS.get(kw)
    for i, v in enumerate(vs, 1):
        if kw == "timeout" and isinstance(obj, Timeout) and isinstance(v, (int, float)) and not isinstance(v, bool):
            if obj.connect_timeout == v and getattr(obj, "_read", None) == v:
                return i
        elif cls is not None and isinstance(v, cls):
            continue                # Retry / Timeout / SSLContext objects are recognised by identity only: whatever == means
                                    # for them in the tree under test must not decide which table value a pool "has"
        elif type(obj) is type(v) and obj == v:
            return i
    if kw in ("headers", "_proxy_headers") and hasattr(obj, "items") and not obj:
        return 0                    # "headers or {}" in the pool constructor
    return OTHER


def observe_conf(pool, keysettings):
    pool.ConnectionCls = _Recorder
    try:
        seen = pool._new_conn().kw
    finally:
        del pool.ConnectionCls
    s = []
    for f in keysettings:
        obj = POOL_ATTR[f](pool) if f in POOL_ATTR else seen.get(f, _ABSENT)
        i = index_of(f, obj)
        if i != 0:
            s.append([f, i])
    return {"scheme": pool.scheme, "host": pool.host, "port": NOPORT if pool.port is None else pool.port, "s": s}


def _deep(v):
    if isinstance(v, dict):
        return ("d", tuple(sorted(((repr(k), _deep(x)) for k, x in v.items()))))
    if isinstance(v, (list, tuple)):
        return ("l", tuple(_deep(x) for x in v))
    return ("o", id(v))


def _snapshot(mgr):
    kw = mgr.connection_pool_kw
    return (kw, dict(kw), {k: _deep(v) for k, v in kw.items()}, mgr.headers, _deep(mgr.headers))


def _unchanged(mgr, snap):
    kw, shallow, deep, hdr, hdeep = snap
    now = mgr.connection_pool_kw
    return (now is kw and set(now) == set(shallow) and all(now[k] is shallow[k] for k in shallow)
            and {k: _deep(v) for k, v in now.items()} == deep and mgr.headers is hdr and _deep(mgr.headers) == hdeep)


def build_manager(sc):
    from urllib3.poolmanager import PoolManager, ProxyManager
    kw = {k: values_for(k)[v - 1] for k, v in sc["dflt"].items() if v != 0}
    if sc["mk"] == "plain":
        return PoolManager(**kw)
    return ProxyManager(PROXY_URL, proxy_headers=values_for("_proxy_headers")[0], **kw)


def call(mgr, r):
    ov = {k: (None if v == 0 else values_for(k)[v - 1]) for k, v in r["ov"].items()}
    port = None if r["port"] == NOPORT else r["port"]
    if r["via"] == "url":
        url = f"{r['scheme']}://{r['host']}" + ("" if port is None else f":{port}") + "/"
        return mgr.connection_from_url(url, pool_kwargs=ov or None)
    if r["via"] == "host":
        return mgr.connection_from_host(r["host"], port, r["scheme"], pool_kwargs=ov or None)
    ctx = {"scheme": r["scheme"], "host": r["host"], "port": port}
    ctx.update({k: v for k, v in ov.items() if v is not None})
    return mgr.connection_from_context(ctx)


def execute(sc, keysettings):
    """Run one scenario on real code; returns the observations (one per request)."""
    mgr = build_manager(sc)
    cur = {}

    def wrap(fn):
        def keyed(ctx):
            k = fn(ctx)
            cur["key"] = k
            return k
        return keyed

    for sch in list(mgr.key_fn_by_scheme):
        mgr.key_fn_by_scheme[sch] = wrap(mgr.key_fn_by_scheme[sch])
    obs, keys, ids = [], [], {}
    for r in sc["reqs"]:
        snap = _snapshot(mgr)
        cur.clear()
        try:
            pool = call(mgr, r)
            exc = "none"
        except Exception as ex:      # the class is the observation; TLC decides whether it was expected
            pool, exc = None, type(ex).__name__
        dok = _unchanged(mgr, snap)
        k = cur.get("key", _ABSENT)
        eq = []
        for kj in keys:
            try:
                eq.append(kj is not _ABSENT and k is not _ABSENT and bool(kj == k) and hash(kj) == hash(k))
            except TypeError:
                eq.append(False)
        keys.append(k)
        if pool is not None:
            pid = ids.setdefault(id(pool), len(ids) + 1)
            conf = observe_conf(pool, keysettings)
        else:
            pid, conf = 0, {"scheme": "", "host": "", "port": NOPORT, "s": []}
        obs.append({"exc": exc, "pool": pid, "dok": dok, "keyeq": eq, "conf": conf, "_pool": pool})
    for o in obs:       # keep the pools alive until all ids were taken, then drop the references
        o.pop("_pool")
    return obs


def to_trace(sc, obs):
    return {"mk": sc["mk"], "dflt": [[k, v] for k, v in sorted(sc["dflt"].items())],
            "reqs": [{"scheme": r["scheme"], "host": r["host"], "port": r["port"], "via": r["via"],
                      "ov": [[k, v] for k, v in sorted(r["ov"].items())]} for r in sc["reqs"]],
            "obs": obs}


def _sparse(x):
    return dict(x) if isinstance(x, dict) else {}


def decode_scenario(j):
    """One emitted behaviour -> (scenario, expectation)."""
    sc = {"tag": j["tag"], "mk": j["mk"], "dflt": _sparse(j["dflt"]),
          "reqs": [{"scheme": r["scheme"], "host": r["host"], "port": r["port"], "via": r["via"], "ov": _sparse(r["ov"])}
                   for r in j["reqs"]]}
    return sc, {"outs": j["outs"], "pairs": j["pairs"]}


def compare_expected(obs, exp):
    """Stage 3: the Model's expected observations against the real ones.  Returns a list of differences."""
    diffs = []
    for i, (o, e) in enumerate(zip(obs, exp["outs"]), 1):
        if o["exc"] != e["exc"]:
            diffs.append(f"request {i}: exception {o['exc']} (model {e['exc']})")
    for p in exp["pairs"]:
        a, b = obs[p["i"] - 1], obs[p["j"] - 1]
        same = a["pool"] != 0 and a["pool"] == b["pool"]
        if a["exc"] == "none" and b["exc"] == "none" and same != p["same"]:
            diffs.append(f"requests {p['i']},{p['j']}: same pool {same} (model {p['same']}, rules {p['verdict']})")
        if b["keyeq"][p["i"] - 1] != p["keyeq"]:
            diffs.append(f"requests {p['i']},{p['j']}: key equality {b['keyeq'][p['i'] - 1]} (model {p['keyeq']})")
    return diffs


# ------------------------------------------------------------------------------ workers

_G = {}
SELFTEST_PER_SHARD = 6


def _init_worker(c, meta, kd, mc=None):
    _G["c"], _G["meta"], _G["kd"], _G["mc"] = c, meta, kd, mc
    _G["ks"] = sorted(set(c["KeyFields"]) - set(c["IdentityKw"]))
    table()


def validate_traces(traces, c, meta, kd):
    r = tlc.run("PoolKey_Trace", trace_cfg(c, meta, kd), workers=1,
                files={"traces.json": json.dumps(traces), TABLE_FILE: table_json(c, meta)},
                env={"TRACE_FILE": "traces.json", "C18_TABLE": TABLE_FILE}, timeout=3600)
    verdicts = tlc.tagged_tuples(r.out, "VERDICT")
    if len(verdicts) != len(traces) or sorted(v[0] for v in verdicts) != list(range(1, len(traces) + 1)):
        raise tlc.MachineryError(f"trace validation produced {len(verdicts)} verdicts for {len(traces)} traces\n{r.out[-2000:]}")
    return r, sorted(verdicts)


def _replay_shard(jobs):
    """Stage 3 + 4 for a list of emitted behaviours: execute, compare with the expectation, let TLC judge."""
    c, meta, kd, ks = _G["c"], _G["meta"], _G["kd"], _G["ks"]
    rows, traces = [], []
    for j in jobs:
        sc, exp = decode_scenario(j)
        obs = execute(sc, ks)
        traces.append(to_trace(sc, obs))
        rows.append({"sc": sc, "diffs": compare_expected(obs, exp), "exp": exp, "obs": obs})
    # Monitor self-test, judged in the same TLC batch: a few of this shard's own traces (base vs field variant of a
    # structured keyword, served by two pools) are re-submitted with the second observation CORRUPTED to say "served by
    # the first request's pool".  TLC must reject every one of them with SharedAcrossSettings.
    corrupted, origin = [], []
    for k, (row, t) in enumerate(zip(rows, traces)):
        tag = row["sc"]["tag"]
        if (len(corrupted) < SELFTEST_PER_SHARD and tag[0] == "kw" and tag[6] in meta["StructKw"] and BASE in tag[7:9]
                and max(tag[7:9]) > CLONE and row["exp"]["pairs"][0]["verdict"] == "MustDiffer"
                and all(o["exc"] == "none" for o in row["obs"]) and row["obs"][0]["pool"] != row["obs"][1]["pool"]):
            o1, o2 = row["obs"]
            corrupted.append(dict(t, obs=[o1, dict(o2, pool=o1["pool"], conf=o1["conf"])]))
            origin.append(k)
    r, verdicts = validate_traces(traces + corrupted, c, meta, kd)
    for row, (tid, l, clause) in zip(rows, verdicts):
        row["verdict"], row["at"] = clause, l
    judged = [(v, k) for v, k in zip(verdicts[len(rows):], origin) if rows[k]["verdict"] == "ok"]   # original accepted
    missed = [v for v, k in judged if v[2] != "SharedAcrossSettings"]
    return {"rows": rows, "events": sum(len(t["reqs"]) for t in traces), "distinct": r.distinct,
            "selftest": len(judged), "selftest_missed": missed}


def _canary_job(kws):
    """Stage 1, sensitivity: the Model with the seeded fault LossyValueCanonicalisation (the key is computed from a
    projection of a structured value that forgets its last field) over the scenarios of the keywords kws.
    TLC must refute NoSharingAcrossSettings."""
    c, meta, kd = _G["c"], _G["meta"], _G["kd"]
    mc = dict(_G["mc"], part="kw", shard_kw=list(kws), breadth="quick")
    r = run_mc(c, meta, mc_cfg(c, meta, kd, mc, deviations=["LossyValueCanonicalisation"], invariants=["NoSharingAcrossSettings"]),
               workers=1, timeout=1800, expect_fail=True)
    m = re.search(r'tag \|-> <<("kw"[^>]*)>>', r.out)
    return {"kws": list(kws), "violated": r.violated, "error": r.error, "distinct": r.distinct, "generated": r.generated,
            "wall": round(r.wall, 2), "witness": json.loads("[" + m.group(1) + "]") if m else None, "tail": r.out[-1500:]}


def random_scenario(rng, settings, c):
    """A multi-keyword scenario: random defaults, 2-4 requests with random overrides, endpoints and routes."""
    mk = "proxy" if rng.random() < 0.2 else "plain"
    keyed = [k for k in settings if k in c["KeyFields"]]
    pick = lambda: rng.choice(keyed) if rng.random() < 0.93 else rng.choice(settings)   # mostly servable requests
    nvof = _G["meta"]["NVof"]
    dflt = {}
    for _ in range(rng.randint(0, 4)):
        k = pick()
        dflt[k] = rng.randint(1, nvof[k])
    few = rng.sample(keyed, 3)
    reqs = []
    for _ in range(rng.randint(2, 4)):
        via = "url" if mk == "proxy" else rng.choice(["url", "url", "host", "context"])
        ov = {}
        for _ in range(rng.randint(0, 3)):
            k = rng.choice(few) if rng.random() < 0.7 else pick()
            ov[k] = rng.randint(0, nvof[k]) if rng.random() < 0.6 else rng.randint(0, min(nvof[k], CLONE))
        if via == "context":
            ov = {k: v for k, v in ov.items() if v != 0}
        scheme = rng.choice(["http", "https", "https"] + (["HTTP"] if mk == "plain" and rng.random() < 0.1 else []))
        port = rng.choice([NOPORT, NOPORT, 80, 443] + ([0] if rng.random() < 0.15 else []))
        if via == "context" and port == NOPORT:
            port = 443 if scheme == "https" else 80
        reqs.append({"scheme": scheme, "host": rng.choice(["a.test", "a.test", "A.TEST", "b.test"]), "port": port,
                     "via": via, "ov": ov})
    return {"tag": ["rand"], "mk": mk, "dflt": dflt, "reqs": reqs}


def _random_shard(args):
    seed, count = args
    c, meta, kd, ks = _G["c"], _G["meta"], _G["kd"], _G["ks"]
    rng = random.Random(seed)
    settings = settings_of(c)
    rows, traces = [], []
    for _ in range(count):
        sc = random_scenario(rng, settings, c)
        obs = execute(sc, ks)
        traces.append(to_trace(sc, obs))
        rows.append({"sc": sc, "obs": obs, "diffs": [], "exp": None})
    r, verdicts = validate_traces(traces, c, meta, kd)
    for row, (tid, l, clause) in zip(rows, verdicts):
        row["verdict"], row["at"] = clause, l
    # only what the parent needs crosses the process boundary: rows TLC did not simply accept, a few samples, counts
    return {"rows": [row for row in rows if row["verdict"] != "ok"], "n": len(rows), "samples": rows[:2],
            "accepted": sum(row["verdict"] == "ok" for row in rows),
            "events": sum(len(t["reqs"]) for t in traces), "distinct": r.distinct}


# ------------------------------------------------------------------------------ verdict handling

def _facts(row):
    sc = row["sc"]
    tag = sc["tag"]
    return {"kind": tag[0], "keyword": tag[6] if tag[0] == "kw" else None}


def judge(rep, row, findings):
    """Turn TLC's verdict on one executed scenario into violation / known finding / drift."""
    v = row["verdict"]
    case = {"scenario": row["sc"], "verdict": v, "at_request": row["at"], "observed": row["obs"]}
    if v == "ok":
        if row["diffs"]:
            raise tlc.MachineryError(f"stage 3 saw {row['diffs']} but TLC accepted the trace: {json.dumps(row['sc'])}")
        return "ok"
    if v.startswith("known:"):
        for sig in v[6:].split("+"):
            if sig == "PortZero":
                # Latitude (DESIGN.md §4 C18/C15): an explicit port 0 is not a connectable TCP port; urllib3 reads it as
                # "no port given" (`if not port`) and the pool it then uses is the one it really dials (80/443).  The
                # statement does not say what port 0 must mean, so this class is Either: counted, never an alarm.
                rep.extra["latitude_port_zero_read_as_unset"] = rep.extra.get("latitude_port_zero_read_as_unset", 0) + 1
                continue
            f = known.match(findings, {"sig": sig})
            if f is None:
                rep.violation("SharedAcrossSettings", f"deviation {sig} is not a recorded finding", case)
                return "violation"
            rep.known.append((f["id"], f["what"]))
        return "known"
    if v.startswith("drift:"):
        rep.drift.append(f"{v[6:]} at request {row['at']} of {json.dumps(row['sc'], default=repr)[:300]}")
        return "drift"
    what = {"SharedAcrossSettings": "two requests whose connection settings differ were served by the same pool",
            "NotSharedThoughEqual": "requests equal up to case / default port / equal-content values got different pools",
            "PoolMisconfigured": "the pool serving the request is not configured as the request asked",
            "DefaultsAltered": "a per-request override changed the manager's connection_pool_kw",
            "UnexpectedException": "a request with only keyed keywords raised"}.get(v, v)
    tag = row["sc"]["tag"]
    if tag[0] == "kw":          # say which values these are (structured keywords: which constructor parameter differs)
        what += f" [{tag[6]}: {label_of(tag[6], tag[7])} vs {label_of(tag[6], tag[8])}]"
    rep.violation(v, f"{what}; request {row['at']} of scenario {row['sc']['tag']}; observed {row['obs'][row['at'] - 1]}", case)
    return "violation"


# ------------------------------------------------------------------------------ the check

def _nontrivial_key(row):
    """A case is non-trivial when both requests were served and the two contexts differ in the varied keyword or
    endpoint spelling (i.e. the pair exercises the key) — one key per (kind, keyword/endpoint pair, values, route)."""
    return json.dumps(row["sc"]["tag"])


def run(rep):
    quick = rep.tier == "quick"
    c = extract()
    meta = table_meta(c)
    check_observable(c)
    settings = settings_of(c)
    findings = known.load("C18")
    # PortZero is not a finding but a modelled latitude (see judge()): the Model always reads port 0 as "no port"
    kd = sorted({f["match"]["sig"] for f in findings if f.get("match", {}).get("sig") in SIGS} | {"PortZero"})
    J = max(1, int(os.environ.get("VERIF_JOBS") or os.cpu_count() or 4))
    breadth = "quick" if quick else "thorough"
    mcp = {"part": "all", "breadth": breadth, "rot": rep.seed % STRIDE}
    rep.rule = ("stage 2/3: every scenario TLC emits (keyword x ordered value pair x supply form x scheme x base x manager "
                "kind; for structured keywords the values include a base object, its separately built clone and one variant "
                "per constructor parameter / field; endpoint pairs over case / port variants; quick = the slice (1 of " + str(STRIDE) + ") of this "
                "product selected by VERIF_SEED, thorough = all of it) is executed on a real manager; a scenario is "
                "non-trivial when its two requests differ in a keyword value or endpoint spelling (distinct tags); stage 4: "
                "the same traces plus seeded random multi-keyword traces are judged by TLC")
    rep.assumptions = ["value table: three distinct realistic plain values per keyword (vh/c18.py) + for structured keywords "
                       "variants derived from the value type at run time (vh/c18values.py); equality facts computed from the objects",
                       "no connection is opened: pools are created and read back, connection kwargs captured via ConnectionCls",
                       "TLC 1.8 and CPython are trusted"]
    rep.extra["constants_from_code"] = {k: c[k] for k in ("Keywords", "KeyFields", "IdentityKw", "ManagerOwn", "SslKeywords")}
    rep.extra["constants_from_table"] = meta
    rep.extra["structured_values"] = {kw: {"fields": _LABELS[kw][2:], "not_variable": _STRUCT_SKIPPED[kw],
                                           "value_equality": kw in meta["ValueEqKw"]} for kw in meta["StructKw"]}
    rep.extra["classification"] = {
        "identity": c["IdentityKw"],
        "keyed": sorted(set(c["Keywords"]) & set(c["KeyFields"]) - set(c["IdentityKw"])),
        "rejected_by_key": sorted(set(c["Keywords"]) - set(c["KeyFields"])),
        "key_only": sorted(set(c["KeyFields"]) - set(c["Keywords"])),
        "accepted_by": c["accepted_by"]}
    rep.extra["known_defects_enabled_in_model"] = kd
    rep.extra["breadth"] = {"tier": breadth, "stride": STRIDE if quick else 1, "slice": mcp["rot"] if quick else None, "jobs": J}
    missing_struct = sorted(set(c18values.bases()) & set(c["KeyFields"]) - set(meta["StructKw"]))
    if missing_struct or not {"retries", "timeout"} <= set(meta["StructKw"]):
        raise tlc.MachineryError(f"structured keywords without derived variants: {missing_struct or 'retries/timeout'}")
    want = expected_scenarios(c, meta, breadth, mcp["rot"])

    # ---- one process pool (J) for everything on the Python side; the seeded random leg and the sensitivity runs start
    #      at once, stage 1 (strict design) runs beside stage 1' + 2 (Model with recorded deviations, emission)
    nrand, per = (2000, 500) if quick else (150000, 3000)
    canary_groups = [list(meta["StructKw"])] if quick else [[kw] for kw in meta["StructKw"]]
    res, scenarios = {}, []
    wtlc = max(1, J // 2)

    def on_line(ln):
        if not ln.startswith('<<"SC"'):
            return False
        if not ln.endswith('">>'):
            raise tlc.MachineryError("truncated emission line: " + ln[:200])
        scenarios.extend(tlc.tagged_json(ln, "SC"))
        return True

    def tlc_thread(name, fn):
        def body():
            try:
                res[name] = fn()
            except BaseException as ex:   # re-raised in the main thread
                res[name] = ex
        th = threading.Thread(target=body)
        th.start()
        return th

    with mp.Pool(J, initializer=_init_worker, initargs=(c, meta, kd, mcp)) as pool:
        def side_jobs():
            return (pool.map_async(_random_shard, [(rep.seed * 100003 + i, per) for i in range(nrand // per)], chunksize=1),
                    pool.map_async(_canary_job, canary_groups, chunksize=1))
        a2, a3 = side_jobs()
        ths = [tlc_thread("strict", lambda: run_mc(c, meta, mc_cfg(c, meta, [], mcp), workers=wtlc, heap="4g", timeout=3600)),
               tlc_thread("model", lambda: run_mc(c, meta, mc_cfg(c, meta, kd, mcp, emit=True), workers=wtlc, heap="4g",
                                                  on_line=on_line, timeout=3600))]
        for th in ths:
            th.join()
        for v in res.values():
            if isinstance(v, BaseException):
                raise v
        r0, r1 = res["strict"], res["model"]
        rep.add_tlc(f"MC_PoolKey strict design (KnownDefects={{}}), Breadth={breadth}", r0)
        if r0.violated:
            rep.violation("DesignInvariant", f"TLC: {r0.violated} violated by the strict design model on the constants of this tree")
        rep.add_tlc(f"MC_PoolKey Model with KnownDefects={kd} (+emission), Breadth={breadth}", r1)
        rep.stage1[-1]["emitted"] = len(scenarios)
        if r1.violated:
            rep.violation("ModelInvariant", f"TLC: {r1.violated} violated by the Model (recorded deviations {kd})")
        if r0.generated != r0.distinct or r1.generated != r1.distinct:
            raise tlc.MachineryError(f"stage 1 generated {r0.generated}/{r1.generated} states for {r0.distinct}/{r1.distinct} distinct "
                                     "ones: every scenario is a chain, so a scenario was enumerated twice")
        if r0.distinct != r1.distinct:
            raise tlc.MachineryError(f"strict run explored {r0.distinct} states, the Model run {r1.distinct}")
        if len(scenarios) != want or r1.distinct != 7 * want:
            raise tlc.MachineryError(f"TLC emitted {len(scenarios)} scenarios ({r1.distinct} states); the scenario space of this run "
                                     f"has {want} (x 7 states)")
        tags = {json.dumps(s["tag"]) for s in scenarios}
        if len(tags) != len(scenarios):
            raise tlc.MachineryError(f"emission: {len(scenarios)} behaviours but {len(tags)} distinct scenarios")
        rep.extra["scenarios_emitted"] = len(scenarios)

        # ---- stage 3 + 4
        scenarios.sort(key=lambda s: json.dumps(s["tag"]))      # emission order depends on TLC's worker threads
        rng = random.Random(rep.seed)
        rng.shuffle(scenarios)
        nshard = max(J, -(-len(scenarios) // 4000))
        shards = [scenarios[i::nshard] for i in range(nshard)]
        a1 = pool.map_async(_replay_shard, [s for s in shards if s], chunksize=1)
        outs, routs, canaries = a1.get(), a2.get(), a3.get()

    # ---- sensitivity of stage 1: the seeded fault must be refuted
    for cn in canaries:
        rep.states += cn["distinct"]
        rep.transitions += cn["generated"]
        if cn["violated"] != ["NoSharingAcrossSettings"]:
            raise tlc.MachineryError(f"the Model with LossyValueCanonicalisation on {cn['kws']} was not refuted by "
                                     f"NoSharingAcrossSettings (TLC: {cn['violated']} {cn['error']})\n{cn['tail']}")
    rep.extra["deviations_refuted"] = [{"deviation": "LossyValueCanonicalisation", "keywords": cn["kws"],
                                        "refuted_by": cn["violated"][0], "witness_scenario": cn["witness"], "wall_s": cn["wall"]}
                                       for cn in canaries]

    tally = {"ok": 0, "known": 0, "drift": 0, "violation": 0}
    by_verdict, stage3_diff, replayed = {}, 0, 0
    verdict_classes = {"MustDiffer": 0, "MustShare": 0, "Either": 0, "n/a": 0}
    differing, variants_seen, clones_seen = set(), set(), set()
    selftest = missed = 0
    for o in outs:
        rep.traces += len(o["rows"])
        rep.evaluations += o["events"]
        selftest += o["selftest"]
        missed += len(o["selftest_missed"])
        for row in o["rows"]:
            replayed += 1
            stage3_diff += bool(row["diffs"])
            tag = row["sc"]["tag"]
            for p in row["exp"]["pairs"]:
                verdict_classes[p["verdict"]] += 1
                if tag[0] == "kw" and tag[7] != tag[8]:
                    differing.add(tag[6])
                    if BASE in tag[7:9] and p["verdict"] == "MustDiffer" and max(tag[7:9]) > CLONE:
                        variants_seen.add((tag[6], max(tag[7:9])))
                    if sorted(tag[7:9]) == [BASE, CLONE] and p["verdict"] in ("MustShare", "Either"):
                        clones_seen.add((tag[6], p["verdict"]))
            tally[judge(rep, row, findings)] += 1
            by_verdict[row["verdict"]] = by_verdict.get(row["verdict"], 0) + 1
            if any(p["verdict"] in ("MustDiffer", "MustShare") for p in row["exp"]["pairs"]):
                rep.nontrivial.add(_nontrivial_key(row))
    if replayed != len(scenarios):
        raise tlc.MachineryError(f"{len(scenarios)} scenarios emitted but {replayed} replayed")
    vacuity = []        # raised as a machinery failure at the end unless a violation was found (never silently green)
    if differing != set(settings):
        vacuity.append(f"keywords never exercised with two differing values: {sorted(set(settings) - differing)}")
    want_variants = {(kw, v) for kw in meta["StructKw"] for v in range(CLONE + 1, meta["NVof"][kw] + 1)}
    if variants_seen != want_variants:
        vacuity.append("structured field variants never run against their base with verdict MustDiffer: "
                       f"{sorted((kw, label_of(kw, v)) for kw, v in want_variants - variants_seen)}")
    want_clones = {(kw, "MustShare" if kw in meta["ValueEqKw"] else "Either") for kw in meta["StructKw"]}
    if not want_clones <= clones_seen or len(clones_seen) != len(want_clones):
        vacuity.append(f"structured clones: expected {sorted(want_clones)}, exercised {sorted(clones_seen)}")
    if min(verdict_classes["MustDiffer"], verdict_classes["MustShare"], verdict_classes["Either"]) == 0:
        vacuity.append(f"a verdict class was never exercised: {verdict_classes}")
    if selftest == 0 or missed:
        vacuity.append(f"monitor self-test: {selftest} corrupted traces (a field variant served by its base's pool) "
                       f"submitted, {missed} not rejected with SharedAcrossSettings: "
                       f"{[o['selftest_missed'][:3] for o in outs if o['selftest_missed']][:3]}")
    for sig in kd:
        if not any(v.startswith("known:") and sig in v for v in by_verdict):
            rep.drift.append(f"recorded deviation {sig} is enabled in the Model but no real trace exhibited it")
    rtally = {"ok": 0, "known": 0, "drift": 0, "violation": 0}
    for o in routs:
        rep.traces += o["n"]
        rep.evaluations += o["events"]
        rtally["ok"] += o["accepted"]
        by_verdict["ok"] = by_verdict.get("ok", 0) + o["accepted"]
        for row in o["rows"]:
            rtally[judge(rep, row, findings)] += 1
            by_verdict[row["verdict"]] = by_verdict.get(row["verdict"], 0) + 1
    rep.extra.update({"scenarios_replayed": replayed, "stage3_expectation_mismatches": stage3_diff,
                      "emitted_tally": tally, "random_traces": sum(o["n"] for o in routs), "random_tally": rtally,
                      "tlc_verdicts": by_verdict, "rules_verdict_classes_over_emitted_pairs": verdict_classes,
                      "keywords_with_differing_pair": len(differing),
                      "structured_field_variants_vs_base": len(variants_seen),
                      "monitor_selftest_corrupted_traces_rejected": selftest})
    for o in outs[:1]:
        for row in o["rows"][:3]:
            rep.sample({"scenario": row["sc"], "expected": row["exp"], "observed": row["obs"], "tlc_verdict": row["verdict"]}, cap=3)
    for o in routs[:1]:
        for row in o["samples"]:
            rep.sample({"scenario": row["sc"], "observed": row["obs"], "tlc_verdict": row["verdict"]}, cap=5)
    rep.exhaustive = True
    if vacuity and not rep.violations:
        raise tlc.MachineryError("; ".join(vacuity))


def replay(rep, path):
    with open(path) as fh:
        doc = json.load(fh)
    case = doc["case"]
    c = extract()
    meta = table_meta(c)
    findings = known.load("C18")
    # PortZero is not a finding but a modelled latitude (see judge()): the Model always reads port 0 as "no port"
    kd = sorted({f["match"]["sig"] for f in findings if f.get("match", {}).get("sig") in SIGS} | {"PortZero"})
    _init_worker(c, meta, kd)
    sc = case["scenario"]
    obs = execute(sc, _G["ks"])
    r, verdicts = validate_traces([to_trace(sc, obs)], c, meta, kd)
    tid, l, clause = verdicts[0]
    row = {"sc": sc, "obs": obs, "diffs": [], "exp": None, "verdict": clause, "at": l}
    judge(rep, row, findings)
    rep.traces += 1
    rep.evaluations += len(sc["reqs"])
    rep.states = rep.states or r.distinct
    rep.transitions = rep.transitions or r.generated
    rep.rule = "replay of one recorded scenario"
    rep.nontrivial.add(json.dumps(sc["tag"]))
