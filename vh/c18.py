"""C18 — connections are never shared across differing connection settings.

constants  Keywords (inspect.signature of the pool / connection constructors), KeyFields (PoolKey._fields),
           IdentityKw, ManagerOwn, SslKeywords are extracted from the tree under test AT RUN TIME and written
           into the generated cfg; the per-keyword value table below contributes CloneKw / DefectTwinKw /
           CtorDefaultKw, computed from the actual Python values (==, hash, constructor defaults).
stage 1    TLC checks spec/PoolKey.tla on every scenario of spec/MC_PoolKey.tla: strict design (KnownDefects = {})
           and the Model with the recorded deviations enabled (invariants hold up to the recorded signatures)
stage 2    TLC emits every finished behaviour: scenario + the Model's expected observations + the Rules' verdict
stage 3    each scenario is replayed on a real PoolManager / ProxyManager (values supplied via constructor
           defaults, pool_kwargs or an explicit request context) and compared with the emitted expectation
stage 4    the recorded traces (exception class, pool identity, key equality, defaults untouched, how the returned
           pool is configured) plus seeded random multi-keyword traces are validated by TLC
           (spec/PoolKey_Trace.tla); the verdict on the real code is TLC's
"""
from __future__ import annotations

import inspect
import json
import multiprocessing as mp
import random
import re
import socket
import ssl
import threading

from . import known, tlc

NV = 3
NOPORT = -1
NOOV = -1
OTHER = -1
UNKNOWN = "zz_unknown"
SIGS = ("PortZero", "PyEqTwins")
HARD = ("DefaultsAltered", "UnexpectedException", "SharedAcrossSettings", "NotSharedThoughEqual", "PoolMisconfigured")
INVARIANTS = ["TypeOK", "KeywordKeyedOrRejected", "NoSharingAcrossSettings", "OneApartDistinctKeys",
              "NormalisationMergesOnlyVariants", "SharedWhenEqual", "PoolConfiguredAsRequested", "DefaultsUntouched"]
PROPERTIES = ["DefaultsNeverWritten"]
PROXY_URL = "http://proxy.test:3128"


# ------------------------------------------------------------------------------ constants from the code

def extract():
    """Everything the specification takes from the tree under test."""
    from urllib3 import connection as cn
    from urllib3 import connectionpool as cp
    from urllib3 import poolmanager as pm
    classes = [cp.HTTPConnectionPool, cp.HTTPSConnectionPool, cn.HTTPConnection, cn.HTTPSConnection]
    try:
        from urllib3.contrib import socks
        classes += [socks.SOCKSConnection, socks.SOCKSHTTPSConnection]
    except Exception:   # PySocks missing: the SOCKS constructors are simply not part of this run
        pass
    P = inspect.Parameter
    accepted, defaults, pool_level, conn_level = {}, {}, set(), set()
    for c in classes:
        for name, p in inspect.signature(c.__init__).parameters.items():
            if name == "self" or p.kind in (P.VAR_POSITIONAL, P.VAR_KEYWORD):
                continue
            accepted.setdefault(name, []).append(c.__name__)
            (pool_level if c.__name__.endswith("Pool") else conn_level).add(name)
            if p.default is not P.empty:
                defaults.setdefault(name, []).append(p.default)
    fields = list(pm.PoolKey._fields)
    if not all(f.startswith("key_") for f in fields):
        raise tlc.MachineryError(f"PoolKey fields without key_ prefix: {fields}")
    keyfields = [f[4:] for f in fields]
    identity = [n for n in inspect.signature(pm.PoolManager._new_pool).parameters if n not in ("self", "request_context")]
    if sorted(identity) != ["host", "port", "scheme"]:
        raise tlc.MachineryError(f"_new_pool identity is {identity}; PoolKey.tla models (scheme, host, port)")
    own = set()
    for c in (pm.PoolManager, pm.ProxyManager):
        for name, p in inspect.signature(c.__init__).parameters.items():
            if name != "self" and p.kind not in (P.VAR_POSITIONAL, P.VAR_KEYWORD):
                own.add(name)
    return {"Keywords": sorted(accepted), "accepted_by": accepted, "KeyFields": keyfields, "IdentityKw": sorted(identity),
            "ManagerOwn": sorted(own), "SslKeywords": sorted(pm.SSL_KEYWORDS), "ctor_defaults": defaults,
            "pool_level": sorted(pool_level), "conn_level": sorted(conn_level),
            "default_blocksize": pm._DEFAULT_BLOCKSIZE}


def settings_of(c):
    return sorted((set(c["Keywords"]) | set(c["KeyFields"])) - set(c["IdentityKw"])) + [UNKNOWN]


# ------------------------------------------------------------------------------ the value table
# Three non-None values per keyword.  Conventions the specification relies on (all verified at run time
# against the actual objects, see table_meta): values are pairwise distinct settings, except that for the
# keywords in CLONES value 3 is an equal-content / equal-meaning twin of value 1 (a second dict / list with
# the same content, 0 for False); a value equal to a constructor's own default sits at index 1.

CLONES = {"headers", "_proxy_headers", "_socks_options", "socket_options", "block"}
_TABLE = None


def table():
    global _TABLE
    if _TABLE is not None:
        return _TABLE
    from urllib3.connection import ProxyConfig
    from urllib3.util.retry import Retry
    from urllib3.util.timeout import Timeout
    from urllib3.util.url import parse_url
    TV = ssl.TLSVersion
    ctxs = [ssl.create_default_context(), ssl.create_default_context(), ssl.SSLContext(ssl.PROTOCOL_TLS_CLIENT)]
    pctx = ssl.create_default_context()
    socks5 = {"socks_version": 2, "proxy_host": "socks1.test", "proxy_port": 1080, "username": None, "password": None, "rdns": False}
    t = {
        "timeout": (1.5, 2.5, Timeout(connect=1.0, read=3.0)),
        "retries": (False, 0, Retry(total=3)),
        "block": (False, True, 0),
        "maxsize": (2, 5, 10),
        "source_address": (("127.0.0.1", 0), ("127.0.0.2", 0), ("127.0.0.1", 50000)),
        "key_file": ("/pki/client1.key", "/pki/client2.key", "/pki/client3.key"),
        "key_password": ("secret-one", "secret-two", "secret-three"),
        "cert_file": ("/pki/client1.pem", "/pki/client2.pem", "/pki/client3.pem"),
        "cert_reqs": ("CERT_REQUIRED", "CERT_NONE", "CERT_OPTIONAL"),
        "ca_certs": ("/pki/ca1.pem", "/pki/ca2.pem", "/pki/ca3.pem"),
        "ca_cert_data": ("-----BEGIN CERTIFICATE-----\nAAA", b"\x30\x82\x01", "-----BEGIN CERTIFICATE-----\nCCC"),
        "ssl_version": ("PROTOCOL_TLS_CLIENT", ssl.PROTOCOL_TLS_CLIENT, "PROTOCOL_TLSv1_2"),
        "ssl_minimum_version": (TV.TLSv1_2, TV.TLSv1_3, TV.TLSv1_1),
        "ssl_maximum_version": (TV.TLSv1_3, TV.TLSv1_2, TV.MAXIMUM_SUPPORTED),
        "ca_cert_dir": ("/pki/cas1", "/pki/cas2", "/pki/cas3"),
        "ssl_context": tuple(ctxs),
        "headers": ({"X-Tenant": "one", "Accept": "*/*"}, {"X-Tenant": "two"}, {"Accept": "*/*", "X-Tenant": "one"}),
        "_proxy": (parse_url(PROXY_URL), parse_url("https://proxy2.test:8443"), parse_url("http://proxy3.test:3128")),
        "_proxy_headers": ({"Proxy-Authorization": "Basic b25l"}, {"Proxy-Authorization": "Basic dHdv"},
                           {"Proxy-Authorization": "Basic b25l"}),
        "_proxy_config": (ProxyConfig(None, False, None, None), ProxyConfig(pctx, False, None, None),
                          ProxyConfig(None, True, None, None)),
        "socket_options": ([(socket.IPPROTO_TCP, socket.TCP_NODELAY, 0)], [(socket.SOL_SOCKET, socket.SO_KEEPALIVE, 1)],
                           [(socket.IPPROTO_TCP, socket.TCP_NODELAY, 0)]),
        "_socks_options": (socks5, dict(socks5, proxy_host="socks2.test"), dict(reversed(list(socks5.items())))),
        "assert_hostname": ("other.test", False, "third.test"),
        "assert_fingerprint": ("AA:" * 31 + "AA", "BB:" * 31 + "BB", "CC:" * 19 + "CC"),
        "server_hostname": ("sni1.test", "sni2.test", "sni3.test"),
        "blocksize": (16384, 8192, 65536),
        "proxy": (parse_url("http://cproxy1.test:3128"), parse_url("http://cproxy2.test:3128"), parse_url("http://cproxy3.test:3128")),
        "proxy_config": (ProxyConfig(None, False, None, None), ProxyConfig(pctx, True, None, None),
                         ProxyConfig(None, True, "p.test", None)),
        UNKNOWN: (1, 2, 3),
    }
    _TABLE = t
    return t


def values_for(kw):
    """Table row for kw; a keyword the table does not know (added to a constructor later) gets generic values."""
    t = table()
    if kw not in t:
        t[kw] = (f"value-one-of-{kw}", f"value-two-of-{kw}", f"value-three-of-{kw}")
    return t[kw]


def _freeze(v):
    if isinstance(v, dict):
        return frozenset(v.items())
    if isinstance(v, list):
        return tuple(v)
    return v


def _pyeq(a, b):
    fa, fb = _freeze(a), _freeze(b)
    return bool(fa == fb) and hash(fa) == hash(fb)


def table_meta(c):
    """CloneKw / DefectTwinKw / CtorDefaultKw / KeyDefaultKw, computed from the actual objects."""
    clone, twin, cdef = [], [], []
    for kw in settings_of(c):
        vs = values_for(kw)
        if len(vs) != NV or any(v is None for v in vs):
            raise tlc.MachineryError(f"value table for {kw} must hold {NV} non-None values")
        eq = {(i, j) for i in range(1, NV + 1) for j in range(i + 1, NV + 1) if _pyeq(vs[i - 1], vs[j - 1])}
        want = {(1, 3)} if kw in CLONES else set()
        if kw in CLONES and (1, 3) not in eq:
            raise tlc.MachineryError(f"table: {kw} value 3 should equal value 1")
        if kw in CLONES and kw != "block" and vs[0] is vs[2]:
            raise tlc.MachineryError(f"table: {kw} value 3 must be a distinct object")
        extra = eq - want
        if extra == {(1, 2)} and kw not in CLONES:
            twin.append(kw)     # two different settings that compare equal in Python
        elif extra:
            raise tlc.MachineryError(f"table: unexpected equal values for {kw}: {sorted(extra)}")
        if kw in CLONES:
            clone.append(kw)
        for i, v in enumerate(vs, 1):
            if any(type(v) is type(d) and v == d for d in c["ctor_defaults"].get(kw, [])):
                if i != 1:
                    raise tlc.MachineryError(f"table: {kw} value {i} equals a constructor default; put it at index 1")
                cdef.append(kw)
    kdef = []
    if "blocksize" in c["KeyFields"]:
        if values_for("blocksize")[0] != c["default_blocksize"] or "blocksize" not in cdef:
            raise tlc.MachineryError("table: blocksize value 1 must be poolmanager._DEFAULT_BLOCKSIZE and the constructor default")
        kdef.append("blocksize")
    return {"CloneKw": clone, "DefectTwinKw": twin, "CtorDefaultKw": cdef, "KeyDefaultKw": kdef}


# ------------------------------------------------------------------------------ cfg generation

def _set(xs):
    return "{" + ", ".join(tlc.tla_str(x) for x in sorted(xs)) + "}"


VIAS = ["url", "host", "context", "proxy"]


def constants_cfg(c, meta, known_defects, scenarios="MCScenarios", part=None, shard_kw=None, shard_via=None):
    lines = ["CONSTANTS"]
    for k in ("Keywords", "KeyFields", "IdentityKw", "ManagerOwn", "SslKeywords"):
        lines.append(f"  {k} = {_set(c[k])}")
    for k in ("KeyDefaultKw", "CloneKw", "DefectTwinKw", "CtorDefaultKw"):
        lines.append(f"  {k} = {_set(meta[k])}")
    lines.append(f"  NV = {NV}")
    lines.append(f"  KnownDefects = {_set(known_defects)}")
    lines.append(f"  Scenarios <- {scenarios}" if scenarios else "  Scenarios = {}")
    if part:
        lines.append(f"  Part = {tlc.tla_str(part)}")
        lines.append(f"  ShardKw = {_set(settings_of(c) if shard_kw is None else shard_kw)}")
        lines.append(f"  ShardVia = {_set(VIAS if shard_via is None else shard_via)}")
    return "\n".join(lines) + "\n"


def mc_cfg(c, meta, known_defects, part, check=True, emit=False, shard_kw=None, shard_via=None):
    s = "SPECIFICATION Spec\n" + constants_cfg(c, meta, known_defects, part=part, shard_kw=shard_kw, shard_via=shard_via)
    if check:
        s += "".join(f"INVARIANT {i}\n" for i in INVARIANTS) + "".join(f"PROPERTY {p}\n" for p in PROPERTIES)
    s += "CHECK_DEADLOCK FALSE\n"
    if emit:
        s += "ACTION_CONSTRAINT Emit\n"
    return s


def trace_cfg(c, meta, known_defects):
    return "SPECIFICATION TSpec\n" + constants_cfg(c, meta, known_defects, scenarios=None) + "CHECK_DEADLOCK FALSE\n"


# ------------------------------------------------------------------------------ driving the real code

POOL_ATTR = {
    "timeout": lambda p: p.timeout, "maxsize": lambda p: p.pool.maxsize, "block": lambda p: p.block,
    "headers": lambda p: p.headers, "retries": lambda p: p.retries, "_proxy": lambda p: p.proxy,
    "_proxy_headers": lambda p: p.proxy_headers, "_proxy_config": lambda p: p.proxy_config,
}
_ABSENT = object()


class _Recorder:
    """Stands in for ConnectionCls: records the keyword arguments a pool creates its connections with."""

    def __init__(self, **kw):
        self.kw = kw


def check_observable(c):
    """Never silently blind: every key field that a pool constructor keeps for itself must have a read-back."""
    blind = [k for k in c["pool_level"] if k in c["KeyFields"] and k not in c["IdentityKw"]
             and k not in POOL_ATTR and k not in c["conn_level"]]
    if blind:
        raise tlc.MachineryError(f"pool-level keywords without a read-back in vh/c18.py POOL_ATTR: {blind}")


def index_of(kw, obj):
    from urllib3.util.timeout import Timeout
    if obj is _ABSENT or obj is None:
        return 0
    vs = values_for(kw)
    for i, v in enumerate(vs, 1):
        if obj is v:
            return i
    for i, v in enumerate(vs, 1):
        if kw == "timeout" and isinstance(obj, Timeout) and isinstance(v, (int, float)) and not isinstance(v, bool):
            if obj.connect_timeout == v and getattr(obj, "_read", None) == v:
                return i
        elif type(obj) is type(v) and obj == v:
            return i
    if kw in ("headers", "_proxy_headers") and hasattr(obj, "items") and not obj:
        return 0                    # "headers or {}" in the pool constructor
    return OTHER


def observe_conf(pool, keysettings):
    pool.ConnectionCls = _Recorder
    try:
        seen = pool._new_conn().kw
    finally:
        del pool.ConnectionCls
    s = []
    for f in keysettings:
        obj = POOL_ATTR[f](pool) if f in POOL_ATTR else seen.get(f, _ABSENT)
        i = index_of(f, obj)
        if i != 0:
            s.append([f, i])
    return {"scheme": pool.scheme, "host": pool.host, "port": NOPORT if pool.port is None else pool.port, "s": s}


def _deep(v):
    if isinstance(v, dict):
        return ("d", tuple(sorted(((repr(k), _deep(x)) for k, x in v.items()))))
    if isinstance(v, (list, tuple)):
        return ("l", tuple(_deep(x) for x in v))
    return ("o", id(v))


def _snapshot(mgr):
    kw = mgr.connection_pool_kw
    return (kw, dict(kw), {k: _deep(v) for k, v in kw.items()}, mgr.headers, _deep(mgr.headers))


def _unchanged(mgr, snap):
    kw, shallow, deep, hdr, hdeep = snap
    now = mgr.connection_pool_kw
    return (now is kw and set(now) == set(shallow) and all(now[k] is shallow[k] for k in shallow)
            and {k: _deep(v) for k, v in now.items()} == deep and mgr.headers is hdr and _deep(mgr.headers) == hdeep)


def build_manager(sc):
    from urllib3.poolmanager import PoolManager, ProxyManager
    kw = {k: values_for(k)[v - 1] for k, v in sc["dflt"].items() if v != 0}
    if sc["mk"] == "plain":
        return PoolManager(**kw)
    return ProxyManager(PROXY_URL, proxy_headers=values_for("_proxy_headers")[0], **kw)


def call(mgr, r):
    ov = {k: (None if v == 0 else values_for(k)[v - 1]) for k, v in r["ov"].items()}
    port = None if r["port"] == NOPORT else r["port"]
    if r["via"] == "url":
        url = f"{r['scheme']}://{r['host']}" + ("" if port is None else f":{port}") + "/"
        return mgr.connection_from_url(url, pool_kwargs=ov or None)
    if r["via"] == "host":
        return mgr.connection_from_host(r["host"], port, r["scheme"], pool_kwargs=ov or None)
    ctx = {"scheme": r["scheme"], "host": r["host"], "port": port}
    ctx.update({k: v for k, v in ov.items() if v is not None})
    return mgr.connection_from_context(ctx)


def execute(sc, keysettings):
    """Run one scenario on real code; returns the observations (one per request)."""
    mgr = build_manager(sc)
    cur = {}

    def wrap(fn):
        def keyed(ctx):
            k = fn(ctx)
            cur["key"] = k
            return k
        return keyed

    for sch in list(mgr.key_fn_by_scheme):
        mgr.key_fn_by_scheme[sch] = wrap(mgr.key_fn_by_scheme[sch])
    obs, keys, ids = [], [], {}
    for r in sc["reqs"]:
        snap = _snapshot(mgr)
        cur.clear()
        try:
            pool = call(mgr, r)
            exc = "none"
        except Exception as ex:      # the class is the observation; TLC decides whether it was expected
            pool, exc = None, type(ex).__name__
        dok = _unchanged(mgr, snap)
        k = cur.get("key", _ABSENT)
        eq = []
        for kj in keys:
            try:
                eq.append(kj is not _ABSENT and k is not _ABSENT and bool(kj == k) and hash(kj) == hash(k))
            except TypeError:
                eq.append(False)
        keys.append(k)
        if pool is not None:
            pid = ids.setdefault(id(pool), len(ids) + 1)
            conf = observe_conf(pool, keysettings)
        else:
            pid, conf = 0, {"scheme": "", "host": "", "port": NOPORT, "s": []}
        obs.append({"exc": exc, "pool": pid, "dok": dok, "keyeq": eq, "conf": conf, "_pool": pool})
    for o in obs:       # keep the pools alive until all ids were taken, then drop the references
        o.pop("_pool")
    return obs


def to_trace(sc, obs):
    return {"mk": sc["mk"], "dflt": [[k, v] for k, v in sorted(sc["dflt"].items())],
            "reqs": [{"scheme": r["scheme"], "host": r["host"], "port": r["port"], "via": r["via"],
                      "ov": [[k, v] for k, v in sorted(r["ov"].items())]} for r in sc["reqs"]],
            "obs": obs}


def _sparse(x):
    return dict(x) if isinstance(x, dict) else {}


def decode_scenario(j):
    """One emitted behaviour -> (scenario, expectation)."""
    sc = {"tag": j["tag"], "mk": j["mk"], "dflt": _sparse(j["dflt"]),
          "reqs": [{"scheme": r["scheme"], "host": r["host"], "port": r["port"], "via": r["via"], "ov": _sparse(r["ov"])}
                   for r in j["reqs"]]}
    return sc, {"outs": j["outs"], "pairs": j["pairs"]}


def compare_expected(obs, exp):
    """Stage 3: the Model's expected observations against the real ones.  Returns a list of differences."""
    diffs = []
    for i, (o, e) in enumerate(zip(obs, exp["outs"]), 1):
        if o["exc"] != e["exc"]:
            diffs.append(f"request {i}: exception {o['exc']} (model {e['exc']})")
    for p in exp["pairs"]:
        a, b = obs[p["i"] - 1], obs[p["j"] - 1]
        same = a["pool"] != 0 and a["pool"] == b["pool"]
        if a["exc"] == "none" and b["exc"] == "none" and same != p["same"]:
            diffs.append(f"requests {p['i']},{p['j']}: same pool {same} (model {p['same']}, rules {p['verdict']})")
        if b["keyeq"][p["i"] - 1] != p["keyeq"]:
            diffs.append(f"requests {p['i']},{p['j']}: key equality {b['keyeq'][p['i'] - 1]} (model {p['keyeq']})")
    return diffs


# ------------------------------------------------------------------------------ workers

_G = {}


def _init_worker(c, meta, kd):
    _G["c"], _G["meta"], _G["kd"] = c, meta, kd
    _G["ks"] = sorted(set(c["KeyFields"]) - set(c["IdentityKw"]))
    table()


def validate_traces(traces, c, meta, kd):
    r = tlc.run("PoolKey_Trace", trace_cfg(c, meta, kd), workers=1, files={"traces.json": json.dumps(traces)},
                env={"TRACE_FILE": "traces.json"}, timeout=3600)
    verdicts = tlc.tagged_tuples(r.out, "VERDICT")
    if len(verdicts) != len(traces) or sorted(v[0] for v in verdicts) != list(range(1, len(traces) + 1)):
        raise tlc.MachineryError(f"trace validation produced {len(verdicts)} verdicts for {len(traces)} traces\n{r.out[-2000:]}")
    return r, sorted(verdicts)


def _replay_shard(jobs):
    """Stage 3 + 4 for a list of emitted behaviours: execute, compare with the expectation, let TLC judge."""
    c, meta, kd, ks = _G["c"], _G["meta"], _G["kd"], _G["ks"]
    rows, traces = [], []
    for j in jobs:
        sc, exp = decode_scenario(j)
        obs = execute(sc, ks)
        traces.append(to_trace(sc, obs))
        rows.append({"sc": sc, "diffs": compare_expected(obs, exp), "exp": exp, "obs": obs})
    r, verdicts = validate_traces(traces, c, meta, kd)
    for row, (tid, l, clause) in zip(rows, verdicts):
        row["verdict"], row["at"] = clause, l
    return {"rows": rows, "events": sum(len(t["reqs"]) for t in traces), "distinct": r.distinct}


def random_scenario(rng, settings, c):
    """A multi-keyword scenario: random defaults, 2-4 requests with random overrides, endpoints and routes."""
    mk = "proxy" if rng.random() < 0.2 else "plain"
    keyed = [k for k in settings if k in c["KeyFields"]]
    pick = lambda: rng.choice(keyed) if rng.random() < 0.93 else rng.choice(settings)   # mostly servable requests
    dflt = {pick(): rng.randint(1, NV) for _ in range(rng.randint(0, 4))}
    few = rng.sample(keyed, 3)
    reqs = []
    for _ in range(rng.randint(2, 4)):
        via = "url" if mk == "proxy" else rng.choice(["url", "url", "host", "context"])
        ov = {}
        for _ in range(rng.randint(0, 3)):
            k = rng.choice(few) if rng.random() < 0.7 else pick()
            ov[k] = rng.randint(0, NV)
        if via == "context":
            ov = {k: v for k, v in ov.items() if v != 0}
        scheme = rng.choice(["http", "https", "https"] + (["HTTP"] if mk == "plain" and rng.random() < 0.1 else []))
        port = rng.choice([NOPORT, NOPORT, 80, 443] + ([0] if rng.random() < 0.15 else []))
        if via == "context" and port == NOPORT:
            port = 443 if scheme == "https" else 80
        reqs.append({"scheme": scheme, "host": rng.choice(["a.test", "a.test", "A.TEST", "b.test"]), "port": port,
                     "via": via, "ov": ov})
    return {"tag": ["rand"], "mk": mk, "dflt": dflt, "reqs": reqs}


def _random_shard(args):
    seed, count = args
    c, meta, kd, ks = _G["c"], _G["meta"], _G["kd"], _G["ks"]
    rng = random.Random(seed)
    settings = settings_of(c)
    rows, traces = [], []
    for _ in range(count):
        sc = random_scenario(rng, settings, c)
        obs = execute(sc, ks)
        traces.append(to_trace(sc, obs))
        rows.append({"sc": sc, "obs": obs, "diffs": [], "exp": None})
    r, verdicts = validate_traces(traces, c, meta, kd)
    for row, (tid, l, clause) in zip(rows, verdicts):
        row["verdict"], row["at"] = clause, l
    return {"rows": rows, "events": sum(len(t["reqs"]) for t in traces), "distinct": r.distinct}


# ------------------------------------------------------------------------------ verdict handling

def _facts(row):
    sc = row["sc"]
    tag = sc["tag"]
    return {"kind": tag[0], "keyword": tag[6] if tag[0] == "kw" else None}


def judge(rep, row, findings):
    """Turn TLC's verdict on one executed scenario into violation / known finding / drift."""
    v = row["verdict"]
    case = {"scenario": row["sc"], "verdict": v, "at_request": row["at"], "observed": row["obs"]}
    if v == "ok":
        if row["diffs"]:
            raise tlc.MachineryError(f"stage 3 saw {row['diffs']} but TLC accepted the trace: {json.dumps(row['sc'])}")
        return "ok"
    if v.startswith("known:"):
        for sig in v[6:].split("+"):
            if sig == "PortZero":
                # Latitude (DESIGN.md §4 C18/C15): an explicit port 0 is not a connectable TCP port; urllib3 reads it as
                # "no port given" (`if not port`) and the pool it then uses is the one it really dials (80/443).  The
                # statement does not say what port 0 must mean, so this class is Either: counted, never an alarm.
                rep.extra["latitude_port_zero_read_as_unset"] = rep.extra.get("latitude_port_zero_read_as_unset", 0) + 1
                continue
            f = known.match(findings, {"sig": sig})
            if f is None:
                rep.violation("SharedAcrossSettings", f"deviation {sig} is not a recorded finding", case)
                return "violation"
            rep.known.append((f["id"], f["what"]))
        return "known"
    if v.startswith("drift:"):
        rep.drift.append(f"{v[6:]} at request {row['at']} of {json.dumps(row['sc'], default=repr)[:300]}")
        return "drift"
    what = {"SharedAcrossSettings": "two requests whose connection settings differ were served by the same pool",
            "NotSharedThoughEqual": "requests equal up to case / default port / equal-content values got different pools",
            "PoolMisconfigured": "the pool serving the request is not configured as the request asked",
            "DefaultsAltered": "a per-request override changed the manager's connection_pool_kw",
            "UnexpectedException": "a request with only keyed keywords raised"}.get(v, v)
    rep.violation(v, f"{what}; request {row['at']} of scenario {row['sc']['tag']}; observed {row['obs'][row['at'] - 1]}", case)
    return "violation"


# ------------------------------------------------------------------------------ the check

def _nontrivial_key(row):
    """A case is non-trivial when both requests were served and the two contexts differ in the varied keyword or
    endpoint spelling (i.e. the pair exercises the key) — one key per (kind, keyword/endpoint pair, values, route)."""
    return json.dumps(row["sc"]["tag"])


def run(rep):
    quick = rep.tier == "quick"
    c = extract()
    meta = table_meta(c)
    check_observable(c)
    settings = settings_of(c)
    findings = known.load("C18")
    # PortZero is not a finding but a modelled latitude (see judge()): the Model always reads port 0 as "no port"
    kd = sorted({f["match"]["sig"] for f in findings if f.get("match", {}).get("sig") in SIGS} | {"PortZero"})
    rep.rule = ("stage 2/3: every scenario TLC emits (keyword x ordered value pair x supply form x scheme x base x manager "
                "kind; endpoint pairs over case / port variants) is executed on a real manager; a scenario is non-trivial "
                "when its two requests differ in a keyword value or endpoint spelling (distinct tags); stage 4: the same "
                "traces plus seeded random multi-keyword traces are judged by TLC")
    rep.assumptions = ["value table: three distinct realistic values per keyword (vh/c18.py), equality facts computed from the objects",
                       "no connection is opened: pools are created and read back, connection kwargs captured via ConnectionCls",
                       "TLC 1.8 and CPython are trusted"]
    rep.extra["constants_from_code"] = {k: c[k] for k in ("Keywords", "KeyFields", "IdentityKw", "ManagerOwn", "SslKeywords")}
    rep.extra["constants_from_table"] = meta
    rep.extra["classification"] = {
        "identity": c["IdentityKw"],
        "keyed": sorted(set(c["Keywords"]) & set(c["KeyFields"]) - set(c["IdentityKw"])),
        "rejected_by_key": sorted(set(c["Keywords"]) - set(c["KeyFields"])),
        "key_only": sorted(set(c["KeyFields"]) - set(c["Keywords"])),
        "accepted_by": c["accepted_by"]}
    rep.extra["known_defects_enabled_in_model"] = kd

    # ---- stage 1 (strict design) runs beside stage 1' + 2 (Model with recorded deviations, emission)
    res = {}

    def strict():
        try:
            res["strict"] = tlc.run("MC_PoolKey", mc_cfg(c, meta, [], "all"), workers=max(2, tlc.NCPU // 2), timeout=3600)
        except BaseException as ex:   # re-raised in the main thread
            res["strict"] = ex

    th = threading.Thread(target=strict)
    th.start()
    emitted = {}
    nk = 10
    parts = [("kw", settings[i::nk], None) for i in range(nk)] + [("id", None, [v]) for v in VIAS]

    def emit_part(idx, part, skw, svia):
        got = []

        def on_line(ln):
            if not ln.startswith('<<"SC"'):
                return False
            got.extend(tlc.tagged_json(ln, "SC"))
            return True
        try:
            r = tlc.run("MC_PoolKey", mc_cfg(c, meta, kd, part, check=True, emit=True, shard_kw=skw, shard_via=svia),
                        workers=1, on_line=on_line, timeout=3600)
            emitted[idx] = (r, got)
        except BaseException as ex:
            emitted[idx] = ex

    ths = [threading.Thread(target=emit_part, args=(i,) + p) for i, p in enumerate(parts)]
    for t in ths:
        t.start()
    for t in ths + [th]:
        t.join()
    for v in list(emitted.values()) + [res["strict"]]:
        if isinstance(v, BaseException):
            raise v
    r0 = res["strict"]
    rep.add_tlc("MC_PoolKey strict design (KnownDefects={}), all scenarios", r0)
    if r0.violated:
        rep.violation("DesignInvariant", f"TLC: {r0.violated} violated by the strict design model on the constants of this tree")
    scenarios = []
    agg = {"distinct": 0, "generated": 0, "wall": 0.0, "depth": 0}
    for idx, (part, skw, svia) in enumerate(parts):
        r, got = emitted[idx]
        agg["distinct"] += r.distinct
        agg["generated"] += r.generated
        agg["wall"] = max(agg["wall"], r.wall)
        agg["depth"] = max(agg["depth"], r.depth)
        if r.violated:
            rep.violation("ModelInvariant", f"TLC: {r.violated} violated by the Model (recorded deviations {kd}) in shard {part} {skw or svia}")
        scenarios += got
    rep.states += agg["distinct"]
    rep.transitions += agg["generated"]
    rep.stage1.append({"run": f"MC_PoolKey Model with KnownDefects={kd} (+emission), {len(parts)} shards", "distinct_states": agg["distinct"],
                       "states_generated": agg["generated"], "depth": agg["depth"], "wall_s": round(agg["wall"], 2),
                       "emitted": len(scenarios)})
    if r0.distinct != agg["distinct"]:
        raise tlc.MachineryError(f"strict run explored {r0.distinct} states, the emission shards {agg['distinct']}: shards do not partition the scenarios")
    if not scenarios:
        raise tlc.MachineryError("TLC emitted no scenario")
    tags = {json.dumps(s["tag"]) for s in scenarios}
    if len(tags) != len(scenarios):
        raise tlc.MachineryError(f"emission: {len(scenarios)} behaviours but {len(tags)} distinct scenarios")
    kws_seen = {s["tag"][6] for s in scenarios if s["tag"][0] == "kw"}
    if kws_seen != set(settings):
        raise tlc.MachineryError(f"emission does not cover every keyword: missing {sorted(set(settings) - kws_seen)}")
    rep.extra["scenarios_emitted"] = len(scenarios)

    # ---- stage 3 + 4
    rng = random.Random(rep.seed)
    rng.shuffle(scenarios)
    nshard = 16
    shards = [scenarios[i::nshard] for i in range(nshard)]
    nrand, per = (2000, 250) if quick else (60000, 2500)
    with mp.Pool(16, initializer=_init_worker, initargs=(c, meta, kd)) as pool:
        a1 = pool.map_async(_replay_shard, [s for s in shards if s])
        a2 = pool.map_async(_random_shard, [(rep.seed * 100003 + i, per) for i in range(nrand // per)])
        outs, routs = a1.get(), a2.get()
    tally = {"ok": 0, "known": 0, "drift": 0, "violation": 0}
    by_verdict, stage3_diff, replayed = {}, 0, 0
    verdict_classes = {"MustDiffer": 0, "MustShare": 0, "Either": 0, "n/a": 0}
    for o in outs:
        rep.traces += len(o["rows"])
        rep.evaluations += o["events"]
        for row in o["rows"]:
            replayed += 1
            stage3_diff += bool(row["diffs"])
            for p in row["exp"]["pairs"]:
                verdict_classes[p["verdict"]] += 1
            tally[judge(rep, row, findings)] += 1
            by_verdict[row["verdict"]] = by_verdict.get(row["verdict"], 0) + 1
            if any(p["verdict"] in ("MustDiffer", "MustShare") for p in row["exp"]["pairs"]):
                rep.nontrivial.add(_nontrivial_key(row))
    if replayed != len(scenarios):
        raise tlc.MachineryError(f"{len(scenarios)} scenarios emitted but {replayed} replayed")
    if min(verdict_classes["MustDiffer"], verdict_classes["MustShare"], verdict_classes["Either"]) == 0:
        raise tlc.MachineryError(f"a verdict class was never exercised: {verdict_classes}")
    for sig in kd:
        if not any(v.startswith("known:") and sig in v for v in by_verdict):
            rep.drift.append(f"recorded deviation {sig} is enabled in the Model but no real trace exhibited it")
    rtally = {"ok": 0, "known": 0, "drift": 0, "violation": 0}
    for o in routs:
        rep.traces += len(o["rows"])
        rep.evaluations += o["events"]
        for row in o["rows"]:
            rtally[judge(rep, row, findings)] += 1
            by_verdict[row["verdict"]] = by_verdict.get(row["verdict"], 0) + 1
    rep.extra.update({"scenarios_replayed": replayed, "stage3_expectation_mismatches": stage3_diff,
                      "emitted_tally": tally, "random_traces": sum(len(o["rows"]) for o in routs), "random_tally": rtally,
                      "tlc_verdicts": by_verdict, "rules_verdict_classes_over_emitted_pairs": verdict_classes})
    for o in outs[:1]:
        for row in o["rows"][:3]:
            rep.sample({"scenario": row["sc"], "expected": row["exp"], "observed": row["obs"], "tlc_verdict": row["verdict"]}, cap=3)
    for o in routs[:1]:
        for row in o["rows"][:2]:
            rep.sample({"scenario": row["sc"], "observed": row["obs"], "tlc_verdict": row["verdict"]}, cap=5)
    rep.exhaustive = True


def replay(rep, path):
    with open(path) as fh:
        doc = json.load(fh)
    case = doc["case"]
    c = extract()
    meta = table_meta(c)
    findings = known.load("C18")
    # PortZero is not a finding but a modelled latitude (see judge()): the Model always reads port 0 as "no port"
    kd = sorted({f["match"]["sig"] for f in findings if f.get("match", {}).get("sig") in SIGS} | {"PortZero"})
    _init_worker(c, meta, kd)
    sc = case["scenario"]
    obs = execute(sc, _G["ks"])
    r, verdicts = validate_traces([to_trace(sc, obs)], c, meta, kd)
    tid, l, clause = verdicts[0]
    row = {"sc": sc, "obs": obs, "diffs": [], "exp": None, "verdict": clause, "at": l}
    judge(rep, row, findings)
    rep.traces += 1
    rep.evaluations += len(sc["reqs"])
    rep.states = rep.states or r.distinct
    rep.transitions = rep.transitions or r.generated
    rep.rule = "replay of one recorded scenario"
    rep.nontrivial.add(json.dumps(sc["tag"]))
