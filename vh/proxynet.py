"""Recording proxy party for C09 (proxied routing), on the same seam as vh/net.py.

`urllib3.util.connection.create_connection` is replaced by a factory that hands the client one end
of a socketpair and gives the other end to a *party thread* (TLS needs a peer that runs while the
client is blocked in its handshake).  The party is the proxy and, inside a CONNECT tunnel, also the
origin:

    front layer   plain, or TLS with a scripted certificate (trustme CAs: trusted / untrusted)
    proxy role    reads one request head at a time; CONNECT gets the scripted reply for that CONNECT
                  ordinal of the scenario (200 / 403 / 407 / 502 / garbage); anything else is answered
                  as a forwarded request
    origin role   after a 200 the bytes belong to the origin: TLS-in-TLS by layering ssl.MemoryBIO
                  objects over the front layer, scripted origin certificate, one reply per request

Ground truth is recorded where it happens: which address was dialled, which bytes each party
received (byte-exact heads), which SNI each TLS layer was asked for and which certificate it
presented, which CONNECT reply was sent, and when the party closed a connection.  The party answers
per request (never once per connection) and every blocking call of the party has a deadline, so a
stall of the harness is reported as such instead of looking like a hang of urllib3.

Reused from vh/net.py: the strict request parser (Peer._try_parse), Request, http_response.
"""
from __future__ import annotations

import atexit
import os
import shutil
import socket
import ssl
import tempfile
import threading
import time

from . import net

PROXY_HOST, PROXY_PORT = "proxy.test", 3128
HOSTS = {"name": "origin.test", "ipv4": "10.0.0.7", "ipv6": "[fd00::7]"}   # as written in the URL
PARTY_DEADLINE = 30.0       # seconds a party thread may wait for bytes before it gives up
GARBAGE = b"SSH-2.0-OpenSSH_9.6\r\n\r\n"
REASONS = {"200": "Connection established", "403": "Forbidden", "407": "Proxy Authentication Required",
           "502": "Bad Gateway"}


class PartyStall(Exception):
    """The party waited longer than PARTY_DEADLINE for bytes (harness problem or client hang)."""


# --------------------------------------------------------------------------------------- certificates

class World:
    """Throw-away PKI, created once per process: a CA the client trusts and one it does not."""
    _inst = None

    def __init__(self):
        import trustme
        self.good, self.evil = trustme.CA(), trustme.CA()
        self.dir = tempfile.mkdtemp(prefix="vh-c09-")
        self.ca_path = os.path.join(self.dir, "ca.pem")
        self.good.cert_pem.write_to_path(self.ca_path)
        self._ctx = {}
        atexit.register(shutil.rmtree, self.dir, True)

    @classmethod
    def get(cls):
        if cls._inst is None or not os.path.exists(cls._inst.ca_path):
            cls._inst = World()
        return cls._inst

    def server_ctx(self, authority, identity):
        """Server-side SSLContext presenting a leaf for `identity` signed by the trusted or the evil CA."""
        key = (authority, identity)
        if key not in self._ctx:
            ca = self.good if authority == "good" else self.evil
            leaf = ca.issue_cert(identity)
            ctx = ssl.SSLContext(ssl.PROTOCOL_TLS_SERVER)
            leaf.configure_cert(ctx)
            self._ctx[key] = ctx
        return self._ctx[key]

    def ctx_for(self, kind, right_identity):
        """Certificate kinds of the scenario alphabet -> what is really presented."""
        ident = right_identity.strip("[]")
        if kind == "ok":
            return self.server_ctx("good", ident)
        if kind == "untrusted":
            return self.server_ctx("evil", ident)
        if kind == "wrongname":
            return self.server_ctx("good", "other.test")
        if kind == "proxyname":                       # a *valid* certificate of the proxy, shown by the origin
            return self.server_ctx("good", PROXY_HOST)
        raise ValueError(kind)


# --------------------------------------------------------------------------------------- byte layers

class SockLayer:
    def __init__(self, sock):
        self.s = sock

    def recv(self, n=65536):
        try:
            return self.s.recv(n)
        except socket.timeout as ex:
            raise PartyStall("no bytes from the client") from ex
        except OSError:
            return b""

    def sendall(self, b):
        try:
            self.s.sendall(b)
        except OSError:
            pass

    def peek1(self):
        try:
            return self.s.recv(1, socket.MSG_PEEK)
        except socket.timeout as ex:
            raise PartyStall("no bytes from the client") from ex
        except OSError:
            return b""


class Prepend:
    """A byte layer with some already-read bytes pushed back in front of it."""

    def __init__(self, lower, data):
        self.lower, self.pending = lower, data

    def recv(self, n=65536):
        if self.pending:
            d, self.pending = self.pending, b""
            return d
        return self.lower.recv(n)

    def peek1(self):
        return self.pending[:1] or self.lower.peek1()

    def sendall(self, b):
        self.lower.sendall(b)


class TLSLayer:
    """Server-side TLS over any byte layer (ssl.MemoryBIO): stacking two of them is TLS-in-TLS."""

    def __init__(self, lower, ctx):
        self.lower, self.inb, self.outb = lower, ssl.MemoryBIO(), ssl.MemoryBIO()
        self.sni = []
        self.pending = b""
        # the callback is per handshake: contexts are shared, so bind through the SSLObject
        ctx.sni_callback = _sni_cb
        self.obj = ctx.wrap_bio(self.inb, self.outb, server_side=True)
        _SNI_SINK[id(self.obj)] = self.sni
        self.error = None

    def handshake(self):
        try:
            self._loop(self.obj.do_handshake)
            return True
        except (ssl.SSLError, EOFError, OSError) as ex:
            self.error = type(ex).__name__ + ":" + str(getattr(ex, "reason", ""))
            self._flush()
            return False
        finally:
            _SNI_SINK.pop(id(self.obj), None)

    def _flush(self):
        d = self.outb.read()
        if d:
            self.lower.sendall(d)

    def _loop(self, fn, *a):
        while True:
            try:
                r = fn(*a)
                self._flush()
                return r
            except ssl.SSLWantReadError:
                self._flush()
                d = self.lower.recv()
                if not d:
                    self.inb.write_eof()
                    raise EOFError("client closed during TLS")
                self.inb.write(d)

    def recv(self, n=65536):
        if self.pending:
            d, self.pending = self.pending, b""
            return d
        try:
            return self._loop(self.obj.read, n)
        except (ssl.SSLZeroReturnError, ssl.SSLEOFError, EOFError, ssl.SSLError):
            return b""

    def peek1(self):
        if not self.pending:
            self.pending = self.recv()
        return self.pending[:1]

    def sendall(self, b):
        try:
            self._loop(self.obj.write, b)
        except (ssl.SSLError, EOFError):
            pass


_SNI_SINK = {}


def _sni_cb(sslobj, name, ctx):
    sink = _SNI_SINK.get(id(sslobj))
    if sink is not None:
        sink.append(name or "")


class _Parser:
    """Adapter so that the strict request parser of vh/net.py can be reused on a byte layer."""
    _try_parse = net.Peer._try_parse

    def __init__(self, layer):
        self.layer, self.inbuf, self.parse_error = layer, bytearray(), None
        self.eof = False

    def next_request(self):
        """Blocking: next complete request, or None at EOF (left-over bytes stay in inbuf)."""
        while True:
            req = self._try_parse()
            if req is not None:
                return req
            d = self.layer.recv()
            if not d:
                self.eof = True
                return None
            self.inbuf += d


# --------------------------------------------------------------------------------------- the network

HDR_KINDS = {"proxy-authorization": "pauth", "x-proxy-tag": "ptag", "authorization": "rauth", "x-req": "rtag",
             "accept": "accept"}


def header_kinds(req):
    """Tokenise header names into the spec's alphabet (a table lookup, nothing else)."""
    out = []
    for k, _ in req.headers:
        t = HDR_KINDS.get(k.lower())
        if t and t not in out:
            out.append(t)
    return sorted(out)


def request_form(req):
    if req.method == "CONNECT":
        return "CONNECT"
    if req.target.startswith("/"):
        return "origin"
    if "://" in req.target:
        return "absolute"
    return "other"


def request_path(target):
    """Path of a request target in origin-form or absolute-form."""
    if "://" in target:
        rest = target.split("://", 1)[1]
        return "/" + rest.split("/", 1)[1] if "/" in rest else "/"
    return target


BLANK = {"ev": "", "cid": 0, "k": 0, "party": "", "form": "", "method": "", "target": "", "hdr": [], "host": "",
         "outer": "none", "inner": "none", "sni": "", "layer": "", "cert": "", "done": False, "code": "",
         "kind": "", "status": 0, "by": "", "exc": []}


def event(**kw):
    e = dict(BLANK)
    e.update(kw)
    return e


class ProxyNet:
    """One scenario's network.  `cfg`: ps (proxy scheme), pcert, ocert, dest (URL host as written).
    `replies`: CONNECT replies by CONNECT ordinal (default "200"); `close_after`: set of request
    paths after whose answer the party closes the connection that carried it; `redirs`: request
    path -> (3xx code, Location) answered instead of 200 (by whichever party receives that request)."""

    def __init__(self, cfg, replies=(), close_after=(), redirs=None):
        self.cfg = cfg
        self.world = World.get()
        self.replies = list(replies)
        self.close_after = set(close_after)
        self.redirs = dict(redirs or {})
        self.events = []
        self.raw = []                 # (cid, party, raw head bytes) byte-exact
        self.lock = threading.Lock()
        self.threads = {}
        self.state = {}               # cid -> "busy" | "waiting" | "done"
        self.socks = {}
        self.nconnect = 0
        self.cur_k = 0
        self.errors = []              # harness-side problems (PartyStall, unexpected exceptions)
        self._orig = None

    # -- recording
    def log(self, **kw):
        kw.setdefault("k", self.cur_k)
        with self.lock:
            self.events.append(event(**kw))

    # -- seam
    def create_connection(self, address, timeout=None, source_address=None, socket_options=None):
        with self.lock:
            cid = len(self.socks) + 1
            a, b = socket.socketpair()
            self.socks[cid] = b
            self.state[cid] = "busy"
        host, port = address
        self.log(ev="dial", cid=cid, target=f"{host}:{port}")
        if isinstance(timeout, (int, float)) or timeout is None:
            a.settimeout(timeout)
        b.settimeout(PARTY_DEADLINE)
        t = threading.Thread(target=self._party, args=(cid, b), daemon=True, name=f"party-{cid}")
        self.threads[cid] = t
        t.start()
        return a

    def __enter__(self):
        import urllib3.util.connection as uc
        self._uc, self._orig = uc, uc.create_connection
        uc.create_connection = self.create_connection
        return self

    def __exit__(self, *a):
        self._uc.create_connection = self._orig
        for s in list(self.socks.values()):
            try:
                s.shutdown(socket.SHUT_RDWR)     # wakes a party thread blocked in recv
            except OSError:
                pass
        for t in self.threads.values():
            t.join(2.0)
        return False

    def settle(self, deadline=30.0):
        """Wait until every party thread is parked at a message boundary or has finished."""
        t0 = time.monotonic()
        while True:
            with self.lock:
                busy = [c for c, s in self.state.items() if s == "busy"]
            if not busy:
                return
            if time.monotonic() - t0 > deadline:
                self.errors.append(f"party threads {busy} did not settle")
                return
            time.sleep(0.0002)

    def _set(self, cid, s):
        with self.lock:
            self.state[cid] = s

    # -- the party
    def _party(self, cid, sock):
        try:
            self._serve(cid, sock)
        except PartyStall as ex:
            self.errors.append(f"conn {cid}: {ex}")
        except Exception as ex:  # noqa: BLE001 - harness problem, reported as machinery failure
            self.errors.append(f"conn {cid}: party raised {type(ex).__name__}: {ex}")
        finally:
            try:
                sock.close()
            except OSError:
                pass
            self._set(cid, "done")

    def _next(self, cid, parser):
        if not parser.inbuf:
            self._set(cid, "waiting")
        req = parser.next_request()
        self._set(cid, "busy")
        return req

    def _serve(self, cid, sock):
        cfg = self.cfg
        layer = SockLayer(sock)
        outer = "none"
        if cfg["ps"] == "https":
            tl = TLSLayer(layer, self.world.ctx_for(cfg["pcert"], PROXY_HOST))
            done = tl.handshake()
            self.log(ev="tls", cid=cid, layer="outer", sni=(tl.sni or [""])[0], cert=cfg["pcert"], done=done)
            if not done:
                return
            layer, outer = tl, cfg["pcert"]
        parser = _Parser(layer)
        while True:
            first = b""
            if not parser.inbuf:
                self._set(cid, "waiting")
                first = layer.peek1()
                self._set(cid, "busy")
                if not first:
                    return
            if first == b"\x16":
                # a TLS ClientHello where the proxy expects an HTTP request: record and hang up
                self.raw.append((cid, "proxy", b"\x16"))
                self.log(ev="msg", cid=cid, party="proxy", form="tlshello", outer=outer, k=self.cur_k)
                return
            req = self._next(cid, parser)
            if req is None:
                if parser.inbuf:
                    self.raw.append((cid, "proxy", bytes(parser.inbuf)))
                    self.log(ev="msg", cid=cid, party="proxy", form="partial", outer=outer, k=self.cur_k)
                return
            self.raw.append((cid, "proxy", req.raw_head))
            self.log(ev="msg", cid=cid, party="proxy", form=request_form(req), method=req.method, target=req.target,
                     hdr=header_kinds(req), host=req.header("Host", ""), outer=outer, k=self.cur_k)
            if req.method == "CONNECT":
                with self.lock:
                    self.nconnect += 1
                    n = self.nconnect
                code = self.replies[n - 1] if n - 1 < len(self.replies) else "200"
                self.log(ev="reply", cid=cid, code=code)     # logged before it leaves (see _answer)
                if code == "garbage":
                    layer.sendall(GARBAGE)
                elif code == "200":
                    layer.sendall(b"HTTP/1.1 200 Connection established\r\n\r\n")
                else:
                    layer.sendall(f"HTTP/1.1 {code} {REASONS[code]}\r\nContent-Length: 0\r\n\r\n".encode())
                if code == "200":
                    self._origin(cid, layer, outer, bytes(parser.inbuf))
                    return
                # refused: whatever the client still writes on this connection is recorded
                self._set(cid, "waiting")
                more = layer.recv()
                self._set(cid, "busy")
                if more:
                    self.raw.append((cid, "proxy", more))
                    self.log(ev="msg", cid=cid, party="proxy", form="afterrefusal", outer=outer, k=self.cur_k)
                return
            # forwarded request: the proxy answers for the destination
            if self._answer(cid, layer, req, b"proxy "):
                return

    def _answer(self, cid, layer, req, who):
        """Scripted answer to one request (200 with a body naming the answering party, or a redirect);
        returns True when the party then closes the connection."""
        path = request_path(req.target)
        rd = self.redirs.get(path)
        close = path in self.close_after
        # everything is logged BEFORE the answer leaves: the client moves on as soon as it has the answer
        if rd is not None:
            self.log(ev="redir", cid=cid, code=rd[0], target=rd[1])
        if close:
            self.log(ev="pclose", cid=cid)
        if rd is not None:
            layer.sendall(net.http_response(int(rd[0]), b"", headers=[("Location", rd[1])], reason="Redirect"))
        else:
            layer.sendall(net.http_response(200, who + req.target.encode("latin-1", "replace")))
        return close

    def _origin(self, cid, lower, outer, leftover):
        """Everything after `200 Connection established` belongs to the origin."""
        cfg = self.cfg
        if leftover:
            lower = Prepend(lower, leftover)
        self._set(cid, "waiting")
        first = lower.peek1()
        self._set(cid, "busy")
        if not first:
            return
        inner, layer, sni = "none", lower, ""
        if first == b"\x16":
            tl = TLSLayer(lower, self.world.ctx_for(cfg["ocert"], cfg["dest"]))
            done = tl.handshake()
            sni = (tl.sni or [""])[0]
            self.log(ev="tls", cid=cid, layer="inner", sni=sni, cert=cfg["ocert"], done=done)
            if not done:
                return
            inner, layer = cfg["ocert"], tl
        parser = _Parser(layer)
        while True:
            req = self._next(cid, parser)
            if req is None:
                if parser.inbuf:
                    self.raw.append((cid, "origin", bytes(parser.inbuf)))
                    self.log(ev="msg", cid=cid, party="origin", form="partial", outer=outer, inner=inner, sni=sni,
                             k=self.cur_k)
                return
            self.raw.append((cid, "origin", req.raw_head))
            self.log(ev="msg", cid=cid, party="origin", form=request_form(req), method=req.method, target=req.target,
                     hdr=header_kinds(req), host=req.header("Host", ""), outer=outer, inner=inner, sni=sni,
                     k=self.cur_k)
            if self._answer(cid, layer, req, b"origin "):
                return
