"""C12 -- every way of reading a response yields the same bytes.

See vh/bodycheck.py for the four stages.  This module holds the C12 plans: intact responses only (the damaged
ones are C13), exhaustive short call sequences from the model on small bodies, and seeded random longer
sequences on real payload sizes 0 .. 70000 over every coding / framing / segmentation / chunk-size vector.
"""
from __future__ import annotations

import random
from concurrent.futures import ThreadPoolExecutor

from . import bodycheck as bc
from . import bodydrv as bd
from . import bodygen as bg
from . import known, tlc

SIZES = [0, 1, 2, 5, 13, 70, 300, 3000, 9000, 70000]
DRAINS = [("readn", 997), ("read1n", 513), ("read", 0), ("read1", 0), ("readinto", 64), ("readn", 1000), ("read1n", 64)]


def random_run(rng):
    size = rng.choice(SIZES)
    coding = rng.choice(bg.CODINGS)
    framing = rng.choice(bg.FRAMINGS)
    decode = rng.random() < 0.8
    seg = rng.choice([None, None, 1, 2, 7, 100, 4096]) if size <= 3000 else rng.choice([None, 4096, 1460])
    case = {"size": size, "pseed": rng.randrange(1000), "coding": coding, "framing": framing, "decode": decode,
            "chunks": rng.choice(["one", "ones", "sevens", "big", "rand", "rand"]), "ext": rng.random() < 0.5, "seg": seg}
    mode = rng.choice(["reads", "reads", "reads", "stream", "chunked", "iter", "preload", "mixed"])
    if mode == "chunked" and framing != "chunked":
        mode = "stream"
    if mode == "iter" and not decode:
        mode = "reads"
    if mode == "mixed" and framing == "chunked":
        mode = "reads"
    run = {"case": case, "ops": [], "drain": None, "preload": False}
    amt = lambda: rng.choice(bc.AMTS)  # noqa: E731
    def read_op():
        k = rng.choice(["read", "readn", "readn", "read1n", "read1n", "read1", "readinto", "read0"])
        return (k, amt() if k in ("readn", "read1n", "readinto") else 0)
    if mode == "reads":
        run["ops"] = [read_op() for _ in range(rng.randint(1, 8))]
        run["drain"] = rng.choice(DRAINS)
    elif mode in ("stream", "chunked"):
        n = rng.choice([1, 3, 64, 1000, 65536, 0])        # 0 = None
        if n == 0 and mode == "stream" and framing != "chunked":
            n = 65536
        if n < 64 and n != 0 and size > 3000:
            n = 1000                                       # keep traces of big bodies to a few hundred events
        run["ops"] = [(mode, n)]
        run["drain"] = (mode, n)
    elif mode == "iter":
        run["ops"] = [("iter", 0)]
        run["drain"] = ("iter", 0)
    elif mode == "preload":
        run["preload"] = True
    else:                                                  # stream steps mixed with read calls (not chunked)
        n = rng.choice([1, 3, 64, 1000]) if size <= 3000 else 1000
        ops = []
        for _ in range(rng.randint(2, 7)):
            ops.append(("stream", n) if rng.random() < 0.5 else read_op())
        run["ops"] = ops
        run["drain"] = ("stream", n) if rng.random() < 0.5 else rng.choice(DRAINS)
    # after the normal end a few more calls must return b"" (EmptyAfterEnd)
    if not run["preload"] and rng.random() < 0.5:
        if mode in ("reads", "mixed"):
            run["after"] = [read_op() for _ in range(rng.randint(1, 2))]
        else:
            run["after"] = [run["drain"]]
    return run


def run(rep):
    quick = rep.tier == "quick"
    findings = known.load("C12")
    counters = bc.new_counters()
    rep.rule = ("a case = one real HTTPResponse consumed by a call sequence and judged by TLC (Body_Trace.tla); "
                "non-trivial = at least two calls touched the body; distinct by (coding, framing, size, decode, seg, "
                "first six calls)")
    rep.assumptions = ["zlib / zstandard are trusted as independent decoders (the codec is abstract in Body.tla)",
                       "generators (stream on chunked bodies, read_chunked, iteration) are not interleaved with other "
                       "calls on the same response; stream steps on non-chunked bodies are",
                       "every call carries an explicit decode_content", "TLC 1.8 and CPython 3.12 http.client are trusted"]
    sc = "ScC12Tiny" if quick else "ScC12"
    need = ["Read", "ReadNOp", "Read1N", "Read1All", "ReadInto", "Read0", "Stream", "ChunkedOp", "Iter", "Preload",
            "Dispose", "NextRequest"]
    plans = [("repaired design, intact responses",
              dict(sc="ScC12S1", maxops=4, _workers=max(2, bc.JOBS // 2)) if quick else
              dict(sc="ScC12S1", maxops=6, after=2, amts="AFull", amts1="A1237", gen="A1237", into="A37", _cov=True, _need=need), None),
             ("deviation D6 exhibited", dict(sc="ScC12Tiny", kd="JustD6"), bc.DEFECT_CLAUSES["JustD6"]),
             ("deviation D7 exhibited", dict(sc="ScC12Tiny", kd="JustD7"), bc.DEFECT_CLAUSES["JustD7"]),
             *([] if quick else [("repaired design, 12-unit bodies", dict(sc="ScC12Big", maxops=5, lag=5), None)]),
             ("liveness: every call sequence ends", dict(spec="LiveSpec", sc="ScC12Live" if quick else "ScC12Tiny", amts="A2", amts1="A2", into="A2",
                                                         gen="A2", maxops=30, after=0, body="PROPERTY Terminates"), None)]
    J = bc.JOBS
    ekw = dict(sc=sc, maxops=3, amts="A1237", amts1="A7" if quick else "A27", into="A3", gen="A27")
    rng = random.Random(rep.seed * 7919 + 12)
    rruns = [random_run(rng) for _ in range(1600 if quick else 100000)]
    # probe: stream(amt=None) after a partial sized read on a decoded body.  On a tree that has D6 (read() leaves the
    # decoded buffer behind) this call spins forever; the spin probes are therefore only made when a direct look says
    # the buffer is drained -- a tree with D6 is reported by the ordinary legs anyway (read() after read(n)).
    if not _d6_present():
        for coding, framing in (("gzip", "cl"), ("zstd", "close"), ("deflate", "cl")):
            rruns.append({"case": {"size": 300, "pseed": 4, "coding": coding, "framing": framing, "decode": True, "seg": None},
                          "ops": [("readn", 7), ("stream", 0)], "drain": ("stream", 0), "preload": False, "deadline": 60.0})
    for lr in bc.large_runs(False, quick, rep.seed):       # the LARGE size class, spread over the shards
        rruns.insert(rng.randrange(len(rruns) + 1), lr)
    per_r = max(100, -(-len(rruns) // (2 * J))) if quick else 1000
    with bc.make_pool() as pool, ThreadPoolExecutor(2) as tp:
        if J > 4:       # stage 1, emission and the random leg overlap
            f1 = tp.submit(bc.stage1, plans)
            f2 = tp.submit(bc.emit, ekw, max(2, J // 2), ("NoDefects",))
            bc.run_all(rep, pool, rruns, findings, counters, "random sequences", per=per_r)
            r2, groups, nlines = f2.result()
            bc.account_stage1(rep, f1.result())
        else:           # small machines / development: one JVM at a time
            bc.account_stage1(rep, bc.stage1(plans))
            # the recorded deviations (F2, F4) cannot show on an intact response: the repaired-design set is the as-is set
            r2, groups, nlines = bc.emit(ekw, J, ("NoDefects",))
            bc.run_all(rep, pool, rruns, findings, counters, "random sequences", per=per_r)
        rep.stage1.append({"run": "emission " + sc, "distinct_states": r2.distinct, "states_generated": r2.generated,
                           "depth": r2.depth, "wall_s": round(r2.wall, 1), "behaviours_emitted": nlines,
                           "op_sequences": len(groups) - 1})
        # vacuity: every API call occurs in the emitted behaviours (the thorough tier also reads TLC's -coverage back)
        rep.extra["api_calls_in_emitted_sequences"] = bc.api_coverage(
            groups, ["read", "readn", "read1n", "read1", "readinto", "read0", "stream", "chunked", "iter", "data"])
        variants = [{"scale": 1, "seg": None, "pseed": 1}] if quick else \
            [{"scale": 1, "seg": None, "pseed": 1}, {"scale": 1, "seg": 1, "pseed": 2, "ext": True},
             {"scale": 3000, "seg": 4096, "pseed": 3}]
        mruns, skipped = bc.runs_from_groups(groups, variants, rep.seed)
        if len(mruns) + skipped != (len(groups) - 1) * len(variants) or not mruns:
            raise tlc.MachineryError(f"emitted {len(groups) - 1} op sequences x {len(variants)} variants but built {len(mruns)} + {skipped}")
        done = bc.run_all(rep, pool, mruns, findings, counters, "model op sequences",
                          per=max(200, -(-len(mruns) // (2 * J))) if quick else 1500)
        if done + counters["generr"] < len(mruns):
            raise tlc.MachineryError(f"replayed {done} of {len(mruns)} model op sequences")
    rep.extra["model_op_sequences"] = len(groups) - 1
    rep.extra["model_behaviours"] = nlines
    rep.extra["unrealizable_skipped"] = skipped
    rep.exhaustive = True
    bc.finish(rep, counters)


def _d6_present():
    """Does read() after a partial read(n) on a decoded body leave buffered bytes behind on this tree?"""
    t = bc.execute({"case": {"size": 300, "pseed": 4, "coding": "gzip", "framing": "cl", "decode": True, "seg": None},
                    "ops": [("readn", 7), ("read", 0)], "drain": None, "preload": False})
    ev = t["events"]
    return not (len(ev) == 2 and ev[1]["off"] == 7 and ev[1]["len"] == 293)


def replay(rep, path):
    bc.replay_case(rep, "C12", path)
