"""C20 — multipart form encoding is structurally sound for any field content.

stage 1  TLC checks spec/Multipart.tla: for every field list within the bounds and every boundary
         not occurring in the data, the strict independent Parse of Encode gives back exactly the
         parts the fields specify (RoundTrip), the content type names the boundary, the WHATWG
         escaping is sound, and the three injection-freedom invariants hold; a canary invariant
         (the same layout WITHOUT escaping round-trips) must be refuted by TLC
stage 2  TLC emits every explored (boundary, field list) with the model's encoding (symbols)
stage 3  each one is given to the real urllib3.encode_multipart_formdata in several input shapes
         (tuples / RequestField objects, list / dict containers, str / bytes values) and the
         returned body and content type are compared byte for byte with the model's; a mismatch is
         not decided here: the real output is lexed and handed to TLC (stage 4 monitor)
stage 4  random longer field lists (seeded) are encoded by the real code with explicit and random
         boundaries, the real output is lexed into the spec's symbols and TLC's Parse / Judge
         (spec/Multipart_Trace.tla) gives the verdict for every trace
"""
from __future__ import annotations

import json
import multiprocessing as mp
import random
import re

from . import known, tlc

# ------------------------------------------------------------------------------ symbols <-> bytes
WORDS = ["Content-Disposition", "Content-Type", "Content-Location", "form-data", "name", "filename",
         "text/plain", "application/octet-stream", "image/jpeg", "/loc", "multipart/form-data", "boundary"]
SYM = {"Q": b'"', "CR": b"\r", "LF": b"\n", "SC": b";", "BS": b"\\", "DA": b"-", "a": b"a",
       "NA": "é".encode("utf-8"), "PC": b"%", "TXT": b".txt", "FF": b"\xff",
       "SP": b" ", "EQ": b"=", "CO": b":", "A": b"A", "D": b"D", "b": b"b"}
SYM.update({c: c.encode() for c in "0123456789cdef"})     # digits of the escapes and of random boundaries
SYM.update({w: w.encode() for w in WORDS})
_LEX = sorted(SYM.items(), key=lambda kv: -len(kv[1]))
HOSTILE = ["Q", "CR", "LF", "SC", "BS", "DA", "a", "NA", "PC"]


def sym_bytes(seq) -> bytes:
    return b"".join(SYM[s] for s in seq)


def sym_text(seq) -> str:
    return sym_bytes(seq).decode("utf-8")


def lex(data: bytes) -> list:
    """Longest-match lexing of real output into the spec's symbols; unknown bytes become '?xx'."""
    out, i, n = [], 0, len(data)
    while i < n:
        for s, bs in _LEX:
            if data.startswith(bs, i):
                out.append(s)
                i += len(bs)
                break
        else:
            out.append("?%02x" % data[i])
            i += 1
    return out


# ------------------------------------------------------------------------------ driving the real code
def _mods():
    from urllib3 import encode_multipart_formdata
    from urllib3.fields import RequestField
    return encode_multipart_formdata, RequestField


def _data(f, flip=False):
    kind = f["kind"]
    if flip:
        kind = "bytes" if kind == "str" else ("str" if "FF" not in f["data"] else "bytes")
    return sym_text(f["data"]) if kind == "str" else sym_bytes(f["data"])


def _native(f, flip=False, empty_ct=False):
    """The field in the input shape its `form` names: (name, value) tuple or a RequestField."""
    name, data = sym_text(f["name"]), _data(f, flip)
    fn = sym_text(f["fn"]) if f["hasfn"] else None
    none = "" if empty_ct else None
    if f["form"] == "plain":
        return (name, data)
    if f["form"] == "t2":
        return (name, (fn, data))
    if f["form"] == "t3":
        return (name, (fn, data, f["ct"] or none))
    RequestField = _mods()[1]
    rf = RequestField(name, data, filename=fn)
    rf.make_multipart(content_type=f["ct"] or none, content_location=f["loc"] or none)
    return rf


def build(fields, style):
    """Python argument for encode_multipart_formdata; None when the style does not apply."""
    RequestField = _mods()[1]
    if style == "list":
        return [_native(f) for f in fields]
    if style == "flip":                      # str values as bytes and vice versa
        return [_native(f, flip=True) for f in fields]
    if style == "objs":                      # every tuple through RequestField.from_tuples first
        out = [_native(f) for f in fields]
        return [x if isinstance(x, RequestField) else RequestField.from_tuples(*x) for x in out]
    if style == "dict":                      # mapping container: tuple forms with distinct names only
        if any(f["form"] == "rf" for f in fields) or len({tuple(f["name"]) for f in fields}) != len(fields):
            return None
        return dict(_native(f) for f in fields)
    if style == "emptyct":                   # "" instead of None for an absent content type / location
        if not any(f["form"] in ("t3", "rf") and (not f["ct"] or not f["loc"]) for f in fields):
            return None
        return tuple(_native(f, empty_ct=True) for f in fields)
    if style == "retyped":                   # RequestField objects that carried OTHER part headers before: built with stale
        # headers and put through make_multipart twice; the part must carry exactly what the LAST call specified
        if not any(f["form"] == "rf" for f in fields):
            return None
        out = []
        for f in fields:
            if f["form"] != "rf":
                x = _native(f)
                out.append(RequestField.from_tuples(*x))
                continue
            name, data = sym_text(f["name"]), _data(f)
            fn = sym_text(f["fn"]) if f["hasfn"] else None
            rf = RequestField(name, data, filename=fn, headers={"Content-Type": "image/jpeg", "Content-Location": "/loc"})
            rf.make_multipart(content_type="application/octet-stream")
            rf.make_multipart(content_type=f["ct"] or None, content_location=f["loc"] or None)
            out.append(rf)
        return out
    raise tlc.MachineryError("unknown style " + style)


STYLES = ["list", "objs", "dict", "flip", "emptyct", "retyped"]


_PRELUDE = [0]
PRELUDE_KINDS = ("none", "other-fields-encoded-first", "failed-none-value", "failed-lone-surrogate", "failed-bad-tuple")
PRELUDE_SEEN = {k: 0 for k in PRELUDE_KINDS}


def _prelude(enc, boundary):
    """History independence: the encoder is a function of its arguments, so what an EARLIER call in the same thread did —
    including a call that raised half-way through (a None value, a str that cannot be encoded, a malformed file tuple) —
    must not show in the body judged next.  Every judged encode is therefore preceded, in rotation, by nothing, by a
    successful encode of other fields, or by one of three failing encodes that reuse the same explicit boundary; the
    judged body is then parsed by TLC against ITS OWN fields only, so residue of the earlier call is a violation."""
    _PRELUDE[0] += 1
    kind = PRELUDE_KINDS[_PRELUDE[0] % len(PRELUDE_KINDS)]
    PRELUDE_SEEN[kind] += 1
    if kind == "none":
        return
    prior = {"other-fields-encoded-first": [("aaa", "a-a-a")],
             "failed-none-value": [("aaa", "a-a-a"), ("aa", None)],
             "failed-lone-surrogate": [("aaa", "a-a-a"), ("aa", "\ud800")],
             "failed-bad-tuple": [("aaa", "a-a-a"), ("aa", ("a.txt", b"a", "text/plain", "a"))]}[kind]
    try:
        enc(prior, boundary=boundary)
    except Exception:
        if kind == "other-fields-encoded-first":
            raise


def real_encode(fields, style, boundary):
    """-> (body bytes, content-type bytes) or None when the style does not apply.  `boundary` is a
    symbol list or None (urllib3 chooses)."""
    arg = build(fields, style)
    if arg is None:
        return None
    enc = _mods()[0]
    _prelude(enc, sym_text(boundary) if boundary is not None else None)
    body, ct = enc(arg, boundary=sym_text(boundary) if boundary is not None else None)
    if not isinstance(body, bytes) or not isinstance(ct, str):
        raise TypeError(f"encode_multipart_formdata returned {type(body).__name__}, {type(ct).__name__}")
    return body, ct.encode("utf-8")


def trace_of(fields, explicit, boundary, body, ct):
    return {"fields": fields, "explicit": explicit, "boundary": boundary if explicit else [],
            "body": lex(body), "ct": lex(ct)}


def _structural(f):
    """Non-trivial field: its name/filename holds a symbol the escaping must neutralise, or its
    value holds a CR LF or a dash pair (delimiter look-alike)."""
    hot = {"Q", "CR", "LF"}
    d = f["data"]
    return bool(hot & set(f["name"])) or bool(hot & set(f["fn"])) or any(
        d[i:i + 2] in (["CR", "LF"], ["DA", "DA"]) for i in range(len(d) - 1))


# ------------------------------------------------------------------------------ TLC configurations
MC_CFG = """SPECIFICATION Spec
CONSTANTS Boundaries <- {bset}
  MaxFields = {mf}
  FieldPool <- {pool}
  StrLen = {sl}
  ShardK = {k}
  ShardS = {s}
{props}
CHECK_DEADLOCK FALSE
"""
INVARIANTS = ["TypeOK", "RoundTrip", "ContentTypeNamesBoundary", "EscapeIsSound", "NoParameterTermination",
              "NoHeaderInjection", "NoPartOpened"]
TRACE_CFG = """SPECIFICATION TSpec
CONSTANTS Boundaries <- TrNone
  MaxFields = 0
  FieldPool <- TrNone
CHECK_DEADLOCK FALSE
"""

# k = number of emission shards (each is one single-worker JVM exploring the whole graph and printing
# its share); JVM start-up dominates small plans, so the quick tier does not shard
QUICK = [dict(pool="PoolNames", bset="BHostile", mf=1, sl=3, k=2),
         dict(pool="PoolFilenames", bset="BHostile", mf=1, sl=3, k=3),
         dict(pool="PoolData", bset="BData", mf=1, sl=2, k=1),
         dict(pool="PoolMixed", bset="BHostile", mf=3, sl=1, k=2),
         dict(pool="PoolMixedSmall", bset="BStd", mf=4, sl=1, k=2)]
THOROUGH = [dict(pool="PoolNames", bset="BHostile", mf=1, sl=3, k=4),
            dict(pool="PoolFilenames", bset="BHostile", mf=1, sl=3, k=4),
            dict(pool="PoolData", bset="BData", mf=1, sl=3, k=4),
            dict(pool="PoolData", bset="BData", mf=2, sl=0, k=4),
            dict(pool="PoolMixed", bset="BHostile", mf=4, sl=1, k=12)]


class _R:
    def __init__(self, **kw):
        self.__dict__.update(kw)


def _cfg(plan, s, props):
    return MC_CFG.format(s=s, props=props, **plan)


def _stage1(plan):
    """Stage 1 for one plan: TLC checks the property's invariants exhaustively within the bounds."""
    r = tlc.run("MC_Multipart", _cfg(plan, 0, "\n".join("INVARIANT " + i for i in INVARIANTS)),
                workers=4, timeout=7200)
    return {"distinct": r.distinct, "generated": r.generated, "depth": r.depth, "wall": r.wall,
            "violated": r.violated}


# ------------------------------------------------------------------------------ stage 2/3
_FL = re.compile(r'<<"FL", "((?:[^"\\]|\\.)*)">>')


def _unq(s):
    return s.replace('\\\\', '\x00').replace('\\"', '"').replace('\x00', '\\')


def check_emitted(st, styles=STYLES):
    """Replay one emitted state into the real code.  -> (evaluations, [mismatch cases])."""
    want_body, want_ct = sym_bytes(st["enc"]), sym_bytes(st["ct"])
    if lex(want_body) != st["enc"] or lex(want_ct) != st["ct"]:
        raise tlc.MachineryError(f"symbol table is not invertible on {st['enc']}")
    n, bad = 0, []
    for style in styles:
        try:
            got = real_encode(st["fs"], style, st["b"])
        except Exception as ex:
            n += 1
            bad.append({"kind": "emitted", "style": style, "state": st, "raised": repr(ex)})
            continue
        if got is None:
            continue
        n += 1
        if got != (want_body, want_ct):
            # keep the bytes actually returned: the verdict must be on THIS output, not on a later re-encode
            bad.append({"kind": "emitted", "style": style, "state": st, "raised": None,
                        "got_body": lex(got[0]), "got_ct": lex(got[1])})
    return n, bad


def _shard(args):
    """One emission shard: run TLC (1 worker) and replay each printed state at once.  Every byte
    mismatch is classified by TLC (classify) inside the shard; counts per clause and a few cases per
    clause are returned."""
    plan, s = args
    acc = {"n": 0, "evals": 0, "nbad": 0, "nontriv": 0, "forms": set(), "adm": set(), "samples": [],
           "clauses": {}, "cases": [], "judged": 0}
    pending = []

    def flush():
        for clause, what, m in classify(pending, acc):
            acc["clauses"][clause] = acc["clauses"].get(clause, 0) + 1
            if acc["clauses"][clause] <= 5:
                acc["cases"].append((clause, what, m))
        del pending[:]

    def on_line(ln):
        if not ln.startswith('<<"FL"'):
            return False
        for m in _FL.finditer(ln):
            st = json.loads(_unq(m.group(1)))
            acc["n"] += 1
            acc["adm"].add(bool(st["adm"]))
            acc["forms"].update(f["form"] for f in st["fs"])
            if any(_structural(f) for f in st["fs"]):
                acc["nontriv"] += 1
                if len(acc["samples"]) < 1 and len(st["fs"]) >= 1:
                    acc["samples"].append({"boundary": st["b"], "fields": st["fs"],
                                           "model_body": sym_bytes(st["enc"]).decode("latin-1")})
            n, bad = check_emitted(st)
            acc["evals"] += n
            acc["nbad"] += len(bad)
            pending.extend(bad)
            if len(pending) >= 2000:
                flush()
        return True

    r = tlc.run("MC_Multipart", _cfg(plan, s, "CONSTRAINT Emit"), workers=1, on_line=on_line, timeout=7200)
    flush()
    acc.update(generated=r.generated, distinct=r.distinct, wall=r.wall, depth=r.depth)
    return acc


# ------------------------------------------------------------------------------ stage 4
def validate_traces(traces):
    """Batch verdicts by TLC.  -> (TLCResult, [(tid, position, clause)])."""
    r = tlc.run("Multipart_Trace", TRACE_CFG, workers=1, files={"traces.json": json.dumps(traces)},
                env={"TRACE_FILE": "traces.json"}, timeout=3600)
    verdicts = tlc.tagged_tuples(r.out, "VERDICT")
    if len(verdicts) != len(traces) or [v[0] for v in verdicts] != list(range(1, len(traces) + 1)):
        raise tlc.MachineryError(f"trace validation produced {len(verdicts)} verdicts for {len(traces)} traces\n"
                                 f"{r.out[-2000:]}")
    for v in verdicts:
        if v[2] in ("malformed-trace", "inadmissible-trace"):
            raise tlc.MachineryError(f"harness produced a {v[2]}: {traces[v[0] - 1]['fields']}")
    return r, verdicts


def _contains(hay, needle):
    n = len(needle)
    return any(hay[i:i + n] == needle for i in range(len(hay) - n + 1))


def _payloads(bnd):
    return [["Q", "SC", "SP", "filename", "EQ", "Q", "a"], ["CR", "LF", "Content-Type", "CO", "SP", "text/plain"],
            ["CR", "LF", "CR", "LF"], ["CR", "LF", "DA", "DA"] + bnd, ["CR", "LF", "DA", "DA"] + bnd + ["DA", "DA", "CR", "LF"],
            ["PC", "2", "2"], ["Q", "CR", "LF"], ["BS", "Q"]]


def _rand_syms(rng, alph, lo, hi, payloads, p_payload):
    out = [rng.choice(alph) for _ in range(rng.randint(lo, hi))]
    if payloads and rng.random() < p_payload:
        at = rng.randint(0, len(out))
        out[at:at] = rng.choice(payloads)
    return out


def random_case(rng):
    """A random field list beyond the exhaustive bounds, with boundary and input style."""
    explicit = rng.random() < 0.65
    bnd = ([rng.choice(["a", "b", "DA", "0", "2", "A", "D", "c"]) for _ in range(rng.randint(1, 5))]
           if explicit else None)
    pay = _payloads(bnd or ["b"])
    fields = []
    for _ in range(rng.choice([0, 1, 1, 2, 2, 3, 3, 4, 4, 5, 6])):
        form = rng.choice(["plain", "t2", "t3", "rf"])
        kind = rng.choice(["str", "bytes"])
        hasfn = form != "plain" and rng.random() < 0.75
        dalph = ["CR", "LF", "DA", "DA", "a", "b", "NA", "Q", "PC", "SC", "BS", "SP"] + (["FF"] if kind == "bytes" else [])
        dpay = [["CR", "LF", "DA", "DA"], ["CR", "LF", "DA", "DA"] + (bnd or ["b"])[:-1], ["DA"] * rng.randint(2, 6),
                ["CR", "LF", "CR", "LF"]]
        for _try in range(50):
            data = _rand_syms(rng, dalph, 0, 14, dpay, 0.5)
            if bnd is None or not _contains(data, bnd):
                break
        else:
            data = []
        fields.append({"form": form, "name": _rand_syms(rng, HOSTILE, 0, 8, pay, 0.35),
                       "hasfn": hasfn, "fn": _rand_syms(rng, HOSTILE + ["TXT"], 0, 8, pay, 0.35) if hasfn else [],
                       "ct": rng.choice(["", "text/plain", "image/jpeg"]) if form in ("t3", "rf") else "",
                       "loc": rng.choice(["", "/loc"]) if form == "rf" else "", "kind": kind, "data": data})
    styles = [s for s in STYLES if build(fields, s) is not None]
    return {"kind": "trace", "fields": fields, "explicit": explicit, "boundary": bnd, "style": rng.choice(styles)}


def run_case(case):
    """Encode with the real code -> trace record for TLC, or ('raised', repr)."""
    try:
        body, ct = real_encode(case["fields"], case["style"], case["boundary"] if case["explicit"] else None)
    except Exception as ex:
        return ("raised", repr(ex))
    return trace_of(case["fields"], case["explicit"], case["boundary"], body, ct)


def _val_shard(args):
    seed, n = args
    rng = random.Random(seed)
    cases = [random_case(rng) for _ in range(n)]
    traces, idx, raised = [], [], []
    for c in cases:
        t = run_case(c)
        if isinstance(t, tuple):
            raised.append((c, t[1]))
        else:
            traces.append(t)
            idx.append(c)
    r, verdicts = validate_traces(traces)
    bad = [(idx[tid - 1], pos, clause) for tid, pos, clause in verdicts if clause != "ok"]
    bad.sort(key=lambda x: x[2] == "drift")     # violations first: the report below is capped
    nontriv = sum(1 for c in idx if any(_structural(f) for f in c["fields"]))
    randb = sum(1 for c in idx if not c["explicit"])
    return {"n": len(traces), "bad": bad[:20], "nbad": len(bad), "raised": raised[:20], "nontriv": nontriv,
            "randb": randb, "distinct": r.distinct, "generated": r.generated,
            "sample": {"fields": idx[0]["fields"], "style": idx[0]["style"], "explicit_boundary": idx[0]["boundary"],
                       "real_body": sym_bytes(traces[0]["body"]).decode("latin-1") if all(
                           s in SYM for s in traces[0]["body"]) else "<unlexable>"}}


# ------------------------------------------------------------------------------ verdict plumbing
def _facts(clause, fields, style):
    return {"clause": clause, "style": style, "forms": sorted({f["form"] for f in fields})}


def _report(rep, findings, clause, what, case, fields, style):
    if clause == "drift":
        rep.drift.append(what)
        return
    f = known.match(findings, _facts(clause, fields, style))
    if f:
        rep.known.append((f["id"], f["what"]))
    else:
        rep.violation(clause, what, case)


def classify(bads, counters):
    """Byte mismatches of stage 3 are decided by TLC: the real output is lexed and judged by
    Multipart_Trace (a violation clause, or 'drift' when it still parses back to exactly the
    fields).  -> [(clause, what, case)]"""
    out, todo = [], []
    for m in bads:
        st = m["state"]
        if m["raised"]:
            out.append(("EncoderRaised", f"style {m['style']}: {m['raised']}", m))
        elif not st["adm"]:
            # boundary occurs in the data: outside the statement's precondition, the parse-back verdict
            # is not defined; byte inequality with the reference layout is reported as drift
            out.append(("drift", f"inadmissible state differs from the reference layout (style {m['style']})", m))
        else:
            todo.append((m, {"fields": st["fs"], "explicit": True, "boundary": st["b"], "body": m["got_body"], "ct": m["got_ct"]}))
    for i in range(0, len(todo), 1000):
        chunk = todo[i:i + 1000]
        r, verdicts = validate_traces([t for _, t in chunk])
        counters["judged"] += len(chunk)
        for (m, _), (tid, pos, clause) in zip(chunk, verdicts):
            if clause == "ok":
                raise tlc.MachineryError("bytes differ from the model's Encode but TLC says identical: symbol table broken")
            out.append((clause, f"style {m['style']}: real output differs from the model's Encode; TLC verdict at "
                                f"part {pos}: {clause}", m))
    return out


def run(rep):
    quick = rep.tier == "quick"
    plans = QUICK if quick else THOROUGH
    findings = known.load("C20")
    rep.rule = ("stage 2/3: every (boundary, field list) state TLC explores is replayed into encode_multipart_formdata in "
                "up to 5 input shapes and compared byte-for-byte with the model's Encode; stage 4: random lists of 0-6 "
                "fields (names/filenames/values up to ~20 symbols with injection payloads) are encoded by the real code "
                "and judged by TLC's strict Parse. A case is non-trivial when a name/filename holds a quote, CR or LF, or "
                "a value holds CR LF or a dash pair; distinct_nontrivial counts distinct such states / traces.")
    rep.assumptions = ["field content restricted to the property's hostile alphabet plus '.txt', 0xFF and injection payload words",
                       "boundaries restricted to RFC 2046 boundary characters", "header values (content type / location) are benign tokens",
                       "the symbol<->bytes table (longest-match lexer) is trusted; it is cross-checked to be invertible on every emitted body",
                       "TLC 1.8 and CPython are trusted"]
    forms, adm = set(), set()
    with mp.Pool(16) as pool:
        # everything is queued at once; the pool runs at most 16 JVMs side by side
        ntr, per = (4800, 800) if quick else (64000, 4000)
        s1jobs = [pool.apply_async(_stage1, (plan,)) for plan in plans]
        ejobs_all = [pool.map_async(_shard, [(plan, s) for s in range(plan["k"])]) for plan in plans]
        vjobs = pool.map_async(_val_shard, [(rep.seed * 100003 + s, per) for s in range(ntr // per)])
        # canary: TLC must refute "the unescaped layout round-trips"
        can = tlc.run("MC_Multipart", _cfg(QUICK[3], 0, "INVARIANT CanaryUnescapedRoundTrips"), workers=2,
                      timeout=3600, expect_fail=True)
        if can.violated != ["CanaryUnescapedRoundTrips"]:
            raise tlc.MachineryError(f"canary not refuted by TLC (violated={can.violated}): Parse/Judge have no teeth")
        rep.extra["canary"] = "CanaryUnescapedRoundTrips refuted by TLC as required"
        for plan, s1job, ejobs in zip(plans, s1jobs, ejobs_all):
            # stage 1: the property itself, exhaustively within the plan's bounds
            r1 = _R(**s1job.get())
            name = "MC_Multipart pool={pool} boundaries={bset} MaxFields={mf} StrLen={sl}".format(**plan)
            for inv in r1.violated:
                rep.violation("Spec:" + inv, f"TLC: invariant {inv} violated in the reference model ({name})",
                              {"kind": "spec", "plan": plan, "invariant": inv})
            outs = ejobs.get()
            total = sum(o["n"] for o in outs)
            if not r1.violated and (total != r1.distinct or any(o["distinct"] != r1.distinct for o in outs)):
                raise tlc.MachineryError(f"emission incomplete for {name}: {total} states parsed, TLC found {r1.distinct}")
            rep.states += r1.distinct
            rep.transitions += r1.generated
            evals = sum(o["evals"] for o in outs)
            rep.stage1.append({"run": name, "invariants": INVARIANTS, "distinct_states": r1.distinct,
                               "states_generated": r1.generated, "depth": r1.depth, "wall_s": round(r1.wall, 1),
                               "states_emitted_and_replayed": total, "real_encodings_compared": evals,
                               "emission_wall_s": round(max(o["wall"] for o in outs), 1)})
            if evals < 2 * total:
                raise tlc.MachineryError(f"only {evals} encodings for {total} emitted states")
            rep.evaluations += evals
            nt = sum(o["nontriv"] for o in outs)
            rep.nontrivial.update((name, x) for x in range(nt))
            for o in outs:
                forms |= o["forms"]
                adm |= o["adm"]
                for s in o["samples"]:
                    rep.sample(s, cap=3)
            nbad = sum(o["nbad"] for o in outs)
            if nbad != sum(sum(o["clauses"].values()) for o in outs):
                raise tlc.MachineryError(f"{nbad} byte mismatches but not all were classified by TLC")
            rep.traces += sum(o["judged"] for o in outs)
            for o in outs:
                for clause, what, m in o["cases"]:
                    _report(rep, findings, clause, f"{what} [{o['clauses'][clause]} such cases in this shard]", m,
                            m["state"]["fs"], m["style"])
            mm = rep.extra.setdefault("byte_mismatches_by_tlc_clause", {})
            for o in outs:
                for c, k in o["clauses"].items():
                    mm[c] = mm.get(c, 0) + k
        vouts = vjobs.get()
    if forms != {"plain", "t2", "t3", "rf"} or adm != {True, False}:
        raise tlc.MachineryError(f"emission did not cover all input forms / both precondition values: {forms} {adm}")
    randb = 0
    for o in vouts:
        rep.traces += o["n"]
        rep.evaluations += o["n"] + len(o["raised"])
        randb += o["randb"]
        base = len(rep.nontrivial)
        rep.nontrivial.update(("trace", base + x) for x in range(o["nontriv"]))
        for c, why in o["raised"]:
            _report(rep, findings, "EncoderRaised", f"style {c['style']}: {why}", c, c["fields"], c["style"])
        for c, pos, clause in o["bad"]:
            _report(rep, findings, clause,
                    f"real output (style {c['style']}, {'explicit' if c['explicit'] else 'random'} boundary) rejected by "
                    f"TLC at part {pos}: {clause}", c, c["fields"], c["style"])
    if sum(o["n"] for o in vouts) < 0.9 * ntr or randb == 0:
        raise tlc.MachineryError(f"stage 4 validated only {sum(o['n'] for o in vouts)} of {ntr} traces ({randb} random-boundary)")
    rep.sample({"trace": vouts[0]["sample"]}, cap=4)
    rep.extra["traces_with_urllib3_chosen_boundary"] = randb
    rep.extra["input_styles"] = STYLES
    rep.exhaustive = True


def replay(rep, path):
    with open(path) as fh:
        doc = json.load(fh)
    case = doc["case"]
    findings = []
    if case["kind"] == "emitted":
        n, bad = check_emitted(case["state"], styles=[case["style"]])
        rep.evaluations += n
        cnt = {"judged": 0}
        for clause, what, m in classify(bad, cnt):
            _report(rep, findings, clause, what, m, m["state"]["fs"], m["style"])
        rep.traces += cnt["judged"]
    elif case["kind"] == "trace":
        t = run_case(case)
        rep.evaluations += 1
        if isinstance(t, tuple):
            rep.violation("EncoderRaised", f"style {case['style']}: {t[1]}", case)
        else:
            r, verdicts = validate_traces([t])
            rep.traces += 1
            for tid, pos, clause in verdicts:
                if clause == "drift":
                    rep.drift.append("real output parses back but differs from the model's Encode")
                elif clause != "ok":
                    rep.violation(clause, f"real output rejected by TLC at part {pos}: {clause}", case)
    else:
        r1 = tlc.run("MC_Multipart", _cfg(case["plan"], 0, "INVARIANT " + case["invariant"]), workers=8, timeout=7200)
        rep.add_tlc("replay", r1)
        if r1.violated:
            rep.violation("Spec:" + case["invariant"], "TLC: invariant violated in the reference model", case)
    rep.rule = "replay of one recorded case"
    rep.nontrivial.update({1, 2})
    rep.states = rep.states or 1
    rep.transitions = rep.transitions or 1
