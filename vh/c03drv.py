"""C03 driver: runs one request/response-pairing history against the real HTTPConnectionPool over the
in-memory network (vh/net.py, inline peer) and records what happened as ground truth.

A *history* is what spec/MC_Exchange.tla emits (or what the seeded random generator builds):

    {"maxsize": 1|2, "retries": 0|1, "seg": "slurp"|"exact",
     "steps": [{"sc": <server script>, "op": <caller op>}, ...]}

server script (how the peer answers every attempt of that request):
    fr     "cl" | "chunked" | "close" (close-delimited) | "bodyless"
    sub    "204" | "304" | "head" | "103"      (bodyless only; picks status / method)
    len    body units announced by the framing (0 for bodyless)
    cut    9 (none), or the number of body units written before the peer closes (early EOF)
    ka     True keep-alive / False "Connection: close" + the peer closes after the reply
    extra  "none" | "stray" | "smuggle"   unsolicited bytes written in the SAME segment as the reply
    after  "none" | "stray" | "smuggle" | "partial" (a partial status line) | "pre" (the prefix alone) | "eof"
           done by the peer on the idle connection after the caller's op and BEFORE the next checkout
    pre    "none" | "crlf" | "crlfcrlf" | "sp" | "lf" | "htab"   bytes put in front of extra / after
    late   number of trailing units (body cells / chunk terminator) withheld until the next request
           arrives on that connection (suspect S4: a body tail still in flight); 0 in the hard class
    shape  "cells" | "http": with "http" the body is  cell, <a 6-unit block that looks like a response
           head announcing 2 units>, cell, cell  -- still ordinary body bytes of that reply
caller op:
    kind   "preload" | "read" | "readk" | "release" | "drain" | "close" | "stream" | "ignore" |
           "streamk" (take k pieces of stream() then abandon the generator: how = break | close | gc, then
           release_conn()) | "read1" (read1(big) once, release_conn()) | "read1loop" (read1(big) until empty)
    k      units for readk
    hold   True: the caller keeps a reference to the response object until the end of the history;
           False: it lets go of it right after the op (refcount -> IOBase.__del__ -> close())

Every byte the peer writes carries its origin: the head has an X-Tag header, every body / stray /
smuggled unit is a fixed-size cell  [<kind><rid>c<cid>n<ordinal>#<offset>]  (kind r = reply body,
s = stray, m = smuggled response), so any foreign or unsolicited byte in a delivered body is visible.
All sizes are multiples of UNIT so that with seg="exact" (recv limited to UNIT bytes) a buffered reader
never holds more than the unit being consumed, and with seg="slurp" it takes everything the kernel has.

Nothing here judges the property: the recorded events go to TLC (spec/Exchange_Trace.tla).
"""
from __future__ import annotations

import gc
import re
import socket
import warnings

from . import net as vnet

UNIT = 32
HEAD = 192          # every response head is padded to exactly this many bytes (6 units)
HOST = "h.test"

_CELL = re.compile(rb"\[([rsm])(\d\d)c(\d\d)n(\d\d)#(\d\d\d)\]\.*")
_TAG = re.compile(r"^([rsm])(\d\d)c(\d\d)n(\d\d)$")

NOCUT = 9
NOTAG = {"t": "none", "k": "none", "r": 0, "s": 0, "n": 0, "i": 0}


def cell(kind: str, rid: int, cid: int, n: int, i: int, size: int = UNIT) -> bytes:
    c = b"[%s%02dc%02dn%02d#%03d]" % (kind.encode(), rid, cid, n, i)
    return c + b"." * (size - len(c))


def head(kind: str, rid: int, cid: int, n: int, status: int, lines: list, size: int = 0) -> bytes:
    reason = {200: "OK", 204: "No Content", 304: "Not Modified", 103: "Early Hints"}[status]
    h = f"HTTP/1.1 {status} {reason}\r\nX-Tag: {kind}{rid:02d}c{cid:02d}n{n:02d}\r\n" + "".join(x + "\r\n" for x in lines)
    pad = (size or HEAD) - len(h) - len("X-Pad: \r\n\r\n")
    if pad < 1:
        raise AssertionError("head too long")
    return (h + "X-Pad: " + "p" * pad + "\r\n\r\n").encode("latin-1")


def chunk(data: bytes) -> bytes:
    assert len(data) == UNIT - 6
    return b"%x\r\n" % len(data) + data + b"\r\n"


LAST_CHUNK = b"0;" + b"x" * (UNIT - 6) + b"\r\n\r\n"       # one unit: terminator + empty trailer
# chunked + shape "http": ONE chunk (cell, head-shaped block, cell, cell) so that the tail in flight starts
# in the middle of chunk data.  Its size line is one unit glued to the (shortened) head; the CRLF closing the
# chunk is glued to the terminator unit.
BIG_CHUNK_LEN = 3 * UNIT + HEAD
BIG_CHUNK_HDR = b"%x;" % BIG_CHUNK_LEN + b"x" * (UNIT - 2 - len(b"%x;" % BIG_CHUNK_LEN)) + b"\r\n"
BIG_CHUNK_END = b"\r\n0;" + b"x" * (UNIT - 8) + b"\r\n\r\n"
READ1_BIG = 1 << 16
HOWS = ("break", "close", "gc")


def parse_cells(data: bytes, size: int) -> list:
    """Delivered bytes -> list of unit records (mechanical tokenisation, no judgement)."""
    out = []
    for off in range(0, len(data), size):
        piece = data[off: off + size]
        m = _CELL.fullmatch(piece) if len(piece) == size else None
        if m is None:
            out.append({"t": "junk", "k": "junk", "r": 0, "s": 0, "n": 0, "i": 0})
        else:
            out.append({"t": m.group(1).decode(), "k": "cell", "r": int(m.group(2)), "s": int(m.group(3)),
                        "n": int(m.group(4)), "i": int(m.group(5))})
    return out


def parse_tag(value) -> dict:
    m = _TAG.match(value or "")
    if not m:
        return dict(NOTAG, t="junk" if value else "none")
    return {"t": m.group(1), "k": "head", "r": int(m.group(2)), "s": int(m.group(3)), "n": int(m.group(4)), "i": 0}


class PeekVSocket(vnet.VSocket):
    """vh/net.py's VSocket.recv drops its flags, so recv(1, MSG_PEEK) would CONSUME a byte there (a harness
    artefact that garbles the next status line and hides a probe that peeks).  Honour MSG_PEEK: look at the
    kernel buffer without taking anything out of it and without logging a RECV."""

    def recv(self, bufsize, flags=0):
        if flags & socket.MSG_PEEK:
            self._peer.pump()
            try:
                return socket.socket.recv(self, bufsize, flags | socket.MSG_DONTWAIT)
            except (BlockingIOError, InterruptedError):
                raise socket.timeout("timed out") from None
        return super().recv(bufsize)

    def recv_into(self, buffer, nbytes=0, flags=0):
        if flags & socket.MSG_PEEK:
            self._peer.pump()
            try:
                return socket.socket.recv_into(self, buffer, nbytes, flags | socket.MSG_DONTWAIT)
            except (BlockingIOError, InterruptedError):
                raise socket.timeout("timed out") from None
        return super().recv_into(buffer, nbytes)


class PeekNet(vnet.Net):
    def create_connection(self, *a, **k):
        vs = super().create_connection(*a, **k)
        vs.__class__ = PeekVSocket
        return vs


class World:
    """One history: network, scripted peers, pool, ground-truth registers."""

    def __init__(self, hist: dict):
        self.hist = hist
        self.plan = {}            # rid -> script
        self.sent = {}            # (rid, cid, n) -> body units actually written for that reply so far
        self.arrivals = []        # per request arrival at a peer: dict(rid, s, n, kpend)
        self.probes = []          # (cid or 0, "alive" | "dropped")
        self.written = {}         # cid -> bytes the peer wrote
        self.withheld = {}        # cid -> bytes still to be written (S4 tail)
        self.withheld_key = {}    # cid -> (key, units)
        self._cursor = 0
        self._recvd = {}
        self.net = PeekNet(self._respond, scripts=self._script)
        self.unit_size = {}       # rid -> bytes per delivered body unit

    # -- ground truth accounting ------------------------------------------------------------
    def _script(self, cid, address):
        return {"seg": UNIT} if self.hist["seg"] == "exact" else {}

    def received(self, cid: int) -> int:
        log = self.net.log
        while self._cursor < len(log):
            e = log[self._cursor]
            if e[0] == "RECV":
                self._recvd[e[1]] = self._recvd.get(e[1], 0) + e[2]
            self._cursor += 1
        return self._recvd.get(cid, 0)

    def kernel_pending(self, cid: int) -> int:
        return self.written.get(cid, 0) - self.received(cid)

    def _write(self, peer, data: bytes):
        self.written[peer.cid] = self.written.get(peer.cid, 0) + len(data)

    # -- the scripted server ----------------------------------------------------------------
    def _respond(self, peer, req):
        rid = int(req.target.rsplit("r", 1)[1])
        cid, n = peer.cid, len(peer.requests)
        sc = self.plan[rid]
        # ground truth at arrival: bytes written earlier on this connection the client has not received
        self.arrivals.append({"r": rid, "s": cid, "n": n, "kpend": self.kernel_pending(cid) > 0})
        pre = self.withheld.pop(cid, b"")
        vs = self.net.socks[cid]()
        if pre:
            key, units = self.withheld_key.pop(cid)
            self.sent[key] += units
        fr, ln, cut = sc["fr"], sc["len"], sc["cut"]
        if fr == "drop":                   # the peer closes without answering
            self.sent[(rid, cid, n)] = 0
            self._write(peer, pre)
            return vnet.Reply(data=pre, close=True)
        nocut = cut == NOCUT
        late = sc.get("late", 0) if nocut else 0
        lines, status = [], 200
        head_size, term = HEAD, LAST_CHUNK
        if sc.get("shape") == "http":      # abstract units: cell, head-shaped block, cell, cell
            assert fr in ("cl", "chunked") and ln == 4
            if fr == "cl":
                lines.append(f"Content-Length: {BIG_CHUNK_LEN}")
            else:
                lines.append("Transfer-Encoding: chunked")
                head_size, term = HEAD - UNIT, BIG_CHUNK_END
            body_units = [cell("r", rid, cid, n, 0), head("r", rid, cid, n, 200, [f"Content-Length: {2 * UNIT}"]),
                          cell("r", rid, cid, n, 1), cell("r", rid, cid, n, 2)]
        elif fr == "chunked":
            lines.append("Transfer-Encoding: chunked")
            body_units = [chunk(cell("r", rid, cid, n, i, UNIT - 6)) for i in range(ln)]
        elif fr == "bodyless":
            sub = sc.get("sub", "204")
            status = {"204": 204, "304": 304, "head": 200, "103": 103}[sub]
            if sub == "head":
                lines.append(f"Content-Length: {2 * UNIT}")     # HEAD: length of the absent body
            body_units = []
        else:
            if fr == "cl":
                lines.append(f"Content-Length: {ln * UNIT}")
            body_units = [cell("r", rid, cid, n, i) for i in range(ln)]
        if not sc["ka"]:
            lines.append("Connection: close")
        if not nocut:
            body_units = body_units[:cut]
        head_bytes = head("r", rid, cid, n, status, lines, head_size)
        if head_size != HEAD:
            head_bytes += BIG_CHUNK_HDR
        now_units = [head_bytes] + body_units + ([term] if fr == "chunked" and nocut else [])
        later_units = []
        if late:                           # trailing units (possibly the whole reply) are still in flight
            keep = len(now_units) - late
            now_units, later_units = now_units[:keep], now_units[keep:]
        is_cell = lambda u: u is not term and u is not head_bytes and not u.startswith(b"HTTP/")
        nbody = sum(1 for u in body_units if is_cell(u))
        data = b"".join(now_units)
        cells_now = sum(1 for u in now_units if is_cell(u))
        self.sent[(rid, cid, n)] = cells_now
        if later_units:
            self.withheld[cid] = b"".join(later_units)
            self.withheld_key[cid] = ((rid, cid, n), nbody - cells_now)
        if vs is not None:
            # while a tail is withheld the peer has nothing more to say: a client read must time out
            # (virtually) instead of stalling the inline harness
            vs._script["never_answers"] = bool(later_units)
        closes = (not nocut) or not sc["ka"] or fr == "close"
        if not closes and not later_units:
            data += self.unsolicited(sc["extra"], rid, cid, n, sc.get("pre", "none"))
        self._write(peer, pre + data)
        return vnet.Reply(data=pre + data, close=closes)

    PREFIX = {"none": b"", "crlf": b"\r\n", "crlfcrlf": b"\r\n\r\n", "sp": b" ", "lf": b"\n", "htab": b"\t"}

    def unsolicited(self, what: str, rid: int, cid: int, n: int, pre: str = "none") -> bytes:
        if what == "none":
            return b""
        return self.PREFIX[pre] + self._payload(what, rid, cid, n)

    def _payload(self, what: str, rid: int, cid: int, n: int) -> bytes:
        if what == "partial":
            return b"HTTP/1.1 2"
        if what == "stray":
            return cell("s", rid, cid, n, 0) + cell("s", rid, cid, n, 1)
        if what == "smuggle":
            return head("m", rid, cid, n, 200, [f"Content-Length: {2 * UNIT}"]) + cell("m", rid, cid, n, 0) + cell("m", rid, cid, n, 1)
        return b""

    def after(self, what: str, rid: int, cid: int, n: int, pre: str = "none") -> bool:
        """Peer activity on an idle connection, a later segment before the next checkout."""
        peer = self.net.peers.get(cid)
        if peer is None or peer.closed:
            return False
        if what == "eof":
            if pre != "none":
                peer.outbuf += self.PREFIX[pre]
                self._write(peer, self.PREFIX[pre])
                peer._flush()
            peer.close()
            return True
        data = self.unsolicited(what, rid, cid, n, pre)
        peer.outbuf += data
        self._write(peer, data)
        peer._flush()
        return True


def _conn_cls(world):
    from urllib3.connection import HTTPConnection

    class ProbedConnection(HTTPConnection):
        """Public ConnectionCls seam: only *logs* the checkout probe, never changes its result."""

        @property
        def is_connected(self):
            res = HTTPConnection.is_connected.fget(self)
            cid = getattr(self.sock, "_cid", 0) if self.sock is not None else 0
            world.probes.append({"s": cid, "res": "alive" if res else "dropped"})
            return res

    return ProbedConnection


def _classify(ex) -> tuple:
    from urllib3.exceptions import HTTPError
    if isinstance(ex, HTTPError):
        return "urllib3", type(ex).__name__
    return "raw", type(ex).__name__


def run_history(hist: dict) -> dict:
    """Execute one history on the current tree; return the recorded trace (JSON-able)."""
    import urllib3
    from urllib3.util.retry import Retry

    w = World(hist)
    events = []
    held = []
    with warnings.catch_warnings():
        warnings.simplefilter("ignore")
        with w.net:
            pool = urllib3.HTTPConnectionPool(HOST, 80, maxsize=hist["maxsize"], timeout=0.05,
                                              retries=Retry(hist["retries"], redirect=False))
            pool.ConnectionCls = _conn_cls(w)
            for idx, step in enumerate(hist["steps"]):
                rid = idx + 1
                sc, op = step["sc"], step["op"]
                w.plan[rid] = sc
                method = "HEAD" if (sc["fr"] == "bodyless" and sc.get("sub") == "head") else "GET"
                a0, p0 = len(w.arrivals), len(w.probes)
                ev = {"e": "req", "rid": rid, "sc": sc, "out": "response", "err": "", "hdr": dict(NOTAG), "status": 0}
                r = None
                try:
                    r = pool.urlopen(method, f"/r{rid}", preload_content=(op["kind"] == "preload"))
                except Exception as ex:   # BaseException (HarnessStall) propagates: machinery
                    ev["out"], ev["err"] = _classify(ex)
                ev["att"] = [dict(a, first=(a["n"] == 1)) for a in w.arrivals[a0:]]
                ev["probes"] = w.probes[p0:]
                if r is not None:
                    ev["hdr"] = parse_tag(r.headers.get("X-Tag"))
                    ev["status"] = int(r.status)
                events.append(ev)
                if r is not None:
                    usz = UNIT - 6 if (sc["fr"] == "chunked" and sc.get("shape") != "http") else UNIT
                    got, res, err = b"", "ok", ""
                    try:
                        k = op["kind"]
                        if k == "preload":
                            got = r.data
                        elif k == "read":
                            got = r.read()
                        elif k == "readk":
                            got = r.read(op["k"] * usz)
                            r.release_conn()
                        elif k == "release":
                            r.release_conn()
                        elif k == "drain":
                            r.drain_conn()
                        elif k == "close":
                            r.close()
                            r.release_conn()
                        elif k == "stream":
                            for piece in r.stream(usz):
                                got += piece
                        elif k == "ignore":
                            pass
                        elif k == "streamk":       # take k pieces, then abandon the generator
                            how, taken = op.get("how", "break"), 0
                            if how == "break":
                                for piece in r.stream(usz):
                                    got += piece
                                    taken += 1
                                    if taken >= op["k"]:
                                        break
                            else:
                                gen = r.stream(usz)
                                for piece in gen:
                                    got += piece
                                    taken += 1
                                    if taken >= op["k"]:
                                        break
                                if how == "close":
                                    gen.close()
                                else:
                                    del gen
                                    gc.collect()
                            r.release_conn()
                        elif k == "read1":         # one read1 asking for (more than) everything, then release
                            got = r.read1(READ1_BIG)
                            r.release_conn()
                        elif k == "read1loop":     # read1 asking for everything until it returns nothing
                            while True:
                                piece = r.read1(READ1_BIG)
                                if not piece:
                                    break
                                got += piece
                            r.release_conn()
                        else:
                            raise AssertionError(k)
                    except Exception as ex:
                        res, err = _classify(ex)
                    h = ev["hdr"]
                    # the reply this response claims to be (by its X-Tag) -> what the peer wrote for it
                    sentn = w.sent.get((h["r"], h["s"], h["n"]), 0) if h["t"] == "r" else 0
                    deliv = parse_cells(got or b"", usz)
                    if any(u["t"] == "junk" for u in deliv):      # tokenise with the other cell size if that fits
                        alt = parse_cells(got, UNIT if usz != UNIT else UNIT - 6)
                        if not any(u["t"] == "junk" for u in alt):
                            deliv = alt
                    events.append({"e": "op", "rid": rid, "op": op, "res": res, "err": err, "deliv": deliv, "sentn": sentn})
                    if op.get("hold") or op["kind"] == "ignore":
                        held.append(r)
                    del r
                    if sc["after"] != "none" and h["t"] == "r":
                        if w.after(sc["after"], h["r"], h["s"], h["n"], sc.get("pre", "none")):
                            events.append({"e": "after", "rid": rid, "what": sc["after"], "s": h["s"]})
            dials = len(w.net.dials)
            held.clear()
            pool.close()
    return {"hist": hist, "ev": events, "dials": dials}
