"""C07 -- an HTTPS request is sent only over a connection verified as configured.

stage 1  TLC checks spec/TLSVerify.tla on the lattice (cfg x server): the three clauses of the
         statement as invariants on every state of the implementation-shaped model, Monotone,
         WithinExpectation, step-ordering action properties (+ termination in thorough); coverage is
         read back (every model action and every outcome class must be reached, no anomalous
         outcome).  Run with KnownDefects = {} (the design the property asks for: every clause
         strict) and with KnownDefects = all on the affected route (the code as it is: the warning
         clause may fail only on the recorded signature, and must fail there).
stage 2  TLC (spec/MC_TLSVerify.tla) enumerates the lattice by index and EMITS lattice points with
         the Rules' three-valued expectation and the Model's predicted observation.  quick: a 2-way
         covering array of the factor table TLC printed + every point within two settings of the
         default + a seeded sample; thorough: the whole lattice, sharded.
stage 3  every emitted point is executed against the real urllib3: real TLS handshake over the
         create_connection seam against a trustme-minted party (vh/tlsnet.py) that records, on the
         SERVER side, handshake / SNI / CONNECT / request bytes / EOF; pyOpenSSL points run in
         separate worker processes after inject_into_urllib3().
stage 4  the recorded facts go back to TLC (spec/TLSVerify_Trace.tla): the same Rules clauses give
         the hard verdict per trace, comparison with the Model's run gives the drift verdict.
Python never decides the property: it chooses which indices to run, drives the code, renames
fields, counts, and matches TLC's failing traces against known_findings.d/C07.json.
"""
from __future__ import annotations

import itertools
import json
import multiprocessing as mp
import os
import random

from . import known, tlc

STAGE1_CFG = """SPECIFICATION Spec
CONSTANTS Routes <- {routes}
  Backends <- AllBackends
  Hosts <- {hosts}
  Sans <- {sans}
  KnownDefects <- {defects}
  EmitMode = "sel"
  ShardLo = 0
  ShardHi = 0
  ShardK = 1
  ShardS = 0
INVARIANT TypeOK
INVARIANT SentImpliesDemandedPassed
INVARIANT FailedCheckRaisesSSLErrorAndCloses
{strict}
INVARIANT Monotone
INVARIANT WithinExpectation
INVARIANT PureRunAgrees
INVARIANT IndexRoundTrip
PROPERTY NoRequestByteBeforeValidation
PROPERTY WarningDecidedBeforeRequest
PROPERTY RaiseClosesSocket
PROPERTY VerifiedNeverRevised
{live}CHECK_DEADLOCK FALSE
"""
STRICT = "INVARIANT UnverifiedWarnedAndNotReportedVerified\nINVARIANT NoAnomalousOutcome"
MODULO_KNOWN = ("INVARIANT UnverifiedWarned_ModuloKnown\nINVARIANT NoAnomalous_ModuloKnown\n"
                "INVARIANT KnownDefectAlwaysShows")
EMIT_CFG = """SPECIFICATION EmitSpec
CONSTANTS Routes <- AllRoutes
  Backends <- AllBackends
  Hosts <- AllHosts
  Sans <- AllSans
  KnownDefects <- AllKnownDefects
  EmitMode = "{mode}"
  ShardLo = {lo}
  ShardHi = {hi}
  ShardK = {k}
  ShardS = {s}
ACTION_CONSTRAINT Emit
CHECK_DEADLOCK FALSE
"""
TRACE_CFG = """SPECIFICATION TSpec
CONSTANTS Routes <- TrRoutes
  Backends <- TrBackends
  Hosts <- TrHosts
  Sans <- TrSans
  KnownDefects <- AllKnownDefects
CHECK_DEADLOCK FALSE
"""
MODEL_ACTIONS = ["PriorConnection", "DeriveCertReqs", "Dial", "ProxyHandshake", "Tunnel", "BuildContext", "DecideWhoChecksHostname",
                 "LoadCAs", "Handshake", "AssertFingerprint", "MatchHostname", "NoPostHandshakeCheck", "ComputeIsVerified",
                 "Warn", "SendRequest"]
CLASSES = ["SSLErrorBeforeRequest", "SentVerified", "SentUnverifiedWarned", "ConfigRefused"]
NWORKERS = int(os.environ.get("VERIF_JOBS") or 0) or os.cpu_count() or 4   # size of every process pool
QUICK_POINTS = 4096


def tagged_strings(out, tag):
    """Payloads of TLC lines  "tag|payload"  (PrintT of a plain string: never wrapped by TLC)."""
    pre = '"' + tag + "|"
    res = []
    for ln in out.splitlines():
        if ln.startswith(pre) and ln.endswith('"'):
            res.append(ln[len(pre):-1].replace('\\\\', '\x00').replace('\\"', '"').replace('\x00', '\\'))
    return res


# ------------------------------------------------------------------------------------ selection
def covering_array(radices, rng, allowed_last):
    """Greedy 2-way covering array over the index space (AETG style).  Rows are level-index tuples;
    the last factor (stack) is restricted to `allowed_last`."""
    n = len(radices)
    doms = [list(range(r)) for r in radices]
    doms[-1] = list(allowed_last)
    uncovered = set()
    for a, b in itertools.combinations(range(n), 2):
        for x in doms[a]:
            for y in doms[b]:
                uncovered.add((a, x, b, y))
    rows = []
    while uncovered:
        best, gain = None, -1
        lst = sorted(uncovered)
        seed_pair = lst[rng.randrange(len(lst))]
        for _ in range(40):
            row = [rng.choice(d) for d in doms]
            row[seed_pair[0]], row[seed_pair[2]] = seed_pair[1], seed_pair[3]
            g = sum(1 for a, b in itertools.combinations(range(n), 2) if (a, row[a], b, row[b]) in uncovered)
            if g > gain:
                best, gain = row, g
        rows.append(tuple(best))
        for a, b in itertools.combinations(range(n), 2):
            uncovered.discard((a, best[a], b, best[b]))
    return rows


def encode(row, radices):
    i, mult = 0, 1
    for x, r in zip(row, radices):
        i += x * mult
        mult *= r
    return i


def select_quick(lattice, seed, total, stacks):
    """Indices to run in the quick tier: pairwise cover + seeded uniform sample (deterministic)."""
    radices = [len(f["levels"]) for f in lattice["factors"]]
    rng = random.Random(seed * 7919 + 17)
    rows = covering_array(radices, rng, stacks)
    sel = {encode(r, radices) for r in rows}
    npair = len(sel)
    # verify the 2-way coverage that was promised (never silently less)
    need = set()
    doms = [list(range(r)) for r in radices]
    doms[-1] = list(stacks)
    for a, b in itertools.combinations(range(len(radices)), 2):
        need |= {(a, x, b, y) for x in doms[a] for y in doms[b]}
    for r in rows:
        for a, b in itertools.combinations(range(len(radices)), 2):
            need.discard((a, r[a], b, r[b]))
    if need:
        raise tlc.MachineryError(f"covering array incomplete: {len(need)} pairs uncovered")
    # every point at most two settings away from the all-default request to a good server (index 0:
    # first level of every factor) -- the single- and double-deviation scenarios
    ball = set()
    n = len(radices)
    for a in range(n):
        for x in doms[a]:
            ball.add(encode([x if f == a else 0 for f in range(n)], radices))
            for b in range(a + 1, n):
                for y in doms[b]:
                    ball.add(encode([x if f == a else y if f == b else 0 for f in range(n)], radices))
    sel |= ball
    while len(sel) < total:
        sel.add(encode([rng.choice(d) for d in doms], radices))
    return sorted(sel), npair, len(ball)


# ------------------------------------------------------------------------------------ shard task
def _abstract(o):
    """Raw observation -> JSON for the trace monitor (no judgement: renaming / null removal only)."""
    return {"status": int(o["status"] or 0), "exc": list(o["exc"]), "warned": bool(o["warned"]),
            "joined": bool(o["joined"]) and (o.get("prior") is None or bool(o["prior"].get("joined", True))),
            "prior": ("na" if o.get("prior") is None else "sent" if o["prior"]["status"] == 200 else "failed"),
            "conns": [{"hs": bool(c["hs"]), "req": bool(c["req"]), "eof": bool(c["eof"]), "sni": str(c["sni"]),
                       "connect": bool(c["connect_line"] and c["connect_line"].startswith("CONNECT ")),
                       "proxy_hs": {None: "na", True: "true", False: "false"}[c["proxy_hs"]]} for c in o["conns"]],
            "seen": [{"at": x["at"], "v": bool(x["v"]), "pv": {None: "none", True: "true", False: "false"}[x["pv"]]}
                     for x in o["seen"]]}


def variant_of(idx, seed):
    """API / spelling variant of a point (0..11): a hash, so that it is independent of every factor."""
    x = (idx * 2654435761 + (seed + 1) * 40503) & 0xFFFFFFFF
    x ^= x >> 15
    x = (x * 2246822519) & 0xFFFFFFFF
    x ^= x >> 13
    return x % 12


def emit_points(spec):
    """Run the emission spec; returns the PT records."""
    files = {"sel.json": json.dumps(spec.get("sel", []))}
    cfg = EMIT_CFG.format(mode=spec["mode"], lo=spec.get("lo", 0), hi=spec.get("hi", 0), k=spec.get("k", 1),
                          s=spec.get("s", 0))
    r = tlc.run("MC_TLSVerify", cfg, workers=1, files=files, env={"SEL_FILE": "sel.json"}, timeout=3600, heap="2g")
    if r.violated:
        raise tlc.MachineryError(f"emission run reported {r.violated}")
    return [json.loads(x) for x in tagged_strings(r.out, "PT")]


def validate(traces):
    """TLC batch validation.  Returns {id: (hard clause, drift clause)}."""
    r = tlc.run("TLSVerify_Trace", TRACE_CFG, workers=1, files={"traces.json": json.dumps(traces)},
                env={"TRACE_FILE": "traces.json"}, timeout=3600, heap="2g")
    ver = [x.split("|") for x in tagged_strings(r.out, "VERDICT")]
    if len(ver) != len(traces) or any(len(v) != 3 for v in ver):
        raise tlc.MachineryError(f"trace validation produced {len(ver)} verdicts for {len(traces)} traces\n{r.out[-1500:]}")
    return {int(v[0]): (v[1], v[2]) for v in ver}, r


def _execute(args):
    """Worker: run the given emitted points (all of one backend) against the real urllib3."""
    pts, backend, seed = args
    from . import c07drv
    c07drv.set_backend(backend)
    res = []
    for pt in pts:
        if pt["p"]["backend"] != backend:
            raise tlc.MachineryError(f"worker for backend {backend} received a point for {pt['p']['backend']}")
        v = variant_of(pt["idx"], seed)
        # (a caller-supplied pyOpenSSL context cannot be used for a second connection -- finding C07-F2 --
        # so the one-retry API variant is exercised there only where the Rules demand a block)
        no_retry = pt["p"]["backend"] == "pyopenssl" and pt["p"]["ctx"] != "none" and pt["expect"] != "block"
        for _attempt in range(3):
            o = c07drv.run_point(pt["p"], v, no_retry=no_retry)
            # no scenario of the lattice can legitimately time out (the party always answers or closes):
            # a client-side timeout is an overloaded machine; retry, then report it as a harness stall
            if o["joined"] and not any("timeout" in e.lower() for e in o["exc"]):
                break
        else:
            o["joined"] = False
        res.append({"idx": pt["idx"], "raw": _abstract(o), "variant": v, "exc_msg": o.get("exc_msg", ""),
                    "api": o.get("api", {}), "no_retry": no_retry})
    if c07drv._AUTH is not None:
        c07drv._AUTH.close()
        c07drv._AUTH = None
    return res


def _judge(pts, results, verdicts):
    """Tally one batch: TLC's verdict per trace + bookkeeping (no verdict is computed here)."""
    out = {"emitted": len(pts), "ran": len(results), "bad": [], "drift": [], "expect": {}, "outcome": {}, "real": {},
           "nontrivial": [], "samples": [], "by": {}, "ndrift": 0, "nbad": 0}
    kept = {}
    byidx = {pt["idx"]: pt for pt in pts}
    if len(byidx) != len(pts) or len(results) != len(pts):
        raise tlc.MachineryError(f"{len(pts)} points emitted, {len(byidx)} distinct, {len(results)} executed")
    for res in results:
        idx, raw = res["idx"], res["raw"]
        pt = byidx[idx]
        if idx not in verdicts:
            raise tlc.MachineryError(f"no verdict for trace {idx}")
        hard, drift = verdicts[idx]
        for key, val in (("expect", pt["expect"]), ("outcome", pt["model"]["outcome"]), ("by", pt["model"]["by"])):
            out[key][val] = out[key].get(val, 0) + 1
        sent = any(c["req"] for c in raw["conns"])
        real = ("sent" if sent else "blocked:" + (raw["exc"][0].rsplit(".", 1)[-1] if raw["exc"] else "none"))
        out["real"][real] = out["real"].get(real, 0) + 1
        if pt["expect"] != "send" or not pt["validated"]:
            out["nontrivial"].append(idx)
        case = {"kind": "point", "idx": idx, "point": pt["p"], "variant": res["variant"], "expect": pt["expect"],
                "demanded": pt["demanded"], "failed": pt["failed"], "model": pt["model"], "observed": raw,
                "mode": pt["mode"],
                "exc_msg": res["exc_msg"], "api": res["api"], "no_retry": res["no_retry"]}
        if hard != "ok":
            # keep a few cases of EVERY distinct class of (clause, input, observed facts) -- exactly the
            # facts known-finding signatures are matched on -- so one class can never crowd out another
            key = tuple(sorted((k, str(val)) for k, val in facts_of(hard, case).items()))
            kept[key] = kept.get(key, 0) + 1
            out["nbad"] += 1
            if kept[key] <= 2:
                out["bad"].append((hard, case))
        elif drift != "ok" and len(out["drift"]) < 20:
            out["drift"].append((drift, case))
        if drift != "ok" and hard == "ok":
            out["ndrift"] += 1
        if len(out["samples"]) < 2 and pt["expect"] == "block":
            out["samples"].append({"point": pt["p"], "expect": pt["expect"], "demanded": pt["demanded"],
                                   "failed": pt["failed"], "observed": raw, "verdict": [hard, drift]})
    return out


def _task(args):
    """Thorough shard, in a fresh process: emission by TLC -> real handshakes -> validation by TLC."""
    spec, backend, seed = args
    pts = emit_points(spec)
    results = _execute((pts, backend, seed))
    traces = [{"id": r["idx"], "p": next_p, "o": r["raw"]} for r, next_p in zip(results, (pt["p"] for pt in pts))]
    verdicts = validate(traces)[0] if traces else {}
    return _judge(pts, results, verdicts)


# ------------------------------------------------------------------------------------ findings
def facts_of(clause, case):
    p = case["point"]
    obs = case["observed"]
    return {"clause": clause, "route": p["route"], "backend": p["backend"], "reqs": p["reqs"], "fp": p["fp"],
            "ctx": p["ctx"], "casrc": p.get("casrc"), "hist": p.get("hist"), "issuer": p["issuer"], "ah": p["ah"], "expect": case.get("expect"), "mode": case.get("mode"),
            "warned": bool(obs["warned"]),
            "reported_verified": any(x["at"] == "request" and x["v"] for x in obs["seen"]),
            "proxy_reported_verified": any(x["at"] == "request" and x["pv"] == "true" for x in obs["seen"]),
            "sent": any(c["req"] for c in obs["conns"]), "closed": all(c["eof"] for c in obs["conns"]),
            "retried": case.get("api", {}).get("retries") == 1, "exc_head": (obs["exc"] or ["none"])[0],
            "context_reuse_refused": "already been used to create a Connection" in case.get("exc_msg", "")}


def report_bad(rep, findings, clause, case):
    if clause in ("HarnessStall", "MalformedTrace"):
        raise tlc.MachineryError(f"{clause} on lattice point {case['idx']}: {case['observed']}")
    f = known.match(findings, facts_of(clause, case))
    p = case["point"]
    what = (f"{clause}: point {case['idx']} {p} demanded={case['demanded']} failed={case['failed']} "
            f"observed exc={case['observed']['exc'][:2]} sent={any(c['req'] for c in case['observed']['conns'])} "
            f"warned={case['observed']['warned']}")
    if f is not None:
        rep.known.append((f["id"], f["what"]))
    else:
        rep.violation(clause, what, case)


# ------------------------------------------------------------------------------------ run
REFUTE_CFG = """SPECIFICATION Spec
CONSTANTS Routes <- {routes}
  Backends <- AllBackends
  Hosts <- DnsHostOnly
  Sans <- TwoSans
  KnownDefects <- {deviation}
  EmitMode = "sel"
  ShardLo = 0
  ShardHi = 0
  ShardK = 1
  ShardS = 0
INVARIANT SentImpliesDemandedPassed
CHECK_DEADLOCK FALSE
"""


def refute_deviation(rep, name, deviation, routes):
    """A named deviation that is NOT in the code must be REFUTED by TLC: with it switched on the model has
    to violate SentImpliesDemandedPassed.  A spec that cannot see the deviation is a machinery failure.
      DefaultStoreAlsoTrusted      the load_default_certs guard forgets ca_cert_data
      HostnameOwnerDecidedUpFront  'who matches the hostname' decided from the arguments, not from the live
                                   context.check_hostname that earlier legs / connections may have flipped"""
    r = tlc.run("MC_TLSVerify", REFUTE_CFG.format(routes=routes, deviation=deviation), workers="auto",
                files={"sel.json": "[]"}, env={"SEL_FILE": "sel.json"}, heap="3g", timeout=3600, expect_fail=True)
    rep.stage1.append({"run": f"MC_TLSVerify refute {name} (violation expected)",
                       "distinct_states": r.distinct, "states_generated": r.generated, "depth": r.depth,
                       "wall_s": round(r.wall, 2), "violated": r.violated})
    if "SentImpliesDemandedPassed" not in r.violated:
        raise tlc.MachineryError(f"TLC did not refute the deviation {name}: the specification cannot see it "
                                 f"({r.violated}, {r.error})")
    rep.extra.setdefault("refuted_deviations", []).append(name)


def stage1(rep, routes, hosts, sans="AllSans", live=False, defects=False):
    """One exhaustive TLC run over a sub-lattice.  defects=False: the design the property asks for
    (KnownDefects = {}), every clause strict.  defects=True: the Model of the code as it is; the
    warning clause may fail only on the recorded signature, and must fail there."""
    cfg = STAGE1_CFG.format(routes=routes, hosts=hosts, sans=sans, live="PROPERTY EveryAttemptConcludes\n" if live else "",
                            defects="AllKnownDefects" if defects else "NoDefects",
                            strict=MODULO_KNOWN if defects else STRICT)
    r = tlc.run("MC_TLSVerify", cfg, workers="auto", coverage=True, files={"sel.json": "[]"},
                env={"SEL_FILE": "sel.json"}, heap="3g", timeout=7200)
    rep.add_tlc(f"MC_TLSVerify Routes={routes} Hosts={hosts} Sans={sans} KnownDefects={'all' if defects else '{}'}"
                + (" +liveness" if live else ""), r)
    if r.violated:
        rep.violation("ModelViolatesRules", f"TLC: {r.violated} violated by the decision model of TLSVerify.tla "
                      f"(Routes={routes} Hosts={hosts} Sans={sans} defects={defects})",
                      {"kind": "stage1", "violated": r.violated, "routes": routes, "hosts": hosts, "sans": sans,
                       "defects": defects})
    cov = {k: v[1] for k, v in r.coverage.items()}
    need = list(MODEL_ACTIONS)
    if routes in ("NoTlsProxyRoutes", "DirectRoute"):
        need.remove("ProxyHandshake")
    if routes == "DirectRoute":
        need.remove("Tunnel")
    classes = list(CLASSES)
    if defects and routes == "PinnedRoute":
        classes.remove("SentUnverifiedWarned")     # exactly what the recorded defect takes away on this route
    missing = [a for a in need + ["Report" + c for c in classes] if cov.get(a, 0) == 0]
    if missing and not r.violated:
        raise tlc.MachineryError(f"vacuous stage 1 ({routes}/{hosts}): actions/outcome classes never reached: {missing}")
    anomalous = cov.get("ReportAnomalous", 0)
    if not r.violated:
        if not defects and anomalous != 0:
            raise tlc.MachineryError("stage 1 reached an anomalous outcome without an invariant failing")
        if defects and anomalous == 0:
            raise tlc.MachineryError("the Model with KnownDefects does not reproduce the recorded defect")
    lat = [json.loads(x) for x in tagged_strings(r.out, "LATTICE")]
    if not lat:
        raise tlc.MachineryError("MC_TLSVerify did not print its LATTICE line")
    key = f"{routes}/{hosts}/{sans}/{'asis' if defects else 'design'}"
    rep.extra.setdefault("stage1_outcome_classes", {})[key] = dict({c: cov.get("Report" + c, 0) for c in CLASSES},
                                                                 Anomalous=anomalous)
    rep.extra.setdefault("stage1_action_coverage", {})[key] = {a: cov.get(a, 0) for a in MODEL_ACTIONS}
    return lat[0], sum(cov.get("Report" + c, 0) for c in CLASSES) + anomalous


def run(rep):
    quick = rep.tier == "quick"
    rep.rule = ("one case = one lattice point (cert_reqs x assert_hostname x assert_fingerprint x server_hostname x "
                "ssl_context (fresh or reused after a connection with assert_hostname / a pin) x CA source (ca_certs / ca_cert_data / ca_cert_dir / caller context / none = default store) x backend x route x issuer x SAN shape x host form) executed with a real TLS handshake; "
                "non-trivial = the Rules expect anything other than a plain verified send (a demanded check fails, "
                "latitude applies, the config is refused, or the connection is unvalidated and must warn)")
    rep.assumptions = ["chain validation, digests and the handshake are OpenSSL's (environment facts fixed by how "
                       "the harness minted the certificates)", "TLC 1.8, CPython ssl, pyOpenSSL, trustme trusted",
                       "one request per connection; proxy legs without proxy_assert_* settings"]
    findings = known.load("C07")
    if quick:
        # the model distinguishes host spellings only as DNS name vs IP literal
        # (and SAN shapes only through the name-truth table: DNS-type shapes with the DNS host, the rest with the IP)
        # (and SAN shapes only through the name-truth table; exact / ip_mismatch give pass / fail for the DNS
        # host, the commonName-only shape rides on the small as-is run.  IP hosts, the other shapes and the
        # model-checking refutation runs: thorough tier; both named deviations are refuted on their
        # witnesses by ASSUMEs of MC_TLSVerify in every run)
        lattice, npoints = stage1(rep, "AllRoutes", "DnsHostOnly", "QuickSans")
        stage1(rep, "PinnedRoute", "DnsHostOnly", "DnsSans", defects=True)
    else:
        stage1(rep, "NoTlsProxyRoutes", "SmallHosts", "DnsSans", live=True)
        lattice, npoints = stage1(rep, "AllRoutes", "AllHosts")
        stage1(rep, "PinnedRoute", "AllHosts", defects=True)
        refute_deviation(rep, "DefaultStoreAlsoTrusted", "OnlyDefaultStoreDeviation", "DirectRoute")
        refute_deviation(rep, "HostnameOwnerDecidedUpFront", "OnlyUpFrontDeviation", "SharedRoutes")
    factors = lattice["factors"]
    radices = [len(f["levels"]) for f in factors]
    if factors[-1]["name"] != "stack":
        raise tlc.MachineryError("lattice factor table: last factor must be the backend/route stack")
    stacks = factors[-1]["levels"]
    base = lattice["size"] // len(stacks)
    if quick:
        sel, npair, nball = select_quick(lattice, rep.seed, QUICK_POINTS, range(len(stacks)))
        rep.extra["quick_selection"] = {"pairwise_rows": npair, "within_two_of_default": nball, "total": len(sel)}
        pts = emit_points({"mode": "sel", "sel": sel})                 # one JVM: TLC emits the chosen points
        if len(pts) != len(sel):
            raise tlc.MachineryError(f"{len(sel)} indices selected, TLC emitted {len(pts)} points")
        jobs = []
        for backend in ("ssl", "pyopenssl"):
            mine = [pt for pt in pts if pt["p"]["backend"] == backend]
            nchunk = max(1, round(NWORKERS * len(mine) / len(pts)))
            jobs += [(mine[c::nchunk], backend, rep.seed) for c in range(nchunk)]
        with mp.get_context("fork").Pool(NWORKERS, maxtasksperchild=1) as pool:
            results = [r for chunk in pool.map(_execute, jobs, chunksize=1) for r in chunk]
        byidx = {pt["idx"]: pt for pt in pts}
        traces = [{"id": r["idx"], "p": byidx[r["idx"]]["p"], "o": r["raw"]} for r in results]
        verdicts, _ = validate(traces)                                  # one JVM: TLC judges every trace
        outs = [_judge(pts, results, verdicts)]
        expected_total = len(sel)
    else:
        k = 16
        tasks = []
        for sidx, name in enumerate(stacks):
            backend = name.split("/")[0]
            for s in range(k):
                tasks.append(({"mode": "shard", "lo": sidx * base, "hi": (sidx + 1) * base - 1, "k": k, "s": s},
                              backend, rep.seed))
        expected_total = lattice["size"]
        if npoints != expected_total:
            raise tlc.MachineryError(f"stage 1 visited {npoints} lattice points, index space has {expected_total}")
        with mp.get_context("fork").Pool(NWORKERS, maxtasksperchild=1) as pool:
            outs = pool.map(_task, tasks, chunksize=1)
    emitted = sum(o["emitted"] for o in outs)
    ran = sum(o["ran"] for o in outs)
    if emitted != expected_total or ran != emitted:
        raise tlc.MachineryError(f"emission/replay mismatch: wanted {expected_total} points, TLC emitted {emitted}, "
                                 f"{ran} executed")
    tall = {"expect": {}, "outcome": {}, "real": {}, "by": {}}
    for o in outs:
        rep.traces += o["ran"]
        rep.evaluations += o["ran"]
        rep.nontrivial.update(o["nontrivial"])
        for key in tall:
            for kk, vv in o[key].items():
                tall[key][kk] = tall[key].get(kk, 0) + vv
        for s in o["samples"][:1]:
            rep.sample(s, cap=4)
        for clause, case in o["bad"]:
            report_bad(rep, findings, clause, case)
        for d, case in o["drift"]:
            rep.drift.append(f"{d}: point {case['idx']} {case['point']} model={case['model']['outcome']} "
                             f"observed exc={case['observed']['exc'][:2]} warned={case['observed']['warned']}")
    ndrift = sum(o.get("ndrift", 0) for o in outs)
    rep.extra["three_valued"] = {"must_send": tall["expect"].get("send", 0), "must_block": tall["expect"].get("block", 0),
                                 "either": tall["expect"].get("either", 0), "refused": tall["expect"].get("refused", 0)}
    rep.extra["model_outcomes_of_replayed_points"] = tall["outcome"]
    rep.extra["real_outcomes"] = tall["real"]
    rep.extra["rejecting_component_predicted"] = tall["by"]
    rep.extra["drift_only_traces"] = ndrift
    rep.extra["traces_with_failing_clause"] = sum(o["nbad"] for o in outs)
    rep.extra["points_emitted"] = emitted
    for c in CLASSES:
        if tall["outcome"].get(c, 0) == 0:
            raise tlc.MachineryError(f"no replayed lattice point of outcome class {c}")
    if not any(k == "sent" for k in tall["real"]) or not any(k.startswith("blocked") for k in tall["real"]):
        raise tlc.MachineryError(f"real runs never sent or never blocked: {tall['real']}")
    rep.exhaustive = not quick


def replay(rep, path):
    with open(path) as fh:
        doc = json.load(fh)
    case = doc["case"]
    findings = known.load("C07")
    rep.rule = "replay of one recorded lattice point"
    if case.get("kind") == "stage1":
        stage1(rep, case.get("routes", "AllRoutes"), case.get("hosts", "AllHosts"), case.get("sans", "AllSans"),
               defects=case.get("defects", False))
        return
    backend = case["point"]["backend"]
    out = _replay_one(case, backend)
    rep.traces += 1
    rep.evaluations += 1
    rep.nontrivial.add(case["idx"])
    rep.states = rep.states or 1
    rep.transitions = rep.transitions or 1
    hard, drift, fresh, api, msg = out
    if hard != "ok":
        newcase = dict(case, observed=fresh, api=api, exc_msg=msg)
        report_bad(rep, findings, hard, newcase)
    elif drift != "ok":
        rep.drift.append(f"{drift}: point {case['idx']}")


def _replay_worker(args):
    case, backend = args
    from . import c07drv
    c07drv.set_backend(backend)
    o = c07drv.run_point(case["point"], case.get("variant", 0), no_retry=case.get("no_retry", False))
    raw = _abstract(o)
    verdicts, _ = validate([{"id": case["idx"], "p": case["point"], "o": raw}])
    hard, drift = verdicts[case["idx"]]
    if c07drv._AUTH is not None:
        c07drv._AUTH.close()
    return hard, drift, raw, o.get("api", {}), o.get("exc_msg", "")


def _replay_one(case, backend):
    with mp.get_context("fork").Pool(1) as pool:
        return pool.map(_replay_worker, [(case, backend)])[0]
