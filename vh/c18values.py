"""C18 helper — value variants of STRUCTURED connection settings, derived from the value type at run time.

For a structured keyword (Retry, Timeout, ProxyConfig, Url, the header / option dicts, socket-option lists, SSLContext)
`variants(kw)` returns, in this order,
    base     an object of the type,
    clone    an equal-content object built separately (same constructor arguments / same items),
    one FIELD VARIANT per constructor parameter (inspect.signature), namedtuple field, dict key (+ key added / removed),
             list item (+ item appended / removed) or settable attribute (SSLContext) that differs from the base in
             exactly that parameter,
with a label for each.  Nothing here says what urllib3 does with the values: the alternatives come from the parameter's
current value or annotation; every variant is checked to differ from the base in its state, the clone to be equal in state
and a different object.  A parameter for which no alternative can be derived is a machinery failure (never silently blind).
"""
from __future__ import annotations

import enum
import inspect
import socket
import ssl
import typing
import warnings

from .tlc import MachineryError


def _alt(cur, ann: str, where: str):
    """A value of the parameter's type that differs from cur."""
    if isinstance(cur, bool):
        return not cur
    if isinstance(cur, int):
        return cur + 1
    if isinstance(cur, float):
        return cur + 0.5
    if isinstance(cur, str):
        return cur + "x"
    if isinstance(cur, bytes):
        return cur + b"x"
    if isinstance(cur, (set, frozenset)):
        elem = 599 if ("int" in ann and "str" not in ann) or any(isinstance(x, int) for x in cur) else "X-Verif-Variant"
        return type(cur)(set(cur) | {elem})
    if isinstance(cur, tuple) and cur:
        return cur + (cur[-1],)
    if isinstance(cur, ssl.SSLContext):
        return ssl.create_default_context()
    # None / a sentinel default: go by the annotation text
    a = ann.replace("typing.", "")
    if "Collection[int]" in a:
        return frozenset({599})
    if "Collection[str]" in a:
        return frozenset({"X-Verif-Variant"})
    if "RequestHistory" in a:
        from urllib3.util.retry import RequestHistory
        return (RequestHistory("GET", "http://a.test/", None, 503, None),)
    if "SSLContext" in a:
        return ssl.create_default_context()
    if "float" in a:
        return 11.0
    if "int" in a:
        return 4
    if "str" in a:
        return "verif-variant"
    if "bool" in a:
        return True
    raise MachineryError(f"c18values: no alternative value derivable for {where} (current {cur!r}, annotation {ann!r})")


def _ctor_variants(kw, cls, kwargs):
    P = inspect.Parameter
    params = [(n, p) for n, p in inspect.signature(cls.__init__).parameters.items()
              if n != "self" and p.kind not in (P.VAR_POSITIONAL, P.VAR_KEYWORD)]
    unknown = set(kwargs) - {n for n, _ in params}
    if unknown:
        raise MachineryError(f"c18values: base arguments {sorted(unknown)} are not parameters of {cls.__name__}")
    base, clone = cls(**kwargs), cls(**dict(kwargs))
    try:                                 # resolves aliases such as _TYPE_TIMEOUT; the raw text is the fall-back
        hints = typing.get_type_hints(cls.__init__)
    except Exception:
        hints = {}
    out, noeffect = [("base", base), ("clone", clone)], []
    for n, p in params:
        cur = kwargs[n] if n in kwargs else (None if p.default is P.empty else p.default)
        v = cls(**{**kwargs, n: _alt(cur, str(hints.get(n, p.annotation)), f"{kw}: {cls.__name__}({n}=...)")})
        if vars(v) == vars(base):
            noeffect.append(n)          # a parameter that leaves no trace in the object is not a setting
            continue
        out.append((n, v))
    if vars(clone) != vars(base):
        raise MachineryError(f"c18values: {cls.__name__} clone differs from its base")
    return out, noeffect


def _namedtuple_variants(kw, base):
    cls = type(base)
    anns = getattr(cls, "__annotations__", {}) or {}
    sig = inspect.signature(cls).parameters
    out = [("base", base), ("clone", cls(*tuple(base)))]
    for f in cls._fields:
        ann = str(anns.get(f, sig[f].annotation if f in sig else ""))
        v = base._replace(**{f: _alt(getattr(base, f), ann, f"{kw}: {cls.__name__}.{f}")})
        if v == base:
            raise MachineryError(f"c18values: {cls.__name__}.{f} variant equals the base")
        out.append((f, v))
    return out, []


def _dict_variants(kw, base):
    if len(base) < 2:
        raise MachineryError(f"c18values: base dict of {kw} needs two entries")
    out = [("base", base), ("clone", dict(reversed(list(base.items()))))]
    for k in base:
        cur = base[k]
        out.append((f"[{k!r}]", {**base, k: ("verif-variant" if cur is None else _alt(cur, "", f"{kw}[{k!r}]"))}))
    extra = "X-Verif-Added" if all(isinstance(k, str) and k[:1].isupper() for k in base) else "verif_added"
    out.append(("<key added>", {**base, extra: "1"}))
    last = list(base)[-1]
    out.append(("<key removed>", {k: v for k, v in base.items() if k != last}))
    return out, []


def _list_variants(kw, base):
    if len(base) < 2:
        raise MachineryError(f"c18values: base list of {kw} needs two items")
    out = [("base", base), ("clone", list(base))]
    for i, item in enumerate(base):
        alt = tuple(item[:-1]) + (_alt(item[-1], "", f"{kw}[{i}]"),) if isinstance(item, tuple) else _alt(item, "", f"{kw}[{i}]")
        out.append((f"[{i}]", base[:i] + [alt] + base[i + 1:]))
    out.append(("<item appended>", base + [base[0]]))
    out.append(("<item removed>", base[:-1]))
    return out, []


def _ssl_state(ctx, names):
    st = {}
    for n in names:
        try:
            st[n] = getattr(ctx, n)
        except Exception as ex:      # pragma: no cover - unreadable attribute
            st[n] = type(ex).__name__
    st["<ciphers>"] = tuple(c["name"] for c in ctx.get_ciphers())
    return st


def _sslcontext_variants(kw, factory):
    """Fields of an SSLContext = its public settable attributes (data descriptors of the type) + the cipher list."""
    names = [n for n in dir(ssl.SSLContext) if not n.startswith("_") and inspect.isdatadescriptor(getattr(ssl.SSLContext, n))]
    base, clone = factory(), factory()
    st0 = _ssl_state(base, names)
    if _ssl_state(clone, names) != st0:
        raise MachineryError("c18values: two default SSLContexts differ")
    out, skipped = [("base", base), ("clone", clone)], []
    with warnings.catch_warnings():
        warnings.simplefilter("ignore")
        for n in names:
            cur = st0[n]
            if isinstance(cur, bool):
                cands = [not cur]
            elif isinstance(cur, enum.IntFlag):
                cands = [cur ^ m for m in type(cur) if m.value and (m.value & (m.value - 1)) == 0]
            elif isinstance(cur, enum.Enum):
                cands = [m for m in type(cur) if m != cur]
            elif isinstance(cur, int):
                cands = [cur + 1, cur - 1]
            else:
                skipped.append(n)       # None / str / callable: no type to derive an alternative from
                continue
            done = False
            for cand in cands:
                ctx = factory()
                try:
                    setattr(ctx, n, cand)
                except Exception:
                    continue
                st = _ssl_state(ctx, names)
                if st[n] != cur and sum(st[k] != st0[k] for k in st) == 1:
                    out.append((n, ctx))
                    done = True
                    break
            if not done:
                skipped.append(n)       # read-only or coupled to another attribute
        ctx = factory()
        ctx.set_ciphers("ECDHE+AESGCM")
        if _ssl_state(ctx, names)["<ciphers>"] != st0["<ciphers>"]:
            out.append(("<ciphers>", ctx))
    if len(out) < 5:
        raise MachineryError(f"c18values: only {len(out) - 2} SSLContext attributes could be varied (skipped {skipped})")
    return out, skipped


def bases():
    """The base object (or its constructor arguments) per structured keyword.  Everything else is derived."""
    from urllib3.connection import ProxyConfig
    from urllib3.util.retry import Retry
    from urllib3.util.timeout import Timeout
    from urllib3.util.url import parse_url
    socks = {"socks_version": 1, "proxy_host": "socks4.test", "proxy_port": 1081, "username": "u", "password": None, "rdns": True}
    return {
        "retries": ("ctor", Retry, {"total": 5, "backoff_factor": 0.2}),
        "timeout": ("ctor", Timeout, {"connect": 2.0, "read": 7.0}),
        "_proxy_config": ("value", ProxyConfig(None, False, "px-base.test", None)),
        "proxy_config": ("value", ProxyConfig(None, False, "px-base.test", None)),
        "_proxy": ("value", parse_url("http://user:pw@proxy4.test:3129/p?q=1#f")),
        "proxy": ("value", parse_url("http://user:pw@cproxy4.test:3129/p?q=1#f")),
        "headers": ("value", {"User-Agent": "verif/1", "Accept-Language": "en"}),
        "_proxy_headers": ("value", {"Proxy-Authorization": "Basic YmFzZQ==", "X-Forwarded-By": "verif"}),
        "socket_options": ("value", [(socket.SOL_SOCKET, socket.SO_REUSEADDR, 1), (socket.IPPROTO_TCP, socket.TCP_NODELAY, 1)]),
        "_socks_options": ("value", socks),
        "ssl_context": ("factory", ssl.create_default_context),
    }


def variants(kw, spec):
    """-> ([(label, value), ...] starting with base and clone, [names of parameters that could not be varied])."""
    kind = spec[0]
    if kind == "ctor":
        out, skipped = _ctor_variants(kw, spec[1], spec[2])
    elif kind == "factory":
        out, skipped = _sslcontext_variants(kw, spec[1])
    else:
        base = spec[1]
        if isinstance(base, tuple) and hasattr(type(base), "_fields"):
            out, skipped = _namedtuple_variants(kw, base)
        elif isinstance(base, dict):
            out, skipped = _dict_variants(kw, base)
        elif isinstance(base, list):
            out, skipped = _list_variants(kw, base)
        else:
            raise MachineryError(f"c18values: no variant rule for {type(base).__name__} ({kw})")
    if out[0][1] is out[1][1]:
        raise MachineryError(f"c18values: clone of {kw} is the base object itself")
    if len(out) < 3:
        raise MachineryError(f"c18values: no field variant for {kw}")
    return out, skipped
