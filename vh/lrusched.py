"""A small deterministic scheduler for REAL threads (property C17).

Exactly one controlled thread runs at any time.  A running thread hands the baton over only at
*yield points*:

  * every outermost acquire (before taking it) and release (after giving it up) of a `SchedRLock`
    (installed in place of the public `lock` attribute of RecentlyUsedContainer),
  * every call of the recording dispose callback (before the call is logged),
  * the start of every operation of the thread's program (before the call is logged),
  * optionally every source LINE executed inside chosen code objects (sys.monitoring, CPython 3.12).

At a yield point the scheduler computes the set of *enabled* threads (not finished, not waiting
for a lock owned by somebody else) and asks a `chooser` which one continues.  Choosers: a fixed
list of decisions (replay), bounded-preemption DFS (`explore`), seeded random.  Every decision with
more than one enabled thread is logged, so any run can be repeated exactly from its decision list.
"All unfinished threads wait for a lock" is reported as a deadlock instead of hanging.

The module knows nothing about urllib3 or about the specification: it records events
(call / acq / rel / disp / ret), the verdict on every recorded history comes from TLC.
"""
from __future__ import annotations

import _thread
import random
import sys
import threading
import types

TOOL_ID = 4  # a free sys.monitoring tool id (0-2 and 5 are reserved names)


class _Gate:
    """Binary semaphore on a raw lock (threading.Semaphore is pure Python and ~10x slower)."""
    __slots__ = ("_l",)

    def __init__(self):
        self._l = _thread.allocate_lock()
        self._l.acquire()

    def release(self):
        try:
            self._l.release()
        except RuntimeError:
            pass

    def acquire(self, timeout=-1):
        return self._l.acquire(True, timeout)


class Abort(BaseException):
    """Unwinds a controlled thread when the run is abandoned (deadlock / step limit)."""


class SchedError(Exception):
    """The scheduler itself misbehaved (machinery failure, never a property verdict)."""


class SchedRLock:
    """Re-entrant lock with the `threading.RLock` interface used by urllib3 (`with lock:`).

    With a scheduler: cooperative (a thread that would block is simply not enabled), yield points
    around the outermost acquire / release.  Without: a plain ownership recorder for one thread.
    """

    def __init__(self, sched=None):
        self.sched = sched
        self.owner = None
        self.depth = 0
        self.log = None if sched else []
        self.acquisitions = 0

    def _me(self):
        return self.sched.me() if self.sched else 0

    def held_by_me(self):
        return self.owner is not None and self.owner == self._me()

    def acquire(self, blocking=True, timeout=-1):
        s = self.sched
        t = self._me()
        if self.owner == t and self.depth > 0:
            self.depth += 1
            return True
        if s is not None and s.controls(t):
            s.waiting[t] = self
            s.switch(t, "acq")            # resumed only when the lock is free
            s.waiting[t] = None
        if self.owner is not None:
            raise SchedError(f"lock handed to thread {t} while owned by {self.owner}")
        self.owner, self.depth = t, 1
        self.acquisitions += 1
        if s is not None:
            s.record(t, "acq")
        else:
            self.log.append("acq")
        return True

    def release(self):
        s = self.sched
        t = self._me()
        if self.owner != t or self.depth <= 0:
            raise RuntimeError("cannot release un-acquired lock")
        self.depth -= 1
        if self.depth:
            return
        self.owner = None
        if s is not None:
            s.record(t, "rel")
            if s.controls(t):
                s.switch(t, "rel")
        else:
            self.log.append("rel")

    def __enter__(self):
        self.acquire()
        return self

    def __exit__(self, *a):
        self.release()
        return False

    # threading.RLock private API used by Condition is deliberately absent


class FixedChooser:
    """Follow `prefix` (thread ids, one per logged decision), then never preempt."""

    def __init__(self, prefix=(), strict=True):
        self.prefix = list(prefix)
        self.strict = strict

    def choose(self, idx, enabled, cur):
        if idx < len(self.prefix) and self.prefix[idx] in enabled:
            return self.prefix[idx]
        if idx < len(self.prefix) and self.strict:
            raise SchedError(f"decision {idx}: thread {self.prefix[idx]} not enabled {enabled} (non-deterministic program?)")
        return cur if cur in enabled else enabled[0]


class RandomChooser:
    def __init__(self, seed, stay=0.5):
        self.rng = random.Random(seed)
        self.stay = stay

    def choose(self, idx, enabled, cur):
        if cur in enabled and self.rng.random() < self.stay:
            return cur
        return self.rng.choice(enabled)


class Sched:
    """One controlled run of `len(bodies)` threads.  Thread ids are 1..n (0 is the main thread)."""

    def __init__(self, chooser, max_steps=20000):
        self.chooser = chooser
        self.max_steps = max_steps
        self.events = []
        self.decisions = []     # (enabled tuple, chosen, current-or-None)
        self.waiting = {}
        self.finished = {}
        self.sems = {}
        self.ident = {}
        self.opidx = {}         # thread -> serial of the operation in progress
        self.cur = None
        self.deadlock = False
        self.aborted = False
        self.steps = 0
        self.errors = []
        self.main_sem = _Gate()
        self.lines = False
        self.kinds = {}

    # ---- identity
    def me(self):
        return self.ident.get(threading.get_ident(), 0)

    def controls(self, t):
        return t in self.sems and not self.finished.get(t, True) and not self.aborted

    # ---- trace
    def record(self, t, e, **kw):
        ev = {"t": t, "o": self.opidx.get(t, 0), "e": e}
        ev.update(kw)
        self.events.append(ev)

    # ---- the scheduling step (called by the thread holding the baton)
    def _enabled(self):
        out = []
        for u in sorted(self.sems):
            if self.finished[u]:
                continue
            w = self.waiting.get(u)
            if w is not None and w.owner is not None and w.owner != u:
                continue
            out.append(u)
        return out

    def switch(self, t, kind):
        if self.aborted:
            raise Abort()
        self.steps += 1
        self.kinds[kind] = self.kinds.get(kind, 0) + 1
        en = self._enabled()
        if self.steps > self.max_steps:
            self.errors.append("step limit")
            en = []
        if not en:
            if not all(self.finished.values()):
                if "step limit" not in self.errors:
                    self.deadlock = True
                self.aborted = True
                for u in self.sems:
                    if u != t:
                        self.sems[u].release()
            self.main_sem.release()
            if t is not None and not self.finished.get(t, True):
                raise Abort()
            return
        cur = t if t in en else None
        if len(en) == 1:
            nxt = en[0]
        else:
            nxt = self.chooser.choose(len(self.decisions), en, cur)
            self.decisions.append((tuple(en), nxt, cur))
        self.cur = nxt
        if nxt == t:
            return
        self.sems[nxt].release()
        if t is not None and not self.finished.get(t, True):
            self.sems[t].acquire()
            if self.aborted:
                raise Abort()

    # ---- running
    def run(self, bodies):
        """bodies: {thread id: callable(sched, tid)}.  Returns when all finished / aborted."""
        ths = {}
        for t in bodies:
            self.sems[t] = _Gate()
            self.finished[t] = False
            self.waiting[t] = None

        def runner(t, fn):
            self.ident[threading.get_ident()] = t
            self.sems[t].acquire()
            try:
                if not self.aborted:
                    fn(self, t)
            except Abort:
                pass
            except BaseException as ex:   # an exception escaping a thread body is a harness bug
                self.errors.append(f"thread {t}: {type(ex).__name__}: {ex}")
            finally:
                self.finished[t] = True
                if not self.aborted:
                    try:
                        self.switch(t, "end")
                    except Abort:
                        pass

        for t, fn in bodies.items():
            th = threading.Thread(target=runner, args=(t, fn), name=f"lrusched-{t}", daemon=True)
            ths[t] = th
            th.start()
        global _ACTIVE
        _ACTIVE = self
        try:
            self.switch(None, "start")
            if not self.main_sem.acquire(timeout=60):
                self.aborted = True
                for u in self.sems:
                    self.sems[u].release()
                raise SchedError("scheduler stalled (a controlled thread blocked outside a yield point?)")
        finally:
            _ACTIVE = None
        for th in ths.values():
            th.join(timeout=10)
            if th.is_alive():
                raise SchedError("controlled thread did not finish")
        if self.errors:
            raise SchedError("; ".join(self.errors))
        return self

    def choices(self):
        return [c for _, c, _ in self.decisions]

    def preemptions(self):
        return sum(1 for en, c, cur in self.decisions if cur is not None and c != cur)


def explore(run_once, bound, limit=None, on_run=None):
    """Stateless bounded-preemption DFS.  run_once(chooser) -> Sched (already run).
    Calls on_run(sched) for every schedule; returns the number of schedules executed."""
    stack = [[]]
    n = 0
    while stack:
        prefix = stack.pop()
        s = run_once(FixedChooser(prefix))
        n += 1
        if on_run is not None:
            on_run(s)
        ds = s.decisions
        used = 0
        costs = []
        for en, c, cur in ds:
            costs.append(used)
            if cur is not None and c != cur:
                used += 1
        for i in range(len(ds) - 1, len(prefix) - 1, -1):
            en, c, cur = ds[i]
            for alt in en:
                if alt == c:
                    continue
                cost = costs[i] + (1 if (cur is not None and alt != cur) else 0)
                if cost <= bound:
                    stack.append([d[1] for d in ds[:i]] + [alt])
        if limit is not None and n >= limit:
            break
    return n


# ------------------------------------------------------------------------------------------------
# optional statement-level yield points (sys.monitoring LINE events on chosen code objects)

_ACTIVE = None
_installed = set()


def _on_line(code, line):
    s = _ACTIVE
    if s is None or not s.lines:
        return None
    t = s.ident.get(threading.get_ident())
    if t is None or not s.controls(t):
        return None
    s.switch(t, "line")
    return None


def code_objects_of(*objs):
    out, seen = [], set()

    def walk(co):
        if co in seen:
            return
        seen.add(co)
        out.append(co)
        for c in co.co_consts:
            if isinstance(c, types.CodeType):
                walk(c)

    for o in objs:
        f = getattr(o, "__func__", o)
        if isinstance(f, types.FunctionType):
            walk(f.__code__)
        elif isinstance(o, type):
            for m in vars(o).values():
                g = getattr(m, "__func__", m)
                if isinstance(g, types.FunctionType):
                    walk(g.__code__)
    return out


def instrument_lines(*objs):
    """Enable LINE yield points inside the given functions / all methods of the given classes."""
    mon = sys.monitoring
    if mon.get_tool(TOOL_ID) is None:
        mon.use_tool_id(TOOL_ID, "lrusched")
        mon.register_callback(TOOL_ID, mon.events.LINE, _on_line)
    n = 0
    for co in code_objects_of(*objs):
        if co not in _installed:
            mon.set_local_events(TOOL_ID, co, mon.events.LINE)
            _installed.add(co)
        n += 1
    return n
