"""C02 driver: run ONE schedule of the real pool code under vh.sched and record the event trace.

Everything the trace monitor (spec/PoolConc_Trace.tla) needs is observed without touching urllib3:
  * queue operations            - CoopQueue installed through HTTPConnectionPool.QueueCls
  * connection objects          - ConnectionCls subclass that numbers its instances
  * socket dial / I/O / close   - vh.net in-memory network; the client socket class is re-tagged with
                                  a subclass that adds the calling thread to every I/O record
  * the swap `self.pool = None` - __setattr__ of the pool subclass
  * request outcomes            - the request threads themselves
  * who is parked               - the scheduler (cooperative blocking get)
  * open sockets at the end     - ground truth at the peer after `del pool` + gc
The only threads are the request / closer threads: the scripted peer answers inline.
"""
from __future__ import annotations

import gc
import logging
import threading
import weakref

from . import net as vnet
from . import sched
from .tlc import MachineryError

_MODS = None


def _mods():
    global _MODS
    if _MODS is None:
        import urllib3.connectionpool as cp
        import urllib3.response as rp
        logging.getLogger("urllib3").setLevel(logging.CRITICAL)   # arguments of log calls are still evaluated
        _MODS = (cp, rp)
    return _MODS


def prepare(dense=False):
    """Instrument the pool code of the urllib3 that is importable now; returns the selected lines."""
    return sched.instrument(_mods(), dense=dense)


def fallbacks():
    return sched.fallbacks()


def tname(i, cfg):
    return "K" if i == cfg["nthreads"] + 1 else f"T{i}"


def tid_of(name, cfg):
    if name == "K":
        return cfg["nthreads"] + 1
    if name.startswith("T") and name[1:].isdigit():
        return int(name[1:])
    return 0    # main thread (finalizer, set-up)


class _TSocket(vnet.VSocket):
    """VSocket that also tells the recorder which thread did the I/O; send is a yield point."""

    def sendall(self, data, *flags):
        s = sched.active()
        if s is not None:
            s.yield_point("io", "sendall", 0)
        self._rec({"e": "io", "th": threading.current_thread().name, "c": self._vid, "s": self._cid, "k": "send"})
        return super().sendall(data, *flags)

    def recv_into(self, buffer, nbytes=0, *flags):
        self._rec({"e": "io", "th": threading.current_thread().name, "c": self._vid, "s": self._cid, "k": "recv"})
        return super().recv_into(buffer, nbytes, *flags)

    def _real_close(self, *a, **k):
        self._rec({"e": "sclose", "th": threading.current_thread().name, "s": self._cid, "c": self._vid})
        return super()._real_close(*a, **k)


def norm_cfg(cfg):
    c = {"maxsize": 1, "block": False, "nthreads": 2, "reqs": 1, "closer": False, "stream": False,
         "script": {}, "retries": 1}
    c.update(cfg)
    return c


def one_run(cfg, chooser, max_steps=5000):
    """Execute one schedule.  cfg: maxsize, block, nthreads, reqs, closer, stream, retries,
    script {"<thread>": [outcome per attempt of that thread, in order]} (missing -> "ok").
    Returns {"events": [...], "steps": [...], "deadlock": bool, "stuck": [...], "preemptions": int}."""
    cp, rp = _mods()
    from urllib3.connection import HTTPConnection
    from urllib3.exceptions import HTTPError
    from urllib3.util.retry import Retry
    cfg = norm_cfg(cfg)
    ev = []
    rec = ev.append
    attempts = {}

    class VConn(HTTPConnection):
        _seq = [0]

        def __init__(self, *a, **k):
            super().__init__(*a, **k)
            VConn._seq[0] += 1
            self.vid = VConn._seq[0]
            rec({"e": "new", "th": threading.current_thread().name, "c": self.vid})

        def close(self):
            rec({"e": "cclose", "th": threading.current_thread().name, "c": getattr(self, "vid", 0)})
            return super().close()

        def _new_conn(self):
            sock = super()._new_conn()
            sock.__class__ = _TSocket
            sock._vid, sock._rec = self.vid, rec
            rec({"e": "dial", "th": threading.current_thread().name, "c": self.vid, "s": sock._cid})
            return sock

    class VPool(cp.HTTPConnectionPool):
        QueueCls = sched.CoopQueue
        ConnectionCls = VConn

        def __setattr__(self, k, v):
            object.__setattr__(self, k, v)
            if k == "pool" and v is None:
                rec({"e": "swap", "th": threading.current_thread().name})

    def responder(peer, req):
        tag = req.target.lstrip("/")
        th = tag.split("r")[0][1:]
        k = attempts.get(th, 0)
        attempts[th] = k + 1
        sc = cfg["script"].get(th) or cfg["script"].get(int(th) if th.isdigit() else th) or []
        oc = sc[k] if k < len(sc) else "ok"
        if oc == "fail":
            return vnet.Reply(data=b"", eof_after=0)
        body = tag.encode()
        if oc == "partial":
            # the body stalls half-way: headers promise twice what is written, the rest never comes
            head = vnet.http_response(200, body + body, headers=[("X-Partial", "1")])
            return vnet.Reply(data=head[:len(head) - len(body)], silent=True)
        if oc == "okclose":
            return vnet.Reply(vnet.http_response(200, body, keepalive=False), close=True)
        return vnet.Reply(vnet.http_response(200, body))

    net = vnet.Net(responder)
    with net:
        pool = VPool("h.test", 80, maxsize=cfg["maxsize"], block=cfg["block"], timeout=5,
                     retries=Retry(total=cfg["retries"], backoff_factor=0))
        qid = pool.pool.qid
        wr = weakref.ref(pool)
        sched.CoopQueue.recorder = rec
        box = {"pool": pool}
        del pool

        def req_thread(i):
            def f():
                me = f"T{i}"
                for r in range(1, cfg["reqs"] + 1):
                    tag = f"t{i}r{r}"
                    rec({"e": "start", "th": me, "r": r})
                    out, body, resp = "resp", "", None
                    try:
                        resp = box["pool"].urlopen("GET", "/" + tag, preload_content=not cfg["stream"])
                        if cfg["stream"] and resp.headers.get("X-Partial"):
                            # the caller takes what has arrived and gives the unfinished response back
                            body = resp.read(len(tag)).decode("latin-1")
                            resp.release_conn()
                        elif cfg["stream"]:
                            body = resp.read().decode("latin-1")
                            resp.release_conn()
                        else:
                            body = resp.data.decode("latin-1")
                    except sched.Abort:
                        raise
                    except HTTPError as ex:
                        out = type(ex).__name__
                    except BaseException as ex:      # anything that is not a urllib3 error is reported raw
                        out = "RAW:" + type(ex).__name__
                    del resp
                    rec({"e": "end", "th": me, "r": r, "out": out, "body": body})
                rec({"e": "done", "th": me})
            return f

        def closer():
            try:
                box["pool"].close()
                rec({"e": "done", "th": "K"})
            except sched.Abort:
                raise
            except BaseException as ex:
                rec({"e": "end", "th": "K", "r": 0, "out": "RAW:" + type(ex).__name__, "body": ""})
                rec({"e": "done", "th": "K"})

        fns = {f"T{i}": req_thread(i) for i in range(1, cfg["nthreads"] + 1)}
        if cfg["closer"]:
            fns["K"] = closer
        def on_event(e):
            if e["e"] != "point":
                rec(e)
            elif e["kind"] == "load" and e["func"] == "_get_conn":
                # how the checkout obtains its queue reference: by the `self.pool.get(...)` expression itself
                # ("inline") or by a separate statement executed before the get ("separate")
                rec({"e": "load", "th": e["th"], "res": "inline" if e["inline"] else "separate"})

        s = sched.Scheduler(chooser, on_event=on_event, max_steps=max_steps)
        try:
            s.run(fns)
        finally:
            sched.CoopQueue.recorder = rec   # keep recording the finalizer's drain below
        if s.deadlock:
            rec({"e": "deadlock", "th": MAINNAME, "stuck": sorted(s.stuck),
                 "qs": sorted({q.qid for q in s.stuck.values()})})
            # the torn-down threads are gone; make sure this pool's finalizer runs now, unrecorded
            sched.CoopQueue.recorder = None
            s.stuck = {n: q.qid for n, q in s.stuck.items()}
            s.blocked.clear()
            box.clear()
            if wr() is not None:
                gc.collect()
        else:
            # the pool object is dropped: weakref.finalize drains whatever the queue object still holds
            box.clear()
            if wr() is not None:
                gc.collect()
            if wr() is not None:
                raise MachineryError("C02 driver: the pool object is still referenced after the run")
            rec({"e": "probe", "th": MAINNAME, "open": sorted(net.open_conns())})
        sched.CoopQueue.recorder = None
    fns.clear()
    return {"events": encode(ev, cfg, qid), "steps": [(p, list(t), list(en)) for p, t, en in s.steps],
            "deadlock": s.deadlock, "stuck": sorted(s.stuck), "preemptions": s.preemptions(),
            "decisions": [p for p, _, _ in s.steps]}


MAINNAME = "MainThread"


def encode(ev, cfg, qid):
    """Uniform records for TLC (every field present in every event)."""
    out = []
    for e in ev:
        body = e.get("body", "")
        bt, br = 0, 0
        if body:
            try:
                bt, br = (int(x) for x in body[1:].split("r"))
            except ValueError:
                bt, br = -1, -1
        out.append({"e": e["e"], "t": tid_of(e.get("th", ""), cfg), "c": e.get("c", 0), "s": e.get("s", 0),
                    "q": 1 if e.get("q", qid) == qid else 2, "res": e.get("res", e.get("k", "")), "r": e.get("r", 0),
                    "out": e.get("out", ""), "bt": bt, "br": br,
                    "set": e.get("open", [tid_of(n, cfg) for n in e.get("stuck", [])]) if e["e"] in ("probe", "deadlock") else []})
    return out
