"""C01 — a pool never loses, duplicates or leaks connection slots, whatever the outcome.

stage 1  TLC checks the Model of spec/Pool.tla (urlopen / _get_conn / _put_conn / response disposal, one
         action per real step) against the Rules invariants NoDuplicate, SlotsRestored, NoOrphanSocket,
         BlockBound, OnlyUrllib3Errors, InterruptsPropagate for every history within the bounds; per-action
         coverage is read back (vacuity gate); named deviations (the recorded defect C01-F1 and design-level
         mutants) must make TLC report the expected clause, otherwise the invariants do not bite.
stage 2  TLC emits every finished history (configuration, per-attempt outcomes, disposals, server cuts) with
         the Model's expected observations, sharded over (configuration, first outcome).
stage 3  vh/poolharness.py drives the real HTTPConnectionPool along each history over the in-memory network
         and records the event trace (queue operations, dials / closes, outcomes, quiescence snapshot, probe).
stage 4  TLC validates every recorded trace with spec/Pool_Trace.tla: a total monitor built from the same
         Rules operators names the failing clause (hard verdict).  The Model's expected observations are
         compared on traces that satisfy Rules (mismatch = MODEL-DRIFT, soft).
plus     seeded random histories beyond the exhaustive bound (up to 6 requests, 4 held responses) whose
         traces go through stage 4 as well.
"""
from __future__ import annotations

import gc
import hashlib
import json
import multiprocessing as mp
import os
import random
import re

from . import known, tlc
from . import poolharness as ph

JOBS = int(os.environ.get("VERIF_JOBS") or 0) or (os.cpu_count() or 4)
INVARIANTS = ["TypeOK", "NoDuplicate", "SlotsRestored", "SlotsConserved", "NoOrphanSocket", "BlockBound", "OnlyUrllib3Errors",
              "InterruptsPropagate", "InterruptInFlight"]
ACTIONS = ["StartReq", "PreFail", "Sleep", "GetConn", "Connect", "Send", "Recv", "Preload", "Ok", "Except", "Finally", "After",
           "DisposeResp", "PeerCut", "Finish"]

MC_CFG = """SPECIFICATION Spec
CONSTANTS
  Configs <- MCConfigs
  MaxReqs = {maxreqs}
  FirstOutcomes <- {first}
  LaterOutcomes <- {later}
  Disposals <- {disp}
  MaxHeld = {held}
  Cuts = {cuts}
  BadArgs = {badargs}
  HeadOutcomes <- {head}
  KnownDefects <- {defects}
  TreeTraits <- {traits}
  ShardK = {k}
  ShardS = {s}
  CfgNs = {ns}
  CfgRetries = {rets}
  CfgRoutes = {routes}
  CfgModes = {modes}
  SampleM = {sample}
CONSTRAINT ShardC
{invs}
CHECK_DEADLOCK FALSE
{emit}
"""
TRACE_CFG = """SPECIFICATION TSpec
CONSTANTS
  Configs <- TrConfigs
  MaxReqs = 1
  FirstOutcomes <- TrSyms
  LaterOutcomes <- TrSyms
  Disposals <- TrDisp
  MaxHeld = 0
  Cuts = FALSE
  BadArgs = FALSE
  HeadOutcomes <- TrNone
  KnownDefects <- TrNone
  TreeTraits <- TrNone
CHECK_DEADLOCK FALSE
"""
ALL = dict(ns="{1, 2}", rets='{"F", "0", "1", "R2"}', routes='{"direct", "fwd"}', modes="{1, 2, 3, 4}", badargs="FALSE", sample=1, head="MCNoHead")


TRAITS = {"v": None, "put_without_checkout": None}


def detect_traits():
    """Behaviours of the tree under test that the Model takes as a parameter (they do not matter to the Rules)."""
    if TRAITS["v"] is None:
        r = ph.run_scenario({"cfg": dict(n=1, block=False, retries="F", preload=False, release=False, route="direct"),
                             "steps": [{"op": "req", "id": 1, "atts": ["ok_ka"]}, {"op": "disp", "id": 1, "how": "release"}]})
        old_release = r["obs"]["fin"]["pooled_open"] == 1
        r = ph.run_scenario({"cfg": dict(n=1, block=False, retries="F", preload=True, release=True, route="fwd"),
                             "steps": [{"op": "req", "id": 1, "atts": ["r_eof"]}]})
        d2 = r["obs"]["reqs"][0]["out"] == "ProxyError"
        r = ph.run_scenario({"cfg": dict(n=1, block=False, retries="F", preload=True, release=True, route="direct"),
                             "steps": [{"op": "req", "id": 1, "how": "badarg", "atts": []}]})
        evs, i0 = r["events"], [i for i, e in enumerate(r["events"]) if e["ev"] == "ReqStart"][0]
        i1 = [i for i, e in enumerate(evs) if e["ev"] == "ReqEnd"][0]
        TRAITS["put_without_checkout"] = any(e["ev"] == "QPut" for e in evs[i0:i1])
        TRAITS["v"] = {(False, False): "MCTraitsNone", (True, False): "MCTraitsOldRelease", (False, True): "MCTraitsD2",
                       (True, True): "MCTraitsOldReleaseD2"}[(old_release, d2)]
    return TRAITS["v"]


def plan_cfg(plan, k=1, s=0, emit=False, invs=True, defects="MCNoDefects"):
    d = dict(ALL)
    d.update(plan)
    d.pop("shards", None)
    return MC_CFG.format(k=k, s=s, defects=defects, traits=detect_traits(), emit="ACTION_CONSTRAINT Emit" if emit else "",
                         invs="\n".join("INVARIANT " + i for i in INVARIANTS) if invs else "", **d)


# plans: (name, constants).  The state space of each plan is partitioned exactly by the shards.
EDGE = dict(maxreqs=1, first="MCEdge", later="MCMicro", disp="MCDispAll", held=0, cuts="FALSE", rets='{"F", "1"}',
            ns="{1}", routes='{"direct"}', modes="{2, 3}", head="MCHead", shards=1)
# quick: the same products, sampled by TLC itself (SampleM: index sum 0 modulo 3 -- pairwise over configuration x
# outcome x disposal, see MC_Pool.tla); thorough: the full products.
QUICK_PLANS = [
    ("1req", dict(maxreqs=1, first="MCAll", later="MCMicroN", disp="MCDispAll", held=0, cuts="FALSE", ns="{1}",
                  badargs="TRUE", sample=3)),
    ("2req", dict(maxreqs=2, first="MCTinyS", later="MCMicro", disp="MCDispMicro", held=1, cuts="TRUE",
                  rets='{"F", "1"}', ns="{1}", routes='{"direct"}', badargs="TRUE", sample=4)),
    # small and exhaustive (one shard): will-close replies x mid-body faults, HTTP/1.0, 204, and HEAD requests with
    # Content-Length / chunked / close-delimited headers, on the streaming modes, crossed with every disposal
    ("edge", EDGE),
]
COVPLAN_QUICK = dict(maxreqs=2, first="MCCov", later="MCCov", disp="MCDispTwo", held=1, cuts="TRUE",
                     rets='{"1"}', ns="{1}", routes='{"direct"}', modes="{2, 4}", badargs="TRUE")
THOROUGH_PLANS = [
    ("1req-full", dict(maxreqs=1, first="MCAll", later="MCReps", disp="MCDispAll", held=0, cuts="FALSE", badargs="TRUE",
                       head="MCHead")),
    ("2req", dict(maxreqs=2, first="MCTinyS", later="MCMicro", disp="MCDispMicro", held=1, cuts="TRUE",
                  rets='{"F", "1"}', ns="{1}", routes='{"direct"}', badargs="TRUE")),
    ("2req-wide", dict(maxreqs=2, first="MCTiny", later="MCTiny", disp="MCDispSmall", held=1, cuts="TRUE",
                       rets='{"0", "R2"}', ns="{2}")),
    ("3req", dict(maxreqs=3, first="MCMicro", later="MCMicro", disp="MCDispMicro", held=1, cuts="TRUE",
                  rets='{"F", "1"}', ns="{1}", routes='{"direct"}', modes="{2, 4}", badargs="TRUE")),
    ("edge", dict(EDGE, maxreqs=2, held=1, disp="MCDispSmall", shards=0)),
]
# named deviations: (constant, clause TLC must report, constants of a small run that reaches it)
SMALL = dict(maxreqs=2, first="MCSmall", later="MCTiny", disp="MCDispAll", held=1, cuts="FALSE", ns="{1}",
             rets='{"F", "1"}', routes='{"direct"}')
SMALLB = dict(maxreqs=2, first="MCTinyN", later="MCMicroN", disp="MCDispMicro", held=1, cuts="FALSE", ns="{1}",
              rets='{"F", "1"}', routes='{"direct"}', badargs="TRUE")
SMALLS = dict(maxreqs=1, first="MCTinyS", later="MCMicro", disp="MCDispAll", held=0, cuts="FALSE", ns="{1}",
              rets='{"1", "R2"}', routes='{"direct"}', modes="{2}")
DEVIATIONS = [
    ("MCF1", "SlotsRestored", SMALL),                      # finding C01-F1 (repaired by f312ad5)
    ("MCReleaseOnlyIfConn", "SlotsRestored", SMALLB),      # release only when a connection object exists
    ("MCPutWithoutCheckout", "SlotsConserved", SMALLB),    # finding C01-F2: placeholder given back without a checkout
    ("MCSleepBeforeDrain", "SlotsRestored", SMALLS),      # back-off before drain_conn(); the sleep fails
    ("MCRead1EndDoesNotClose", "SlotsRestored", SMALLS),   # read1() delivers the last byte without closing
    ("MCHeadShortcutOutsideCatcher", "SlotsRestored", EDGE),   # read_chunked's HEAD shortcut outside _error_catcher
    ("MCUncleanExitClosesConnOnly", "SlotsRestored", EDGE),    # unclean exit closes the connection, not the response
    ("MCMutFinallyNoRelease", "SlotsRestored", SMALL),
    ("MCMutCloseNoRelease", "SlotsRestored", SMALL),
    ("MCMutExcept", "OnlyUrllib3Errors", SMALL),
    ("MCMutFullNoClose", "NoOrphanSocket", SMALL),
    # the second give-back of the same connection breaks the accounting (and, with room in the queue, duplicates it)
    ("MCMutReleaseKeeps", ("NoDuplicate", "SlotsConserved"), dict(SMALL, ns="{2}", first="MCTiny")),
    ("MCMutDropped", "BlockBound", SMALL),      # the forgotten socket first shows as one connection too many
]


# ------------------------------------------------------------------------------------------ stage 4
def validate_traces(batch_json, n):
    """batch_json: JSON array of {"cfg": {n, block}, "events": [...]}.  Returns list of (tid, position, clause)."""
    r = tlc.run("Pool_Trace", TRACE_CFG, workers=1, files={"traces.json": batch_json},
                env={"TRACE_FILE": "traces.json"}, timeout=3600, heap="3g")
    verdicts = tlc.tagged_tuples(r.out, "VERDICT")
    if len(verdicts) != n or sorted(v[0] for v in verdicts) != list(range(1, n + 1)):
        raise tlc.MachineryError(f"Pool_Trace produced {len(verdicts)} verdicts for {n} traces\n{r.out[-2000:]}")
    return r, verdicts


def facts_of(sc, events, clause):
    """Facts about a violating history, for known-finding signatures (never decides the property)."""
    cfg = sc["cfg"]
    held, cur, kind = {}, None, None
    for e in events:
        ev = e["ev"]
        if ev in ("ReqStart", "DispStart"):
            cur, kind = e["req"], ev
            held.setdefault(cur, 0)
        elif ev in ("ReqEnd", "DispEnd"):
            cur = None
        elif ev == "Quiesce":
            break
        elif cur is not None:
            if ev == "QGet" and (e["res"] == "ok" or not cfg["block"]):
                held[cur] += 1
            elif ev == "QPut":
                held[cur] -= 1
    leaked = sorted(i for i, n in held.items() if n > 0)
    # a request window that gives something back without having checked anything out
    phantom, gets, puts, inreq = [], 0, 0, None
    for e in events:
        if e["ev"] == "ReqStart":
            inreq, gets, puts = e["req"], 0, 0
        elif e["ev"] == "ReqEnd":
            if puts and not gets:
                phantom.append(inreq)
            inreq = None
        elif inreq is not None and e["ev"] == "QGet":
            gets += 1
        elif inreq is not None and e["ev"] == "QPut":
            puts += 1
    if inreq is not None and puts and not gets:
        phantom.append(inreq)
    badreqs = {st["id"] for st in sc["steps"] if st["op"] == "req" and st.get("how") == "badarg"}
    disp = {}
    for st in sc["steps"]:
        if st["op"] == "disp":
            disp.setdefault(st["id"], []).append(st["how"])
    cls = "other"
    if leaked and cfg["preload"] and not cfg["release"] and all(disp.get(i) == ["stream"] for i in leaked):
        cls = "preloaded-unreleased-response-streamed"
    if phantom and set(phantom) <= badreqs:
        cls = "request-failed-before-checkout"
    return {"clause": clause, "class": cls, "leaked": leaked, "phantom": phantom}


def is_nontrivial(sc):
    for st in sc["steps"]:
        if st["op"] == "cut" or (st["op"] == "disp" and st["how"] != "read"):
            return True
        if st["op"] == "req" and (len(st["atts"]) != 1 or st["atts"][0] != "ok_ka"):
            return True
    return False


def sc_key(sc):
    c = sc["cfg"]
    s = json.dumps([c["n"], c["block"], c["retries"], c["preload"], c["release"], c["route"],
                    [[st["op"], st["id"], st.get("atts", []), st.get("how", "")] for st in sc["steps"]]])
    return hashlib.blake2b(s.encode(), digest_size=8).hexdigest()


class Judge:
    """Collects (scenario, trace) pairs, has TLC judge them in batches, classifies the verdicts."""

    def __init__(self, batch=4000):
        detect_traits()
        self.batch = batch
        self.pending = []
        self.n = 0
        self.events = 0
        self.bad = []          # (clause, position, scenario, facts)
        self.drift = []
        self.machinery = []
        self.keys = set()
        self.samples = []
        self.clause_counts = {}
        self.skipped_dev = 0
        self.compared = 0

    def add(self, sc, with_expectations):
        try:
            r = ph.run_scenario(sc)
        except ph.vnet.HarnessStall as ex:
            self.machinery.append(f"harness stall: {ex} in {json.dumps(sc)[:400]}")
            return
        # kept as strings: nothing the garbage collector has to walk at every quiescence of later scenarios
        self.pending.append((json.dumps(sc), json.dumps(r["events"]), json.dumps(r["obs"]), with_expectations))
        if is_nontrivial(sc):
            self.keys.add(sc_key(sc))
        if len(self.pending) >= self.batch:
            self.flush()

    def flush(self):
        if not self.pending:
            return
        parts = []
        for scs, evs, _, _ in self.pending:
            c = json.loads(scs)["cfg"]
            parts.append('{"cfg": {"n": %d, "block": %s}, "events": %s}' % (c["n"], "true" if c["block"] else "false", evs))
        _, verdicts = validate_traces("[" + ",\n".join(parts) + "]", len(parts))
        for tid, pos, clause in verdicts:
            scs, evs, obss, withexp = self.pending[tid - 1]
            sc = json.loads(scs)
            r = {"events": json.loads(evs), "obs": json.loads(obss)}
            self.n += 1
            self.events += len(r["events"])
            self.clause_counts[clause] = self.clause_counts.get(clause, 0) + 1
            if clause in ("RecorderInconsistent", "Incomplete"):
                self.machinery.append(f"trace {clause} at event {pos}: {json.dumps(sc)[:400]}")
            elif clause != "ok":
                # kept as one string each (see add): thousands of known-finding traces must not slow gc.collect()
                prefix = r["events"][:pos] if len(self.bad) < 200 else None
                self.bad.append(json.dumps([clause, pos, sc, facts_of(sc, r["events"][:pos], clause), prefix]))
            elif withexp and (any(st.get("dev") for st in sc["steps"]) or (
                    TRAITS["put_without_checkout"] and any(st.get("how") == "badarg" for st in sc["steps"]))):
                # the history passes a point where a recorded deviation (C01-F1) changes what follows: the Model's
                # expectations describe the repaired design there; only the Rules verdict applies
                self.skipped_dev += 1
            elif withexp:
                d = ph.compare(sc, r["obs"])
                self.compared += 1
                if d and len(self.drift) < 50:
                    self.drift.append("; ".join(d) + " :: " + json.dumps({"cfg": sc["cfg"], "steps": [
                        {k: st[k] for k in ("op", "id", "atts", "how")} for st in sc["steps"]]}))
            if len(self.samples) < 2 and clause == "ok" and is_nontrivial(sc):
                self.samples.append({"scenario": sc, "trace": r["events"][:14], "verdict": clause})
        self.pending = []

    def result(self):
        self.flush()
        return {"n": self.n, "events": self.events, "bad": self.bad, "drift": self.drift, "machinery": self.machinery,
                "keys": self.keys, "samples": self.samples, "clauses": self.clause_counts,
                "compared": self.compared, "skipped_dev": self.skipped_dev}


def _warm():
    """Import everything and run one scenario, then freeze: gc.collect() at each quiescence stays cheap."""
    ph.run_scenario({"cfg": dict(n=1, block=False, retries="R2", preload=False, release=False, route="fwd"),
                     "steps": [{"op": "req", "id": 1, "atts": ["r_eof", "r302_ka", "ok_ka"]},
                               {"op": "disp", "id": 1, "how": "read"}]})
    gc.collect()
    gc.freeze()


_SC = re.compile(r'^<<"SC", "(.*)">>$')


def _unq(s):
    return s.replace('\\\\', '\x00').replace('\\"', '"').replace('\x00', '\\')


def _emit_shard(args):
    """One emission shard of one or more plans: TLC (1 worker) checks the invariants on its share of the histories
    and prints each finished history; every printed history is replayed on the real code at once; the traces are
    judged by TLC in batches (one Judge for all the plans of the task, so small plans share a validation JVM)."""
    plans, k, s = args           # a plan with shards=1 is run whole by shard 0 only
    plans = [(n, p) for n, p in plans if p.get("shards") != 1 or s == 0]
    _warm()
    j = Judge()
    per_plan = {}
    garbled = []
    for name, plan in plans:
        emitted = 0

        def on_line(ln):
            nonlocal emitted
            if not ln.startswith('<<"SC"'):
                return False
            m = _SC.match(ln)
            if not m:
                garbled.append(ln[:200])
                return True
            emitted += 1
            j.add(json.loads(_unq(m.group(1))), True)
            return True

        kk = 1 if plan.get("shards") == 1 else k
        r = tlc.run("MC_Pool", plan_cfg(plan, k=kk, s=s, emit=True), workers=1, on_line=on_line, timeout=6 * 3600,
                    heap="3g", expect_fail=True)
        per_plan[name] = {"emitted": emitted, "violated": r.violated, "error": r.error, "generated": r.generated,
                          "distinct": r.distinct, "depth": r.depth, "wall": r.wall}
    out = j.result()
    out.update(name="+".join(n for n, _ in plans), shard=s, emitted=sum(v["emitted"] for v in per_plan.values()),
               garbled=garbled, per_plan=per_plan)
    return out


GOOD_TRACE = [  # recorded once from the unchanged tree; columns: ev, req, item, sock, res, cls, how, q, qs, open, n
    ["QPut", 0, 0, 0, "ok", "", "", [], [], [], 0],
    ["Created", 0, 0, 0, "", "", "", [], [], [], 0],
    ["ReqStart", 1, 0, 0, "", "", "", [], [], [], 0],
    ["QGet", 0, 0, 0, "ok", "", "", [], [], [], 0],
    ["Dial", 0, 0, 1, "ok", "", "", [], [], [], 0],
    ["Interrupt", 0, 0, 0, "", "", "", [], [], [], 0],
    ["SockClose", 0, 0, 1, "", "", "", [], [], [], 0],
    ["QPut", 0, 0, 0, "ok", "", "", [], [], [], 0],
    ["ReqEnd", 1, 0, 0, "raised", "interrupt", "Interrupt", [], [], [], 0],
    ["ReqStart", 2, 0, 0, "", "", "", [], [], [], 0],
    ["QGet", 0, 0, 0, "ok", "", "", [], [], [], 0],
    ["Dial", 0, 0, 2, "ok", "", "", [], [], [], 0],
    ["SockClose", 0, 0, 2, "", "", "", [], [], [], 0],
    ["QPut", 0, 0, 0, "ok", "", "", [], [], [], 0],
    ["QGet", 0, 0, 0, "ok", "", "", [], [], [], 0],
    ["Dial", 0, 0, 3, "ok", "", "", [], [], [], 0],
    ["ReqEnd", 2, 0, 0, "response", "none", "200", [], [], [], 0],
    ["DispStart", 2, 0, 0, "", "", "read", [], [], [], 0],
    ["QPut", 0, 1, 3, "ok", "", "", [], [], [], 0],
    ["DispEnd", 2, 0, 0, "response", "none", "ok", [], [], [], 0],
    ["Quiesce", 0, 0, 0, "", "", "", [1], [3], [3], 0],
    ["ProbeStart", 0, 0, 0, "", "", "", [], [], [], 0],
    ["QGet", 0, 1, 3, "ok", "", "", [], [], [], 0],
    ["QGet", 0, -1, 0, "empty", "", "", [], [], [], 0],
    ["QPut", 0, 1, 3, "ok", "", "", [], [], [], 0],
    ["Probe", 0, 0, 0, "EmptyPoolError", "", "", [], [], [], 1],
    ["QGet", 0, 1, 3, "ok", "", "", [], [], [], 0],
    ["SockClose", 0, 0, 3, "", "", "", [], [], [], 0],
    ["QGet", 0, -1, 0, "empty", "", "", [], [], [], 0],
]


def monitor_selftest():
    """The monitor must reject corrupted copies of a good trace with the right clause (never silently green)."""
    keys = ["ev", "req", "item", "sock", "res", "cls", "how", "q", "qs", "open", "n"]
    good = [dict(zip(keys, row)) for row in GOOD_TRACE]   # a canned trace: independent of the tree under test

    def mutate(f):
        evs = json.loads(json.dumps(good))
        f(evs)
        return evs

    def drop_last_put(evs):
        qi = max(i for i, e in enumerate(evs) if e["ev"] == "Quiesce")
        i = max(i for i, e in enumerate(evs[:qi]) if e["ev"] == "QPut")
        del evs[i]
        for e in evs:
            if e["ev"] == "Quiesce":
                e["q"] = e["q"][:-1]
                e["qs"] = e["qs"][:-1]

    def raw_error(evs):
        e = [e for e in evs if e["ev"] == "ReqEnd" and e["req"] == 2][0]
        e["res"], e["cls"] = "raised", "raw"

    def swallowed_interrupt(evs):
        e = [e for e in evs if e["ev"] == "ReqEnd" and e["cls"] == "interrupt"][0]
        e["res"], e["cls"] = "response", "none"

    def never_closed(evs):
        del evs[[i for i, e in enumerate(evs) if e["ev"] == "SockClose"][0]]

    def peer_sees_open(evs):
        for e in evs:
            if e["ev"] == "Quiesce":
                e["open"] = sorted(set(e["open"]) | {2})

    def put_twice(evs):      # judged with maxsize 2: two checkouts, then the same connection is given back twice
        ev = lambda name, **kw: dict(dict(zip(keys, ["", 0, 0, 0, "", "", "", [], [], [], 0])), ev=name, **kw)
        evs[:] = [ev("QPut", res="ok"), ev("QPut", res="ok"), ev("Created"), ev("ReqStart", req=1),
                  ev("QGet", res="ok"), ev("QGet", res="ok"), ev("QPut", item=1, res="ok"), ev("QPut", item=1, res="ok")]

    def phantom_put(evs):
        i = [i for i, e in enumerate(evs) if e["ev"] == "ReqEnd"][0]
        evs.insert(i + 1, dict(evs[0], res="full"))      # a placeholder given back although nothing is checked out

    def no_probe(evs):
        evs[:] = [e for e in evs if e["ev"] != "Probe"]

    want = [("ok", 1, lambda evs: None), ("SlotsRestored", 1, drop_last_put), ("OnlyUrllib3Errors", 1, raw_error),
            ("InterruptsPropagate", 1, swallowed_interrupt), ("BlockBound", 1, never_closed),
            ("NoOrphanSocket", 1, peer_sees_open), ("NoDuplicate", 2, put_twice), ("SlotsConserved", 1, phantom_put),
            ("Incomplete", 1, no_probe)]
    batch = [{"cfg": {"n": n, "block": True}, "events": mutate(f)} for _, n, f in want]
    _, verdicts = validate_traces(json.dumps(batch), len(batch))
    got = {tid: clause for tid, _, clause in verdicts}
    for i, (clause, _, _) in enumerate(want, 1):
        if got.get(i) != clause:
            raise tlc.MachineryError(f"monitor self-test {i}: expected verdict {clause}, got {got.get(i)}")
    return [c for c, _, _ in want]


# ------------------------------------------------------------------------------ random histories
HEAD_SYMS = ["ok_ka", "ok_close", "ok_chunked", "ok_10", "r_eof", "r_timeout", "c_refused", "s204_ka"]


def random_scenario(rng, maxreqs=6):
    cfg = {"n": rng.choice([1, 2, 3]), "block": rng.random() < 0.5, "retries": rng.choice(["F", "0", "1", "R2"]),
           "route": rng.choice(["direct", "fwd"])}
    cfg["preload"], cfg["release"] = rng.choice([(True, True), (False, False), (False, True), (True, False)])
    syms = [s for s in ph.ALL_SYMBOLS if s not in ("x_stale", "chunk_trunc")]
    steps, live = [], []
    nreq = rng.randint(1, maxreqs)
    for i in range(1, nreq + 1):
        if rng.random() < 0.08:
            steps.append({"op": "req", "id": i, "how": "badarg", "atts": []})
            continue
        if rng.random() < 0.12:
            atts = [rng.choice(HEAD_SYMS) for _ in range(4)]
            steps.append({"op": "req", "id": i, "how": "head", "atts": atts})
        else:
            atts = [rng.choice(syms) if rng.random() < 0.7 else "ok_ka" for _ in range(4)]
            steps.append({"op": "req", "id": i, "how": "", "atts": atts})
        live.append(i)
        while live and (rng.random() < 0.6 or len(live) > 4):
            x = live.pop(rng.randrange(len(live)))
            steps.append({"op": "disp", "id": x, "how": rng.choice(ph.DISPOSALS)})
        if rng.random() < 0.15:
            steps.append({"op": "cut", "id": rng.randint(1, 2)})
    rng.shuffle(live)
    for x in live:
        steps.append({"op": "disp", "id": x, "how": rng.choice(ph.DISPOSALS)})
    return {"cfg": cfg, "steps": steps}


def _random_shard(args):
    seed, n = args
    _warm()
    rng = random.Random(seed)
    j = Judge()
    for _ in range(n):
        j.add(random_scenario(rng), False)
    out = j.result()
    out.update(name="random", shard=seed, emitted=n)
    return out


# ------------------------------------------------------------------------------------------ run
def _cov_task(args):
    plan, workers = args
    r = tlc.run("MC_Pool", plan_cfg(plan), workers=workers, heap="3g", coverage=True, expect_fail=True, timeout=7200)
    return {"kind": "cov", "violated": r.violated, "error": r.error, "coverage": dict(r.coverage), "distinct": r.distinct,
            "generated": r.generated, "depth": r.depth, "wall": r.wall}


def _dev_task(args):
    const, clause, plan = args
    rd = tlc.run("MC_Pool", plan_cfg(plan, defects=const), workers=1, heap="3g", expect_fail=True, timeout=3600)
    return {"kind": "dev", "const": const, "clause": clause, "violated": rd.violated, "error": rd.error}


def _task(t):
    kind, args = t
    out = {"cov": _cov_task, "dev": _dev_task, "emit": _emit_shard, "rand": _random_shard}[kind](args)
    out["kind"] = kind
    return out


def _absorb(rep, findings, outs, counters):
    for o in outs:
        for m in o["machinery"][:1]:
            raise tlc.MachineryError(m)
        if o.get("garbled"):
            raise tlc.MachineryError(f"unparsable emission line: {o['garbled'][0]}")
        if o["n"] != o["emitted"]:
            raise tlc.MachineryError(f"{o['name']} shard {o['shard']}: {o['emitted']} histories emitted, {o['n']} judged")
        rep.traces += o["n"]
        rep.evaluations += o["n"]
        counters["events"] += o["events"]
        counters["compared"] = counters.get("compared", 0) + o["compared"]
        counters["skipped_dev"] = counters.get("skipped_dev", 0) + o["skipped_dev"]
        rep.nontrivial.update(o["keys"])
        for k, v in o["clauses"].items():
            counters["clauses"][k] = counters["clauses"].get(k, 0) + v
        for s in o["samples"][:1]:
            rep.sample(s, cap=4)
        for d in o["drift"]:
            rep.drift.append(d)
        for clause, pos, sc, facts, prefix in map(json.loads, o["bad"]):
            f = known.match(findings, facts)
            if f is not None:
                rep.known.append((f["id"], f["what"]))
                counters["known"] += 1
                continue
            what = (f"{clause} fails at event {pos} of the recorded trace (leaked leases of requests {facts['leaked']}, "
                    f"give-back without checkout in requests {facts['phantom']})")
            rep.violation(clause, what, {"kind": "scenario", "scenario": sc, "trace_prefix": prefix})


def _check_gates(rep, outs, covplan, devs):
    # ---- stage 1a: coverage read back (vacuity gate)
    cov = [o for o in outs if o["kind"] == "cov"][0]
    rep.stage1.append({"run": "MC_Pool unsharded, -coverage 1, " + json.dumps(covplan), "distinct_states": cov["distinct"],
                       "states_generated": cov["generated"], "depth": cov["depth"], "wall_s": round(cov["wall"], 2)})
    if cov["violated"] or cov["error"]:
        rep.violation("ModelViolatesRules", f"TLC: {cov['violated'] or cov['error']} on the Model with KnownDefects = {{}}", None)
    missing = [a for a in ACTIONS if cov["coverage"].get(a, (0, 0))[1] == 0]
    if missing:
        raise tlc.MachineryError(f"vacuous model: actions never taken {missing}")
    rep.extra["action_coverage"] = {a: cov["coverage"][a][1] for a in ACTIONS}
    # ---- stage 1b: named deviations must be caught by the expected clause
    dev_res = {}
    for o in outs:
        if o["kind"] == "dev":
            dev_res[o["const"]] = o["violated"]
            want = (o["clause"],) if isinstance(o["clause"], str) else tuple(o["clause"])
            if not set(want) & set(o["violated"]):
                raise tlc.MachineryError(f"deviation {o['const']} should violate {o['clause']}; TLC reported "
                                         f"{o['violated'] or o['error']}")
    if len(dev_res) != len(devs):
        raise tlc.MachineryError("deviation runs missing")
    rep.extra["deviations_caught"] = dev_res


def run(rep):
    quick = rep.tier == "quick"
    findings = known.load("C01")
    plans = QUICK_PLANS if quick else THOROUGH_PLANS
    counters = {"events": 0, "clauses": {}, "known": 0}
    rep.extra["tree_traits"] = detect_traits()
    rep.extra["tree_puts_placeholder_without_checkout"] = TRAITS["put_without_checkout"]
    rep.rule = ("a history is non-trivial when it contains a fault, retry, redirect, non-2xx reply, a server cut or a "
                "disposal other than read-all (i.e. anything but single clean 200 requests read to the end); "
                "distinct_nontrivial counts distinct (configuration, steps) keys; every history is executed on the real "
                "pool and its trace judged by TLC with the Rules operators of spec/Pool.tla")
    rep.assumptions = ["single caller thread (concurrency is C02)", "plain-HTTP direct and forwarding-proxy pools; "
                       "CONNECT/TLS routes not exercised", "sockets are in-memory socketpairs; 'closed' means the client "
                       "called close() and the peer saw EOF after the caller dropped its responses and gc.collect()",
                       "TLC 1.8, CPython http.client and vh/net.py are trusted"]
    k = max(1, JOBS)
    # quick: a small dedicated plan that still takes every action; thorough: the "2req" plan itself, whose Finish
    # count is then compared with what the shards emitted
    covplan = dict(COVPLAN_QUICK) if quick else dict(plans[1][1])
    devs = DEVIATIONS[:8] if quick else DEVIATIONS
    nrand, chunks = (1600, 8) if quick else (60000, 48)      # chunking independent of VERIF_JOBS: same seed,
    per = nrand // chunks                                       # same histories on any machine
    # One task list, heaviest first, so that the JVMs of stage 1 overlap with emission / replay / validation:
    #   emit  stage 1 (invariants on the shard's share of the histories) + 2 + 3 + 4 for one shard of one plan
    #   cov   stage 1a: the unsharded model with -coverage 1 (vacuity gate, independent count of Finish states)
    #   dev   stage 1b: a named deviation that TLC must refute with the expected clause
    #   rand  seeded random histories beyond the bound (stages 3 + 4)
    gates = [("cov", (covplan, 2 if k > 2 else 1))] + [("dev", d) for d in devs]
    tasks = []
    if quick:      # small plans: one task per shard runs them all (fewer JVM start-ups)
        tasks += [("emit", (plans, k, s)) for s in range(k)]
    else:
        for name, plan in sorted(plans, key=lambda np: -int(np[1]["maxreqs"])):
            tasks += [("emit", ([(name, plan)], k, s)) for s in range(k)]
    tasks += [("rand", (rep.seed * 100003 + c, per)) for c in range(chunks)]
    with mp.Pool(k) as pool:
        pg = pool.map_async(_task, gates, chunksize=1)
        pending = pool.map_async(_task, tasks, chunksize=1)
        rep.extra["monitor_selftest"] = monitor_selftest()        # meanwhile, in the parent
        gouts = pg.get()
        _check_gates(rep, gouts, covplan, devs)                   # fail fast: before the long batch is awaited
        outs = gouts + pending.get()
    finish_expected = [o for o in outs if o["kind"] == "cov"][0]["coverage"]["Finish"][0]
    # ---- stage 1 (sharded) + 2/3/4 per plan
    eo = [o for o in outs if o["kind"] == "emit"]
    for name, plan in plans:
        po = [o["per_plan"][name] for o in eo if name in o["per_plan"]]
        kk = 1 if plan.get("shards") == 1 else k
        if len(po) != kk:
            raise tlc.MachineryError(f"plan {name}: {len(po)} of {kk} shards reported")
        for o in po:
            if o["violated"] or o["error"]:
                rep.violation("ModelViolatesRules", f"TLC: {o['violated'] or o['error']} in plan {name}", None)
        emitted = sum(o["emitted"] for o in po)
        if emitted == 0:
            raise tlc.MachineryError(f"plan {name}: nothing emitted")
        m = int(plan.get("sample", 1))
        if plan == covplan and not (emitted == finish_expected if m == 1 else
                                    0.7 * finish_expected <= emitted * m <= 1.3 * finish_expected):
            raise tlc.MachineryError(f"plan {name}: {emitted} histories emitted by the shards (sample 1/{m}), the "
                                     f"unsharded run counted {finish_expected} Finish states")
        rep.states += sum(o["distinct"] for o in po)
        rep.transitions += sum(o["generated"] for o in po)
        rep.stage1.append({"run": f"MC_Pool {name} {json.dumps(plan)} ({k} shards, invariants checked)",
                           "distinct_states": sum(o["distinct"] for o in po),
                           "states_generated": sum(o["generated"] for o in po),
                           "depth": max(o["depth"] for o in po), "wall_s": round(max(o["wall"] for o in po), 1),
                           "histories_emitted": emitted})
    _absorb(rep, findings, eo, counters)       # raises unless every emitted history was replayed and judged
    # ---- random histories beyond the bound
    ro = [o for o in outs if o["kind"] == "rand"]
    if len(ro) != chunks:
        raise tlc.MachineryError("random chunks missing")
    _absorb(rep, findings, ro, counters)
    rep.extra["random_histories"] = per * chunks
    rep.extra["trace_events"] = counters["events"]
    rep.extra["verdicts"] = counters["clauses"]
    rep.extra["known_finding_traces"] = counters["known"]
    rep.extra["expectations_compared"] = counters.get("compared", 0)
    rep.extra["expectations_skipped_at_known_deviation"] = counters.get("skipped_dev", 0)
    if counters["clauses"].get("ok", 0) == 0:
        raise tlc.MachineryError("no trace was accepted: the monitor is not judging anything")
    rep.exhaustive = True


def replay(rep, path):
    with open(path) as fh:
        doc = json.load(fh)
    case = doc["case"]
    if not case or case.get("kind") != "scenario":
        raise tlc.MachineryError("nothing to replay in " + path)
    sc = case["scenario"]
    findings = known.load("C01")
    j = Judge()
    j.add(sc, "fin" in sc)
    out = j.result()
    out.update(name="replay", shard=0, emitted=1)
    _absorb(rep, findings, [out], {"events": 0, "clauses": {}, "known": 0})
    rep.rule = "replay of one recorded history"
    rep.states = rep.states or 1
    rep.transitions = rep.transitions or 1
