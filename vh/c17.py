"""C17 — the pool cache is bounded, consistent, and never leaks an evicted pool.

Container (RecentlyUsedContainer), sequential
  A1  TLC checks the reference model spec/LRU.tla (Bound, UniqueKeys, Refresh, EvictsOldest,
      ExactlyOnce, ReadOnly, ClearEmpties, DeleteRemoves) over 4 keys, maxsize 0..3: the collapsed
      graph contains every operation sequence of every length
  A2  TLC emits every transition (from, op, result, disposed, to) of that graph; each one is
      replayed on a real container built through the public API, the recency order read back by
      evicting the survivors one by one (public API only)
  A3  all operation sequences of a fixed length + seeded random ones (<= 8 and longer) are run on
      real containers, recorded and validated by TLC (spec/LRU_Trace.tla, total monitor)
Container, concurrent
  B1  TLC checks spec/LRUConc.tla (statement-level model of every method, 2-3 threads):
      MutualExclusion, Linearizable, Bounded, DisposeOutsideLock, ExactlyOnce, NoLostUpdate,
      SamePool, EffectInsideLock, Termination
  B2  TLC emits (BigStep) the set of outcomes the model allows for every small program
  B3  every such program runs on the real container with REAL threads under vh/lrusched.py
      (bounded-preemption DFS + seeded random schedules, optional LINE-level yield points);
      outcomes are compared with the emitted sets, every distinct history is validated by TLC
      (spec/LRUConc_Trace.tla: linearizability search over LRU!Apply, exactly-once / outside-lock
      disposal; the event sequence as a behaviour of LRUConc = drift)
PoolManager
  C1  TLC checks spec/PoolCache.tla (AtMostNumPools, SameKeySamePool, LRUEvicted,
      EvictedPoolSocketsClosedWhenUnused, CachedPoolNeverClosed, InFlightResponseFinishes, ...)
      and, as a vacuity guard, that each named deviation breaks exactly the rule it aims at
  C2  TLC emits scenarios (requests to 3-4 origins, responses left in flight, handles kept,
      clear, drops, gc) with the expected observations; each is replayed on a real PoolManager
      over vh/net.py; ground truth for "socket closed" is EOF at the peer
  C3  the recorded traces (+ seeded random walks) are validated by TLC (spec/PoolCache_Trace.tla)
  C4  racing connection_from_url / request for equal keys (case / default-port variants) under the
      scheduler; histories validated by LRUConc_Trace (SameKeySamePool, InFlightResponseFinishes)
"""
from __future__ import annotations

import gc
import itertools
import json
import multiprocessing as mp
import os
import random
import re
import time
import weakref

from . import tlc
from .lrusched import (Abort, FixedChooser, RandomChooser, Sched, SchedError, SchedRLock, explore,
                       instrument_lines)

NONE, KEYERROR = "<none>", "<KeyError>"
KEYS = ["a", "b", "c", "d"]
J = int(os.environ.get("VERIF_JOBS") or 0) or os.cpu_count() or 4     # size of every pool
NPROC = J
# at most this many JVMs of this check at a time (all of them on a free machine, one when asked to be small)
JVM_SLOTS = J if J >= 8 else max(1, J // 4)
_jvm_gate = None


def _init_worker(gate):
    global _jvm_gate
    _jvm_gate = gate


def _ruc():
    from urllib3._collections import RecentlyUsedContainer
    return RecentlyUsedContainer


def run_tlc(*a, **kw):
    """tlc.run behind the JVM gate, with one retry: on a machine shared with other jobs a JVM is
    occasionally killed."""
    if isinstance(kw.get("workers"), int):
        kw["workers"] = max(1, min(kw["workers"], J))
    kw.setdefault("heap", "3g")
    gate = _jvm_gate
    if gate is not None:
        gate.acquire()
    try:
        try:
            return tlc.run(*a, **kw)
        except tlc.MachineryError as ex:
            if "no summary" not in str(ex) and "timed out" not in str(ex):
                raise
            time.sleep(1.0)
            return tlc.run(*a, **kw)
    finally:
        if gate is not None:
            gate.release()


def validate(module, cfg, traces, timeout=3600):
    """Batch trace validation by TLC.  Returns (result, verdicts {tid: (pos, clause)}, drifts)."""
    text = "[" + ",".join(t if isinstance(t, str) else json.dumps(t) for t in traces) + "]"
    r = run_tlc(module, cfg, workers=1, files={"traces.json": text}, env={"TRACE_FILE": "traces.json"}, timeout=timeout)
    verdicts = {}
    for t in tlc.tagged_tuples(r.out, "VERDICT"):
        if len(t) != 3 or t[0] in verdicts:
            raise tlc.MachineryError(f"{module}: malformed / duplicate verdict {t}")
        verdicts[t[0]] = (t[1], t[2])
    if sorted(verdicts) != list(range(1, len(traces) + 1)):
        raise tlc.MachineryError(f"{module}: {len(verdicts)} verdicts for {len(traces)} traces\n{r.out[-2000:]}")
    drifts = [t for t in tlc.tagged_tuples(r.out, "DRIFT")]
    return r, verdicts, drifts


# =================================================================================================
# A. sequential container

LRU_MC_CFG = """SPECIFICATION Spec
CONSTANTS Keys <- MCKeys
 Values <- MCValues
 MaxSizes <- MCMaxSizes
VIEW View
{props}
CHECK_DEADLOCK FALSE
{emit}
"""
LRU_PROPS = ["INVARIANT TypeOK", "INVARIANT Bound", "INVARIANT UniqueKeys", "PROPERTY Refresh",
             "PROPERTY EvictsOldest", "PROPERTY ExactlyOnce", "PROPERTY ReadOnly", "PROPERTY ClearEmpties",
             "PROPERTY DeleteRemoves"]
LRU_TRACE_CFG = """SPECIFICATION TSpec
CONSTANTS Keys <- TrKeys
 Values <- TrValues
 MaxSizes <- TrMaxSizes
CHECK_DEADLOCK FALSE
"""


class DisposeRec:
    """dispose_func that records the values and whether the caller held the container's lock."""

    def __init__(self):
        self.vals, self.held, self.lock = [], False, None

    def __call__(self, v):
        self.vals.append(v)
        if self.lock is not None and self.lock.held_by_me():
            self.held = True

    def take(self):
        v, h = self.vals, self.held
        self.vals, self.held = [], False
        return v, h


def new_container(m, hasd=True):
    rec = DisposeRec()
    c = _ruc()(m, dispose_func=rec if hasd else None)
    lock = SchedRLock(None)
    c.lock = lock            # the public `lock` attribute (anchor: observe_at)
    rec.lock = lock
    return c, rec, lock


def apply_op(c, op, k, v, show=str):
    """One operation through the public API.  Returns (res, rk)."""
    try:
        if op == "get":
            return show(c[k]), []
        if op == "getd":
            x = c.get(k)
            return (NONE if x is None else show(x)), []
        if op == "has":
            return ("True" if k in c else "False"), []
        if op == "set":
            c[k] = v
            return NONE, []
        if op == "del":
            del c[k]
            return NONE, []
        if op == "clear":
            c.clear()
            return NONE, []
        if op == "len":
            return str(len(c)), []
        if op == "keys":
            return "<keys>", sorted(c.keys())
    except KeyError:
        return KEYERROR, []
    raise tlc.MachineryError("unknown op " + op)


def peek_order(c):
    """Harness-side probe of the recency order (no effect on it); None when the layout changed."""
    d = getattr(c, "_container", None)
    if not isinstance(d, dict):
        return None
    return [{"k": k, "v": v} for k, v in list(d.items())]


def check_transition(t):
    """Replay one TLC-emitted transition on a real container.  None or (clause, detail)."""
    m, frm, op, to = t["m"], t["from"], t["op"], t["to"]
    c, rec, lock = new_container(m)
    serial, cur = 0, {}
    for e in frm:                                  # build the from-state: plain sets, oldest first
        serial += 1
        cur[e["k"]] = serial * 10 + e["v"]
        c[e["k"]] = cur[e["k"]]
    if rec.vals or len(c) != len(frm):
        return ("Bound", f"{len(frm)} sets into an empty container of maxsize {m} evicted {rec.vals}, len {len(c)}")
    rec.take()
    serial += 1
    rv = serial * 10 + op["v"] if op["op"] == "set" else 0
    try:
        res, rk = apply_op(c, op["op"], op["k"], rv, show=lambda x: str(x % 10))
    except Exception as ex:
        return ("ReturnValue", f"raised {ex!r}")
    disp, held = rec.take()
    if res != op["res"] or (op["op"] == "keys" and sorted(rk) != sorted(op["rk"])):
        return ("ReturnValue", f"got {res!r}/{rk} want {op['res']!r}/{op['rk']}")
    if sorted(x % 10 for x in disp) != sorted(op["disp"]):
        return ("DisposeExactlyOnce", f"disposed {[x % 10 for x in disp]} want {op['disp']}")
    if held:
        return ("DisposeOutsideLock", "dispose_func ran while the caller held the lock")
    if op["op"] == "set":
        cur[op["k"]] = rv
    if len(c) > m:
        return ("Bound", f"len {len(c)} > maxsize {m}")
    want_keys = sorted(e["k"] for e in to)
    if len(c) != len(to) or sorted(c.keys()) != want_keys:
        return ("LRUOrder" if op["op"] == "set" else "ReferenceState", f"keys {sorted(c.keys())} want {want_keys}")
    # recency order through the public API: m fresh keys evict the survivors, least recent first
    for i in range(m):
        c["z%d" % i] = 9000 + i
    drained, held = rec.take()
    want = [cur[e["k"]] for e in to]
    if drained != want or any(x % 10 != e["v"] for x, e in zip(drained, to)):
        return ("LRUOrder", f"eviction order {drained} want {want} (model {to})")
    return None


_TR = re.compile(r'<<"TR", "((?:[^"\\]|\\.)*)">>')
_OUT = re.compile(r'<<"OUT", "((?:[^"\\]|\\.)*)">>')
_SC = re.compile(r'<<"SC", "((?:[^"\\]|\\.)*)">>')


def _unq(s):
    return s.replace('\\\\', '\x00').replace('\\"', '"').replace('\x00', '\\')


def seq_emit_and_replay():
    n, bad, kinds, nontriv, samples = 0, [], {}, 0, []

    def on_line(ln):
        nonlocal n, nontriv
        if not ln.startswith('<<"TR"'):
            return False
        for mm in _TR.finditer(ln):
            t = json.loads(_unq(mm.group(1)))
            n += 1
            kinds[t["op"]["op"]] = kinds.get(t["op"]["op"], 0) + 1
            if t["from"] != t["to"] or t["op"]["disp"]:
                nontriv += 1
            if len(samples) < 2 and t["op"]["disp"] and len(t["from"]) > 1:
                samples.append(t)
            v = check_transition(t)
            if v and len(bad) < 20:
                bad.append((v[0], v[1], t))
        return True

    r = run_tlc("MC_LRU", LRU_MC_CFG.format(props="", emit="ACTION_CONSTRAINT Emit"), workers=1, on_line=on_line,
                timeout=1800)
    return {"n": n, "bad": bad, "kinds": kinds, "nontriv": nontriv, "samples": samples, "generated": r.generated,
            "distinct": r.distinct}


SEQ_OPS = ([(o, k) for o in ("get", "getd", "del", "set") for k in KEYS] + [("has", "a"), ("has", "b")]
           + [("clear", NONE), ("len", NONE), ("keys", NONE)])


def record_seq_trace(m, ops, hasd=True):
    """Run `ops` on one real container; log what the caller can observe after every operation."""
    c, rec, lock = new_container(m, hasd)
    ev, serial = [], 0

    def do(op, k):
        nonlocal serial
        v = 0
        if op == "set":
            serial += 1
            v = serial
        try:
            res, rk = apply_op(c, op, k, v)
        except Exception as ex:
            res, rk = "<raised %s>" % type(ex).__name__, []
        disp, held = rec.take()
        o = peek_order(c)
        ev.append({"op": op, "k": k, "v": v, "res": res, "rk": rk, "disp": disp, "held": held, "n": len(c),
                   "ks": sorted(c.keys()), "hasord": o is not None, "ord": o or []})

    for op, k in ops:
        do(op, k)
    for i in range(m):                     # epilogue: survivors leave in recency order, then clear
        do("set", "z%d" % i)
    do("clear", NONE)
    return {"m": m, "hasd": hasd, "ev": ev}


def _seq_shard(args):
    kind, m, a, b, length, seed = args
    progs = []
    if kind == "all":
        for idx in range(a, b):
            x, ops = idx, []
            for _ in range(length):
                ops.append(SEQ_OPS[x % len(SEQ_OPS)])
                x //= len(SEQ_OPS)
            progs.append((m, ops, True))
    else:
        rng = random.Random(seed)
        for _ in range(b - a):
            mm = rng.choice([0, 1, 2, 3, 3, 2])
            n = rng.randint(1, length)
            progs.append((mm, [rng.choice(SEQ_OPS) for _ in range(n)], rng.random() < 0.9))
    traces = [record_seq_trace(mm, ops, hd) for mm, ops, hd in progs]
    r, verdicts, drifts = validate("LRU_Trace", LRU_TRACE_CFG, traces)
    bad = []
    for tid, (pos, clause) in verdicts.items():
        if clause != "ok" and len(bad) < 10:
            mm, ops, hd = progs[tid - 1]
            bad.append((clause, pos, {"kind": "seqtrace", "m": mm, "ops": ops, "hasd": hd}))
    evictions = sum(1 for t in traces if any(e["disp"] for e in t["ev"][:-1 - t["m"]]))
    return {"n": len(traces), "events": sum(len(t["ev"]) for t in traces), "bad": bad, "drift": drifts[:5],
            "ndrift": len(drifts), "evicting": evictions, "sample": traces[-1] if traces else None}


# =================================================================================================
# B. concurrent container

CONC_MC_CFG = """SPECIFICATION {spec}
CONSTANTS Keys <- MCKeys
 Values <- MCValues
 MaxSizes <- {ms}
 Threads <- {threads}
 OpsPerThread = {n}
 Alphabet <- {alpha}
 InitConts <- {inits}
 HasDispose = {hasd}
 BigStep = {big}
 Deviations <- {dev}
{props}
{emit}
"""
CONC_PROPS = ["INVARIANT MutualExclusion", "INVARIANT Linearizable", "INVARIANT Bounded",
              "INVARIANT DisposeOutsideLock", "INVARIANT ExactlyOnce", "INVARIANT NoLostUpdate",
              "INVARIANT SamePool", "PROPERTY EffectInsideLock"]
CONC_TRACE_CFG = """SPECIFICATION TSpec
CONSTANTS Keys <- TrKeys
 Values <- TrValues
 MaxSizes <- TrMaxSizes
 Threads <- TrThreads
 OpsPerThread = 0
 Alphabet <- TrAlphabet
 InitConts <- TrInitConts
 HasDispose = {hasd}
 BigStep = TRUE
 Deviations <- TrDev
CHECK_DEADLOCK FALSE
"""
EV_DEFAULT = {"t": 0, "o": 0, "e": "", "op": NONE, "k": NONE, "v": 0, "x": 0, "held": False, "res": NONE, "rk": [],
              "err": False}


def _norm_events(evs):
    out = []
    for e in evs:
        d = dict(EV_DEFAULT)
        d.update(e)
        out.append(d)
    return out


def run_container_program(prog, chooser, lines=False):
    """Run prog = {m, init:[[k,v]..], threads:[[(op,k)..]..]} on a real container under the scheduler.
    Returns (history for LRUConc_Trace, Sched)."""
    m = prog["m"]
    s = Sched(chooser)
    lock = SchedRLock(s)

    def dispose(v):
        t = s.me()
        if s.controls(t):
            s.switch(t, "disp")
        s.record(t, "disp", x=v, held=(lock.owner is not None and lock.owner == t))

    c = _ruc()(m, dispose_func=dispose)
    for k, v in prog["init"]:
        c[k] = v
    c.lock = lock
    s.events.clear()

    def do(t, i, op, k):
        s.opidx[t] = i
        v = (10 * t + i if t else 9000 + i) if op == "set" else 0
        s.record(t, "call", op=op, k=k, v=v)
        try:
            res, rk = apply_op(c, op, k, v)
        except Abort:
            raise
        except Exception as ex:
            res, rk = "<raised %s>" % type(ex).__name__, []
        s.record(t, "ret", res=res, rk=rk)

    def body(ops):
        def run(s_, t):
            for i, (op, k) in enumerate(ops, 1):
                s_.switch(t, "call")
                do(t, i, op, k)
        return run

    s.lines = lines
    try:
        s.run({t: body(ops) for t, ops in enumerate(prog["threads"], 1)})
    finally:
        s.lines = False
    closed = False
    if s.deadlock:
        s.record(0, "deadlock")
    else:
        i = 0
        for op, k in [("len", NONE), ("keys", NONE)] + [("set", "z%d" % j) for j in range(m)] + [("clear", NONE)]:
            i += 1
            do(0, i, op, k)
        closed = True
    hist = {"m": m, "hasd": True, "closed": closed, "init": [{"k": k, "v": v} for k, v in prog["init"]],
            "ev": _norm_events(s.events)}
    return hist, s


def outcome_of(hist, nthreads):
    """(per-thread results, final content as drained, disposed set) in the shape of MC_LRUConc's OUT lines."""
    res = {t: [] for t in range(1, nthreads + 1)}
    for e in hist["ev"]:
        if e["e"] == "ret" and e["t"] >= 1:
            res[e["t"]].append((e["res"], tuple(sorted(e["rk"]))))
    drained = [e["x"] for e in hist["ev"] if e["e"] == "disp" and e["t"] == 0 and e["x"] < 9000]
    disposed = sorted({e["x"] for e in hist["ev"] if e["e"] == "disp" and e["t"] >= 1})
    return (tuple(tuple(res[t]) for t in sorted(res)), tuple(drained), tuple(disposed))


def model_outcome(o):
    res = tuple(tuple((d["res"], tuple(sorted(d["rk"]))) for d in th) for th in o["done"])
    return (res, tuple(e["v"] for e in o["final"]), tuple(sorted(o["disposed"])))


def prog_key(m, init, threads):
    return json.dumps([m, init, threads])


def _conc_emit(args):
    """TLC (BigStep) -> {program key: set of outcomes}."""
    cfg = args
    progs = {}

    def on_line(ln):
        if not ln.startswith('<<"OUT"'):
            return False
        for mm in _OUT.finditer(ln):
            o = json.loads(_unq(mm.group(1)))
            key = prog_key(o["m"], [[e["k"], e["v"]] for e in o["init"]],
                           [[[d["op"], d["k"]] for d in th] for th in o["done"]])
            progs.setdefault(key, set()).add(model_outcome(o))
        return True

    r = run_tlc("MC_LRUConc", cfg, workers=1, on_line=on_line, timeout=3600)
    return {"progs": {k: sorted(v) for k, v in progs.items()}, "generated": r.generated, "distinct": r.distinct}


def _h32(*a):
    """Seed derived from the arguments, stable across processes and runs (no str hash())."""
    import zlib
    return zlib.crc32(json.dumps(a, sort_keys=True).encode())


def _hist_key(h):
    return json.dumps(h, sort_keys=True)


def _conc_run_shard(args):
    """Run a list of programs under DFS (+random) schedules; validate the distinct histories by TLC."""
    items, bound, limit, nrand, seed, lines = args
    if lines:
        instrument_lines(_ruc())
    hists, meta = {}, []
    nsched = 0
    complete = 0
    out_bad, unreached = [], 0
    maxpre = 0
    kinds = {}
    for key, allowed in items:
        m, init, threads = json.loads(key)
        prog = {"m": m, "init": init, "threads": threads}
        allowed = {json.dumps(x) for x in allowed} if allowed is not None else None
        seen = set()

        def on_run(s, hist):
            nonlocal maxpre
            hk = _hist_key(hist)
            maxpre = max(maxpre, s.preemptions())
            for kk, vv in s.kinds.items():
                kinds[kk] = kinds.get(kk, 0) + vv
            if hk not in hists:
                hists[hk] = len(meta)
                meta.append({"kind": "conc", "prog": prog, "choices": s.choices(), "lines": lines,
                             "pre": s.preemptions()})
            if allowed is not None and not s.deadlock:
                oc = json.dumps(outcome_of(hist, len(threads)))
                seen.add(oc)
                if oc not in allowed and len(out_bad) < 5:
                    out_bad.append((prog, s.choices(), oc))

        def once(chooser):
            hist, s = run_container_program(prog, chooser, lines)
            s.hist = hist
            return s

        k = explore(once, bound, limit=limit, on_run=lambda s: on_run(s, s.hist))
        nsched += k
        for j in range(nrand):
            s = once(RandomChooser(_h32(seed, key, j)))
            on_run(s, s.hist)
            nsched += 1
        if allowed is not None and (limit is None or k < limit):    # only when the DFS ran to completion
            unreached += len(allowed - seen)
            complete += 1
    traces = [json.loads(hk) for hk in hists]
    bad, ndrift, drift = [], 0, []
    for a in range(0, len(traces), 400):
        chunk = traces[a:a + 400]
        r, verdicts, drifts = validate("LRUConc_Trace", CONC_TRACE_CFG.format(hasd="TRUE"), chunk)
        ndrift += len(drifts)
        drift += [(d, meta[a + d[0] - 1]) for d in drifts[:3]]
        for tid, (pos, clause) in verdicts.items():
            if clause != "ok" and len(bad) < 10:
                bad.append((clause, pos, meta[a + tid - 1]))
    return {"nsched": nsched, "nhist": len(traces), "bad": bad, "ndrift": ndrift, "drift": drift[:3],
            "out_bad": out_bad, "unreached": unreached, "complete": complete, "maxpre": maxpre, "kinds": kinds,
            "preempted": sum(1 for x in meta if x["pre"] > 0),
            "sample": traces[len(traces) // 2] if traces else None}


# =================================================================================================
# C. PoolManager

PC_CFG = """SPECIFICATION {spec}
CONSTANTS Origins <- {O}
 NumPools <- {NP}
 Threads <- {T}
 MaxOps = {N}
 Modes <- {M}
 Deviations <- {D}
 EagerGc = {E}
 Emitting = {emitting}
{props}
ACTION_CONSTRAINT Canonical
{emit}
CHECK_DEADLOCK FALSE
"""
PC_PROPS = ["PROPERTY CachedSocketsKept", "INVARIANT TypeOK", "INVARIANT AtMostNumPools", "INVARIANT SameKeySamePool",
            "INVARIANT EvictedPoolSocketsClosedWhenUnused", "INVARIANT CachedPoolNeverClosed",
            "INVARIANT InFlightResponseFinishes", "INVARIANT UsedPoolAlive", "PROPERTY LRUEvicted"]
PC_ACTIONS = ["StartReq", "StartGoc", "StartHSend", "Lock", "Look", "Create", "Insert", "Unlock", "Send", "Fin",
              "DropR", "DropH", "Clear", "Gc"]
PC_TEETH = {"DevCreateOutsideLock": ("SameKeySamePool", dict(T="T2", N=3, O="O2")),
            "DevCloseOnEvict": ("InFlightResponseFinishes", dict(T="T2", N=3, O="O2")),
            "DevEvictMostRecent": ("LRUEvicted", dict(T="T1", N=3, O="O3")),
            "DevNoRefresh": ("LRUEvicted", dict(T="T1", N=4, O="O3")),
            "DevNoEvict": ("AtMostNumPools", dict(T="T1", N=3, O="O3")),
            "DevKeepEvicted": ("EvictedPoolSocketsClosedWhenUnused", dict(T="T1", N=4, O="O2")),
            "DevCloseWithoutRemoving": ("CachedPoolNeverClosed", dict(T="T1", N=3, O="O2"))}
PC_TRACE_CFG = """SPECIFICATION TSpec
CONSTANTS Origins <- TrOrigins
 NumPools <- TrNumPools
 Threads <- TrThreads
 MaxOps = 48
 Modes <- TrModes
 Deviations <- TrDev
 EagerGc = TRUE
 Emitting = FALSE
CHECK_DEADLOCK FALSE
"""


def pc_cfg(spec="Spec", O="O2", NP="NP12", T="T2", N=3, M="MKeepRead", D="NoDev", E="FALSE", props=True,
           emit="", emitting="FALSE", view=False, live=False):
    p = list(PC_PROPS) if props else []
    if live:
        p.append("PROPERTY EvictedEventuallyCollected")
        spec = "FairSpec"
    if view:
        p.append("VIEW View")
    return PC_CFG.format(spec=spec, O=O, NP=NP, T=T, N=N, M=M, D=D, E=E, props="\n".join(p), emit=emit,
                         emitting=emitting)


def _pc_stage1(args):
    name, cfg, expect = args
    r = run_tlc("MC_PoolCache", cfg, workers=4, heap="3g", coverage=True, timeout=3600, expect_fail=bool(expect))
    if r.error and not r.violated and expect:
        raise tlc.MachineryError(f"{name}: {r.error}")
    return {"name": name, "violated": r.violated, "distinct": r.distinct, "generated": r.generated,
            "depth": r.depth, "wall": r.wall, "coverage": {k: v[1] for k, v in r.coverage.items()}}


VARIANTS = {
    "a": ["http://a.test/", "http://A.TEST:80/p", "HTTP://a.test/q?x=1", "http://a.test:80"],
    "b": ["http://b.test/", "http://B.Test/p", "http://b.test:80/q", "hTTp://B.TEST:80/"],
    "c": ["http://c.test/", "http://C.test:80/", "http://c.TEST/r", "http://c.test:80/s"],
    "d": ["http://d.test/", "http://D.TEST/", "http://d.test:80/t", "http://d.test/u"],
}


def _expected_body(url):
    from urllib3.util import parse_url
    u = parse_url(url)
    return ("%s|%s" % ((u.host or "").lower(), u.request_uri)).encode()


def _responder(peer, req):
    from . import net
    host = (req.header("Host") or "").lower().split(":")[0]
    return net.Reply(net.http_response(200, ("%s|%s" % (host, req.target)).encode()))


class PMState:
    """Identity bookkeeping of the harness: pools by creation order (weak references only)."""

    def __init__(self, idfn=None):
        self.pools = {}        # pool id -> weakref
        self.sock_pool = {}    # connection ordinal of the network -> pool id
        self.used = {}         # thread ident -> pool id that served the last urlopen
        self.idfn = idfn
        self.n = 0

    def new_pool(self, pool):
        self.n += 1
        pid = self.idfn() if self.idfn else self.n
        while pid in self.pools:
            pid += 500
        self.pools[pid] = weakref.ref(pool)
        return pid

    def live(self):
        return sorted(p for p, r in self.pools.items() if r() is not None)


def make_manager(np, state, lock=None):
    """A real PoolManager(num_pools=np) whose pools record their identity (public seams only:
    pool_classes_by_scheme, ConnectionCls, the container's `lock` attribute)."""
    import threading
    import urllib3
    from urllib3.connection import HTTPConnection
    from urllib3.connectionpool import HTTPConnectionPool

    class RConn(HTTPConnection):
        _vh_pool = 0

        def _new_conn(self):
            sock = super()._new_conn()
            state.sock_pool[getattr(sock, "_cid", 0)] = self._vh_pool
            return sock

    class RPool(HTTPConnectionPool):
        ConnectionCls = RConn

        def __init__(self, *a, **kw):
            super().__init__(*a, **kw)
            self._vh_id = state.new_pool(self)

        def _new_conn(self):
            conn = super()._new_conn()
            conn._vh_pool = self._vh_id
            return conn

        def urlopen(self, *a, **kw):
            state.used[threading.get_ident()] = self._vh_id
            return super().urlopen(*a, **kw)

    pm = urllib3.PoolManager(num_pools=np, retries=False, timeout=5.0)
    pm.pool_classes_by_scheme = {"http": RPool, "https": RPool}
    if lock is not None:
        pm.pools.lock = lock
    return pm


def _cached(pm):
    keys = []
    for k in pm.pools.keys():
        keys.append(k.key_host.split(".")[0])
    return sorted(keys), len(pm.pools)


PM_EV_DEFAULT = {"op": "", "k": NONE, "mode": NONE, "ref": 0, "h": 0, "p": 0, "s": 0, "ok": True, "cached": [],
                 "n": 0, "open": [], "live": []}


_frozen = False


def _freeze_once():
    """gc.collect() is the observation point of every scenario: keep it cheap by parking everything
    allocated so far (modules, classes) in the permanent generation."""
    global _frozen
    if not _frozen:
        import urllib3  # noqa: F401
        from . import net  # noqa: F401
        gc.collect()
        gc.freeze()
        _frozen = True


def run_pm_scenario(np, ops):
    """ops: list of dicts {op, k, mode, ref, h} (TLC scenario records or random walk).  Drives a real
    PoolManager over the in-memory network, returns the recorded trace for PoolCache_Trace."""
    import threading
    from . import net as vnet
    _freeze_once()
    state = PMState()
    ev = []
    me = threading.get_ident()
    with vnet.Net(_responder) as net:
        pm = make_manager(np, state)
        resps, hands, urls = {}, {}, {}
        nvar = 0

        def used_sock(mark):
            cids = [x[1] for x in net.log[mark:] if x[0] == "SEND"]
            return cids[-1] if cids else 0

        def send(e, fn, url, mode, ref):
            mark = len(net.log)
            ok = True
            try:
                r = fn(url, mode == "read")
                if r.status != 200:
                    ok = False
                elif mode == "read" and r.data != _expected_body(url):
                    ok = False
                resps[ref] = r
                urls[ref] = url
                r = None
            except Exception as ex:
                ok = False
                e["error"] = type(ex).__name__
            e["ok"] = ok
            e["s"] = used_sock(mark) if ok else 0
            e["p"] = state.used.get(me, 0)

        failed = set()      # responses / handles that never came into being: later uses are skipped
        for o in ops:
            if (o["op"] in ("fin", "dropr") and o.get("ref") in failed) or \
                    (o["op"] == "hsend" and o.get("h") in failed) or (o["op"] == "droph" and o.get("ref") in failed):
                continue
            e = dict(PM_EV_DEFAULT)
            e.update({"op": o["op"], "k": o.get("k", NONE), "mode": o.get("mode", NONE), "ref": o.get("ref", 0),
                      "h": o.get("h", 0)})
            op = o["op"]
            if op in ("req", "goc"):
                nvar += 1
                url = VARIANTS[o["k"]][nvar % 4]
                if op == "goc":
                    try:
                        hands[o["ref"]] = pm.connection_from_url(url)
                        e["p"] = hands[o["ref"]]._vh_id
                    except Exception as ex:
                        e["ok"], e["error"] = False, type(ex).__name__
                else:
                    send(e, lambda u, pre: pm.request("GET", u, preload_content=pre), url, o["mode"], o["ref"])
            elif op == "hsend":
                h = hands.get(o["h"])
                if h is None:
                    raise tlc.MachineryError("scenario uses an unknown handle")
                nvar += 1
                url = VARIANTS[h.host.split(".")[0]][0] + "h%d" % nvar
                e["k"] = h.host.split(".")[0]
                send(e, lambda u, pre: h.request("GET", _path(u), preload_content=pre), url, o["mode"], o["ref"])
                e["p"] = h._vh_id
                h = None
            elif op == "fin":
                r = resps.get(o["ref"])
                if r is None:
                    raise tlc.MachineryError("scenario finishes an unknown response")
                try:
                    data = r.read()
                    r.release_conn()
                    e["ok"] = data == _expected_body(urls[o["ref"]])
                except Exception as ex:
                    e["ok"], e["error"] = False, type(ex).__name__
                r = None
            elif op == "dropr":
                resps.pop(o["ref"], None)
            elif op == "droph":
                hands.pop(o["ref"], None)
            elif op == "clear":
                pm.clear()
            elif op == "gc":
                gc.collect()
                e["open"] = sorted(net.open_conns())
                e["live"] = state.live()
            else:
                raise tlc.MachineryError("unknown scenario op " + op)
            if op in ("req", "goc", "hsend") and not e["ok"]:
                failed.add(o["ref"])
            e["cached"], e["n"] = _cached(pm)
            ev.append(e)
        # epilogue: let go of everything; nothing may stay open
        for ref in sorted(resps):
            resps.pop(ref)
            ev.append(dict(PM_EV_DEFAULT, op="dropr", ref=ref, cached=_cached(pm)[0], n=_cached(pm)[1]))
        for ref in sorted(hands):
            hands.pop(ref)
            ev.append(dict(PM_EV_DEFAULT, op="droph", ref=ref, h=ref, cached=_cached(pm)[0], n=_cached(pm)[1]))
        pm.__exit__(None, None, None)          # `with PoolManager(...) as pm:` ends with clear()
        ev.append(dict(PM_EV_DEFAULT, op="clear", cached=_cached(pm)[0], n=_cached(pm)[1]))
        gc.collect()
        ev.append(dict(PM_EV_DEFAULT, op="gc", open=sorted(net.open_conns()), live=state.live()))
        pm = None
    return {"np": np, "ev": ev}


def _path(url):
    from urllib3.util import parse_url
    return parse_url(url).request_uri


def compare_expected(hist, trace):
    """Expected observations that TLC attached to the scenario vs what the real manager showed
    (pool / socket identities up to renaming).  Returns a list of mismatch descriptions."""
    pm_, sm_ = {}, {}
    out = []
    for i, (x, e) in enumerate(zip(hist, trace["ev"])):
        if x["op"] != e["op"]:
            out.append(f"step {i + 1}: op {e['op']} vs {x['op']}")
            break
        if x["ok"] != e["ok"]:
            out.append(f"step {i + 1} {x['op']}: ok={e['ok']} expected {x['ok']}")
        if x["op"] in ("req", "goc", "hsend") and x["ok"] and e["ok"]:
            if pm_.setdefault(x["p"], e["p"]) != e["p"] or list(pm_.values()).count(e["p"]) > 1:
                out.append(f"step {i + 1} {x['op']}: pool identity differs from the model's")
            if x["op"] != "goc" and (sm_.setdefault(x["s"], e["s"]) != e["s"] or list(sm_.values()).count(e["s"]) > 1):
                out.append(f"step {i + 1} {x['op']}: socket identity differs from the model's")
        if sorted(x["cached"]) != e["cached"] or x["n"] != e["n"]:
            out.append(f"step {i + 1} {x['op']}: cached {e['cached']} expected {sorted(x['cached'])}")
        if x["op"] == "gc":
            if sorted(sm_.get(s, -s) for s in x["open"]) != e["open"]:
                out.append(f"step {i + 1} gc: open sockets {e['open']} expected {sorted(sm_.get(s, -s) for s in x['open'])}")
            if sorted(pm_.get(p, -p) for p in x["live"]) != e["live"]:
                out.append(f"step {i + 1} gc: live pools {e['live']} expected {sorted(pm_.get(p, -p) for p in x['live'])}")
    return out


def _scenario_nontrivial(trace):
    """A pool left the cache (evicted or cleared) while a response on it was in flight or the
    caller held a handle to it - judged on the recorded trace."""
    kp, inflight, held, cached_p = {}, {}, {}, set()
    for e in trace["ev"]:
        op = e["op"]
        if op in ("req", "goc") and e["ok"]:
            kp[e["k"]] = e["p"]
        if op in ("req", "hsend") and e["ok"] and e["mode"] == "keep":
            inflight[e["ref"]] = e["p"]
        elif op in ("fin", "dropr"):
            inflight.pop(e["ref"], None)
        elif op == "goc" and e["ok"]:
            held[e["ref"]] = e["p"]
        elif op == "droph":
            held.pop(e["ref"], None)
        now = {kp[k] for k in e["cached"] if k in kp}
        gone = cached_p - now
        if gone & (set(inflight.values()) | set(held.values())):
            return True
        cached_p = now
    return False


def _pm_shard(args):
    """Replay a batch of scenarios / random walks on real managers, validate the traces by TLC.
    Everything that outlives one scenario is kept as JSON text: gc.collect() is this part's
    observation point and must not have to walk over thousands of parked dicts."""
    scen, seed, nrandom, maxlen = args
    rng = random.Random(seed)
    traces, tops, inputs, exp_bad, nontriv, events, sample = [], [], [], [], 0, 0, None
    t_run = time.time()
    for i in range(len(scen) + nrandom):
        if i < len(scen):
            d = json.loads(_unq(scen[i])) if isinstance(scen[i], str) else scen[i]
            np, hist, kind = d["np"], d["hist"], "scenario"
        else:
            np, hist, kind = rng.choice([1, 2, 2, 3]), random_pm_walk(rng, rng.randint(3, maxlen)), "random"
        tr = run_pm_scenario(np, hist)
        if _scenario_nontrivial(tr):
            nontriv += 1
        if kind == "scenario":
            mm = compare_expected(hist, tr)
            if mm and len(exp_bad) < 5:
                exp_bad.append((mm[:3], np, _strip(hist)))
        events += len(tr["ev"])
        tops.append(max([1] + [max(e["ref"], e["h"], e["p"], e["s"]) for e in tr["ev"]]))
        if sample is None:
            sample = {"np": np, "ev": tr["ev"][:4]}
        traces.append(json.dumps(tr))
        inputs.append(json.dumps({"kind": "pmscenario", "np": np, "ops": _strip(hist)}))
    t_run = time.time() - t_run
    bad, drift, ndrift = [], [], 0
    step, nsc = 1000, len(scen)
    for a, b in [(x, min(x + step, nsc)) for x in range(0, nsc, step)] + \
                [(x, min(x + step, len(traces))) for x in range(nsc, len(traces), step)]:
        top = max(tops[a:b])
        if top > 47:
            raise tlc.MachineryError("trace uses ids beyond the monitor's range")
        r, verdicts, drifts = validate("PoolCache_Trace", PC_TRACE_CFG.replace("MaxOps = 48", "MaxOps = %d" % (top + 1)),
                                       traces[a:b])
        ndrift += len(drifts)
        for dd in drifts[:3]:
            case = json.loads(inputs[a + dd[0] - 1])
            drift.append((list(dd), case["np"], case["ops"]))
        for tid, (pos, clause) in verdicts.items():
            if clause != "ok" and len(bad) < 10:
                bad.append((clause, pos, json.loads(inputs[a + tid - 1])))
    return {"n": len(traces), "events": events, "bad": bad, "drift": drift[:3], "ndrift": ndrift, "exp_bad": exp_bad,
            "nontriv": nontriv, "t_run": t_run, "sample": sample}


def _strip(hist):
    return [{k: x.get(k, PM_EV_DEFAULT[k]) for k in ("op", "k", "mode", "ref", "h")} for x in hist]


def random_pm_walk(rng, n):
    ops, resp_in, resp_done, hands, ref = [], [], [], [], 0
    keys = "abcd"
    for _ in range(n):
        ref += 1
        choices = ["req", "req", "req", "goc"]
        if hands:
            choices += ["hsend", "droph"]
        if resp_in:
            choices += ["fin", "fin", "dropr"]
        if resp_done:
            choices += ["dropr"]
        choices += ["clear"] if rng.random() < 0.3 else []
        choices += ["gc"]
        op = rng.choice(choices)
        o = {"op": op, "k": NONE, "mode": NONE, "ref": 0, "h": 0}
        if op == "req":
            o.update(k=rng.choice(keys), mode=rng.choice(["keep", "read"]), ref=ref)
            (resp_in if o["mode"] == "keep" else resp_done).append(ref)
        elif op == "goc":
            o.update(k=rng.choice(keys), ref=ref)
            hands.append(ref)
        elif op == "hsend":
            o.update(h=rng.choice(hands), mode=rng.choice(["keep", "read"]), ref=ref)
            (resp_in if o["mode"] == "keep" else resp_done).append(ref)
        elif op == "fin":
            o.update(ref=rng.choice(resp_in))
            resp_in.remove(o["ref"])
            resp_done.append(o["ref"])
        elif op == "dropr":
            o.update(ref=rng.choice(resp_in + resp_done))
            (resp_in if o["ref"] in resp_in else resp_done).remove(o["ref"])
        elif op == "droph":
            o.update(ref=rng.choice(hands))
            o["h"] = o["ref"]
            hands.remove(o["ref"])
        ops.append(o)
        if op != "gc" and rng.random() < 0.5:
            ops.append({"op": "gc", "k": NONE, "mode": NONE, "ref": 0, "h": 0})
    return ops


def _pc_emit(args):
    cfg, shard, nshards = args
    scen = []

    def on_line(ln):
        if not ln.startswith('<<"SC"'):
            return False
        for mm in _SC.finditer(ln):
            scen.append(mm.group(1))
        return True

    r = run_tlc("MC_PoolCache", cfg, workers=1, on_line=on_line, timeout=3600)
    return {"scen": scen, "generated": r.generated, "distinct": r.distinct}


# ---- racing get-or-create / requests on one manager

def run_pm_race(prog, chooser, lines=False):
    """prog = {np, init:[k..], threads:[[(op,k)..]..]}; op in goc / req / clear / len.
    Real threads call connection_from_url / request / clear / len(pools) on one PoolManager whose
    container lock is the scheduler's.  Returns (history for LRUConc_Trace, Sched)."""
    import threading
    from . import net as vnet
    np = prog["np"]
    s = Sched(chooser)
    lock = SchedRLock(s)
    state = PMState(idfn=lambda: (10 * s.me() + s.opidx.get(s.me(), 0)) if s.me() else
                    (9000 + s.opidx[0] if 0 in s.opidx else 100 + state.n))
    with vnet.Net(_responder) as net:
        pm = make_manager(np, state, lock=None)
        for k in prog["init"]:
            pm.connection_from_url(VARIANTS[k][0])
        init = [{"k": k, "v": 100 + i} for i, k in enumerate(prog["init"], 1)]
        pm.pools.lock = lock
        s.events.clear()
        nvar = [0]

        def do(t, i, op, k):
            s.opidx[t] = i
            v = (10 * t + i if t else 9000 + i) if op in ("goc", "req") else 0
            s.record(t, "call", op="goc" if op == "req" else op, k=k, v=v)
            res, err = NONE, False
            try:
                if op == "goc":
                    nvar[0] += 1
                    res = str(pm.connection_from_url(VARIANTS[k][nvar[0] % 4])._vh_id)
                elif op == "req":
                    nvar[0] += 1
                    url = VARIANTS[k][nvar[0] % 4]
                    r = pm.request("GET", url)
                    err = r.status != 200 or r.data != _expected_body(url)
                    res = str(state.used.get(threading.get_ident(), 0))
                elif op == "clear":
                    pm.clear()
                elif op == "len":
                    res = str(len(pm.pools))
            except Abort:
                raise
            except Exception as ex:
                res, err = "<raised %s>" % type(ex).__name__, True
            s.record(t, "ret", res=res, err=err)

        def body(ops):
            def run(s_, t):
                for i, (op, k) in enumerate(ops, 1):
                    s_.switch(t, "call")
                    do(t, i, op, k)
            return run

        s.lines = lines
        try:
            s.run({t: body(ops) for t, ops in enumerate(prog["threads"], 1)})
        finally:
            s.lines = False
        closed = False
        if s.deadlock:
            s.record(0, "deadlock")
        else:
            i = 0
            for op, k in [("len", NONE)] + [("goc", "d")] * min(np, 1) + [("clear", NONE), ("len", NONE)]:
                i += 1
                do(0, i, op, k)
            closed = True
        pm = None
    hist = {"m": np, "hasd": False, "closed": closed, "init": init, "ev": _norm_events(s.events)}
    return hist, s


def _race_shard(args):
    progs, bound, limit, nrand, seed, lines = args
    if lines:
        from urllib3.poolmanager import PoolManager
        instrument_lines(_ruc(), PoolManager.connection_from_pool_key, PoolManager.connection_from_context,
                         PoolManager.connection_from_host, PoolManager.connection_from_url, PoolManager.clear)
    hists, meta, nsched, maxpre = {}, [], 0, 0
    for prog in progs:
        def once(chooser, prog=prog):
            hist, s = run_pm_race(prog, chooser, lines)
            s.hist = hist
            return s

        def on_run(s, prog=prog):
            nonlocal maxpre
            maxpre = max(maxpre, s.preemptions())
            hk = _hist_key(s.hist)
            if hk not in hists:
                hists[hk] = len(meta)
                meta.append({"kind": "pmrace", "prog": prog, "choices": s.choices(), "lines": lines,
                             "pre": s.preemptions()})

        nsched += explore(once, bound, limit=limit, on_run=on_run)
        for j in range(nrand):
            on_run(once(RandomChooser(_h32(seed, prog, j))))
            nsched += 1
    traces = [json.loads(hk) for hk in hists]
    bad, ndrift, drift = [], 0, []
    for a in range(0, len(traces), 400):
        chunk = traces[a:a + 400]
        r, verdicts, drifts = validate("LRUConc_Trace", CONC_TRACE_CFG.format(hasd="FALSE"), chunk)
        ndrift += len(drifts)
        drift += [(d, meta[a + d[0] - 1]) for d in drifts[:3]]
        for tid, (pos, clause) in verdicts.items():
            if clause != "ok" and len(bad) < 10:
                bad.append((clause, pos, meta[a + tid - 1]))
    return {"nsched": nsched, "nhist": len(traces), "bad": bad, "ndrift": ndrift, "drift": drift[:3],
            "maxpre": maxpre, "preempted": sum(1 for x in meta if x["pre"] > 0),
            "sample": traces[len(traces) // 2] if traces else None}


def _timed(fn):
    import functools

    @functools.wraps(fn)
    def w(args):
        t0 = time.time()
        o = fn(args)
        o["t"] = time.time() - t0
        return o
    return w


for _f in ("_seq_shard", "_conc_emit", "_conc_run_shard", "_pm_shard", "_pc_emit", "_race_shard"):
    globals()[_f] = _timed(globals()[_f])


# =================================================================================================
# orchestration

RACE_OPS = [("goc", "a"), ("goc", "b"), ("req", "a"), ("req", "b"), ("clear", NONE), ("len", NONE)]
RACE_FIXED = [
    {"np": 1, "init": ["a"], "threads": [[("goc", "a")], [("clear", NONE)]]},
    {"np": 2, "init": ["a"], "threads": [[("req", "a")], [("clear", NONE)]]},
    {"np": 2, "init": ["a", "b"], "threads": [[("goc", "a")], [("goc", "b")], [("clear", NONE)]]},
    {"np": 1, "init": [], "threads": [[("goc", "a")], [("goc", "a")], [("goc", "a")]]},
    {"np": 2, "init": [], "threads": [[("goc", "a"), ("goc", "b")], [("goc", "b"), ("goc", "a")]]},
    {"np": 1, "init": [], "threads": [[("req", "a")], [("req", "b")]]},
    {"np": 1, "init": ["a"], "threads": [[("req", "a"), ("req", "a")], [("req", "b")]]},
    {"np": 2, "init": ["a"], "threads": [[("goc", "a"), ("goc", "a")], [("clear", NONE), ("goc", "a")]]},
    {"np": 1, "init": ["a"], "threads": [[("req", "a")], [("clear", NONE)], [("goc", "a")]]},
]


def race_programs(rng, n):
    out = [json.loads(json.dumps(p)) for p in RACE_FIXED]
    while len(out) < n:
        shape = rng.choice([(2, 2), (3, 1), (2, 1), (3, 2)])
        out.append({"np": rng.choice([1, 2]), "init": rng.choice([[], ["a"], ["a", "b"]])[:2],
                    "threads": [[list(rng.choice(RACE_OPS)) for _ in range(shape[1])] for _ in range(shape[0])]})
    for p in out:
        p["init"] = p["init"][:p["np"]]
        p["threads"] = [[list(o) for o in th] for th in p["threads"]]
    return out


def random_container_programs(rng, n):
    ops = [(o, k) for o in ("get", "getd", "has", "set", "del") for k in "abc"] + [("clear", NONE), ("len", NONE), ("keys", NONE)]
    out = []
    for _ in range(n):
        m = rng.choice([0, 1, 1, 2, 2, 3])
        init = [["a", 101], ["b", 102], ["c", 103]][:rng.randint(0, m)]
        nt = rng.choice([2, 3, 3])
        out.append(prog_key(m, init, [[list(rng.choice(ops)) for _ in range(rng.randint(1, 3))] for _ in range(nt)]))
    return out


PAIR_OPS = [("get", "a"), ("getd", "a"), ("has", "a"), ("set", "a"), ("set", "b"), ("set", "c"), ("del", "a"),
            ("clear", NONE), ("len", NONE), ("keys", NONE)]


def pair_programs():
    """Every unordered pair of single operations as a 2-thread program on a full container
    (a, b cached, maxsize 2): explored with LINE-level yield points, i.e. with preemptions INSIDE the
    lock-held sections.  Whether the other thread "would block" there is never assumed: it is run,
    and it is disabled only once it has really reached acquire() of the lock somebody holds."""
    out = []
    for i, x in enumerate(PAIR_OPS):
        for y in PAIR_OPS[i:]:
            out.append(prog_key(2, [["a", 101], ["b", 102]], [[list(x)], [list(y)]]))
    return out


def _chunks(xs, n):
    n = max(1, n)
    k = (len(xs) + n - 1) // n
    return [xs[i:i + k] for i in range(0, len(xs), k)] if xs else []


def _stage1_conc(args):
    name, cfg, need = args[:3]
    expect = args[3] if len(args) > 3 else None
    r = run_tlc("MC_LRUConc", cfg, workers=6, heap="3g", coverage=True, timeout=7200, expect_fail=bool(expect))
    if expect and r.error and not r.violated:
        raise tlc.MachineryError(f"{name}: {r.error}")
    return {"name": name, "expect": expect, "violated": r.violated, "distinct": r.distinct, "generated": r.generated,
            "depth": r.depth, "wall": r.wall, "coverage": {k: v[1] for k, v in r.coverage.items()}, "need": need}


def _stage1_lru(_):
    r = run_tlc("MC_LRU", LRU_MC_CFG.format(props="\n".join(LRU_PROPS), emit=""), workers=4, heap="2g", timeout=1800)
    return {"name": "MC_LRU 4 keys, values {1,2}, maxsize 0..3", "violated": r.violated, "distinct": r.distinct,
            "generated": r.generated, "depth": r.depth, "wall": r.wall}


def _short(ev, n):
    return [{k: v for k, v in e.items() if v not in (NONE, 0, [], False) or k == "t"} for e in ev[:n]]


class _PartA:
    """sequential container: emission + replay, recorded sequences validated by LRU_Trace"""

    def submit(self, pool, rep, quick, rng):
        self.emit = pool.apply_async(seq_emit_and_replay)
        L = 3 if quick else 4
        total = len(SEQ_OPS) ** L
        jobs = []
        nsh = 3 if quick else 24
        for m in (0, 1, 2, 3):
            for i in range(nsh):
                jobs.append(("all", m, total * i // nsh, total * (i + 1) // nsh, L, 0))
        nr, per = (4, 250) if quick else (16, 3000)
        for i in range(nr):
            jobs.append(("rand", 0, 0, per, 8 if i % 2 == 0 else 30, rep.seed * 1000 + i))
        self.tr = pool.map_async(_seq_shard, jobs)
        rep.extra["seq_exhaustive_length"] = L

    def collect(self, pool, rep, quick, rng):
        ae = self.emit.get()
        if ae["n"] != ae["generated"] - 4 or ae["n"] == 0:
            raise tlc.MachineryError(f"LRU emission incomplete: {ae['n']} transitions parsed, TLC generated {ae['generated']}")
        if set(ae["kinds"]) != {"get", "getd", "has", "set", "del", "clear", "len", "keys"}:
            raise tlc.MachineryError(f"LRU emission misses an operation kind: {ae['kinds']}")
        rep.evaluations += ae["n"]
        rep.nontrivial.update(("tr", i) for i in range(ae["nontriv"]))
        for sm in ae["samples"][:1]:
            rep.sample({"lru_transition": sm})
        for clause, detail, t in ae["bad"]:
            rep.violation(clause, "replayed LRU transition: " + detail, {"kind": "transition", "transition": t})
        rep.extra["lru_transitions_emitted"] = ae["generated"] - 4
        rep.extra["lru_transitions_replayed"] = ae["n"]
        outs = self.tr.get()
        rep.extra["seq_traces"] = sum(o["n"] for o in outs)
        rep.extra["seq_trace_events"] = sum(o["events"] for o in outs)
        for j, o in enumerate(outs):
            rep.traces += o["n"]
            rep.evaluations += o["events"]
            rep.nontrivial.update(("seq", j, i) for i in range(o["evicting"]))
            for clause, pos, case in o["bad"]:
                rep.violation(clause, f"operation sequence rejected by LRU_Trace at event {pos}: clause {clause}", case)
            for d in o["drift"]:
                rep.drift.append(f"LRU_Trace {d}")
        if outs and outs[0]["sample"]:
            rep.sample({"seq_trace": {"m": outs[0]["sample"]["m"], "ev": outs[0]["sample"]["ev"][:3]}})
        return {"lru_traces": sum(o["t"] for o in outs)}


class _PartB:
    """concurrent container: outcome sets from TLC, real threads under the scheduler, LRUConc_Trace"""

    def submit(self, pool, rep, quick, rng):
        emit_cfgs = [dict(threads="T2", n=2, alpha="MCAlphabetQ", inits="MCInitQ", ms="MCMaxSizesQ", hasd="TRUE"),
                     dict(threads="T3", n=1, alpha="MCAlphabetSmall" if quick else "MCAlphabet", inits="MCInitConts",
                          ms="MCMaxSizes", hasd="TRUE")]
        if not quick:
            emit_cfgs.append(dict(threads="T2", n=2, alpha="MCAlphabetSmall", inits="MCInitConts", ms="MCMaxSizes", hasd="TRUE"))
        self.emit = pool.map_async(_conc_emit, [CONC_MC_CFG.format(spec="Spec", big="TRUE", dev="NoDev", props="", emit="ACTION_CONSTRAINT Emit", **kw)
                                                for kw in emit_cfgs])

    def submit2(self, pool, rep, quick, rng):
        self.bem = self.emit.get()
        progs = {}
        for o in self.bem:
            progs.update(o["progs"])
        if not progs:
            raise tlc.MachineryError("LRUConc emitted no program")
        rep.extra["conc_programs_emitted"] = len(progs)
        rep.extra["conc_outcomes_emitted"] = sum(len(v) for v in progs.values())
        keys = sorted(progs)
        sel = rng.sample(keys, min(112 if quick else 800, len(keys)))
        jobs = [([(k, progs[k]) for k in ch], 2, 170 if quick else 1500, 2 if quick else 10, rep.seed, False)
                for ch in _chunks(sel, NPROC * (1 if quick else 3))]
        rnd = random_container_programs(rng, 32 if quick else 240)
        jobs += [([(k, None) for k in ch], 1, 30 if quick else 200, 10 if quick else 60, rep.seed + 7, True)
                 for ch in _chunks(rnd, NPROC // 2 if quick else NPROC)]
        pairs = pair_programs()
        jobs += [([(k, None) for k in ch], 2 if not quick else 1, None, 2, rep.seed + 11, True) for ch in _chunks(pairs, NPROC)]
        rep.extra["conc_pair_programs_line_level"] = len(pairs)
        self.nprog = len(sel) + len(rnd) + len(pairs)
        self.run = pool.map_async(_conc_run_shard, jobs)

    def collect(self, pool, rep, quick, rng):
        bouts = self.run.get()
        rep.extra["conc_programs_run"] = self.nprog
        rep.extra["conc_schedules"] = sum(o["nsched"] for o in bouts)
        rep.extra["conc_histories_validated"] = sum(o["nhist"] for o in bouts)
        rep.extra["conc_programs_explored_to_completion"] = sum(o["complete"] for o in bouts)
        yp = rep.extra["conc_yield_points"] = {}
        for j, o in enumerate(bouts):
            rep.evaluations += o["nsched"]
            rep.traces += o["nhist"]
            rep.nontrivial.update(("conc", j, i) for i in range(o["preempted"]))
            for kk, vv in o["kinds"].items():
                yp[kk] = yp.get(kk, 0) + vv
            for clause, pos, case in o["bad"]:
                rep.violation(clause, f"concurrent history rejected by LRUConc_Trace: clause {clause}", case)
            for prog, choices, oc in o["out_bad"]:
                rep.violation("Linearizable", f"outcome {oc} is not in the set TLC emitted for this program",
                              {"kind": "conc", "prog": prog, "choices": choices, "lines": False})
            for d, meta in o["drift"]:
                rep.drift.append(f"LRUConc_Trace {list(d)} program {meta['prog']} schedule {meta['choices']}")
            if o["unreached"]:
                rep.drift.append(f"{o['unreached']} outcomes allowed by LRUConc were not produced by any explored schedule")
        if bouts and bouts[0]["sample"]:
            h = bouts[0]["sample"]
            rep.sample({"concurrent_history": {"m": h["m"], "init": h["init"], "ev": _short(h["ev"], 14)}})
        if not (yp.get("acq") and yp.get("rel") and yp.get("disp") and yp.get("line")):
            raise tlc.MachineryError(f"scheduler yield points not all exercised: {yp}")
        if rep.extra["conc_histories_validated"] == 0 or max(o["maxpre"] for o in bouts) < 2:
            raise tlc.MachineryError("no preempted concurrent history was produced")
        return {"conc_emission": sum(o["t"] for o in self.bem), "conc_schedules_and_validation": sum(o["t"] for o in bouts)}


class _PartC:
    """PoolManager: scenarios from TLC + random walks -> PoolCache_Trace; racing managers -> LRUConc_Trace"""

    def submit(self, pool, rep, quick, rng):
        if quick:
            sc_cfgs = [pc_cfg(O="O3", NP="NP12", T="T1", N=4, E="TRUE", props=False, emit="ACTION_CONSTRAINT EmitTransitions",
                              emitting="TRUE", view=True)]
        else:
            sc_cfgs = [pc_cfg(O="O3", NP="NP12", T="T1", N=4, E="TRUE", props=False, emit="ACTION_CONSTRAINT EmitPaths",
                              emitting="TRUE"),
                       pc_cfg(O="O4", NP="NP12", T="T1", N=5, E="TRUE", props=False, emit="ACTION_CONSTRAINT EmitTransitions",
                              emitting="TRUE", view=True)]
            # (every complete path of <= 4 calls, and every transition of the 5-call graph over 4 origins,
            #  each with an access path)
        self.emit = pool.map_async(_pc_emit, [(c, 0, 1) for c in sc_cfgs])
        self.rprogs = race_programs(rng, 38 if quick else 300)
        jobs = [(ch, 2, 120 if quick else 600, 3 if quick else 20, rep.seed, False) for ch in _chunks(self.rprogs, NPROC)]
        nfix = len(RACE_FIXED)
        # the hand-picked races (lookup of a cached key against clear(), equal keys, eviction under a request) get
        # line-level preemption inside connection_from_* and the container without a schedule limit
        jobs += [(ch, 1, None, 4, rep.seed + 2, True) for ch in _chunks(self.rprogs[:nfix], NPROC)]
        jobs += [(ch, 1, 50 if quick else 400, 6 if quick else 30, rep.seed + 1, True)
                 for ch in _chunks(self.rprogs[nfix:16 if quick else 160], NPROC // 2)]
        self.race = pool.map_async(_race_shard, jobs)

    def submit2(self, pool, rep, quick, rng):
        self.cem = self.emit.get()
        scen = [x for o in self.cem for x in o["scen"]]          # raw JSON text; decoded in the workers
        if not scen:
            raise tlc.MachineryError("PoolCache emitted no scenario")
        rep.extra["pm_scenarios_emitted"] = len(scen)
        ops_seen = set()
        for x in scen[:20000]:
            ops_seen.update(y["op"] for y in json.loads(_unq(x))["hist"])
        if not {"req", "goc", "hsend", "fin", "dropr", "droph", "clear", "gc"} <= ops_seen:
            raise tlc.MachineryError(f"PoolCache scenarios miss an operation kind: {sorted(ops_seen)}")
        if quick and len(scen) > 2400:
            scen = rng.sample(scen, 2400)
        rep.extra["pm_scenarios_replayed"] = len(scen)
        nrw = 30 if quick else 200
        jobs = [(ch, rep.seed * 100 + i, nrw, 14 if quick else 24)
                for i, ch in enumerate(_chunks(scen, NPROC * (1 if quick else 4)))]
        self.run = pool.map_async(_pm_shard, jobs)

    def collect(self, pool, rep, quick, rng):
        couts = self.run.get()
        routs = self.race.get()
        rep.extra["pm_traces"] = sum(o["n"] for o in couts)
        rep.extra["pm_trace_events"] = sum(o["events"] for o in couts)
        for j, o in enumerate(couts):
            rep.traces += o["n"]
            rep.evaluations += o["events"]
            rep.nontrivial.update(("pm", j, i) for i in range(o["nontriv"]))
            for clause, pos, case in o["bad"]:
                rep.violation(clause, f"PoolManager trace rejected by PoolCache_Trace at event {pos}: clause {clause}", case)
            for d, np_, hist in o["drift"]:
                rep.drift.append(f"PoolCache_Trace {d} num_pools={np_} scenario {hist}")
            for mm, np_, hist in o["exp_bad"]:
                rep.drift.append(f"PoolManager observation differs from the model's expectation: {mm} "
                                 f"(num_pools={np_}, scenario {hist})")
        if couts and couts[0]["sample"]:
            rep.sample({"pm_trace": couts[0]["sample"]})
        if sum(o["nontriv"] for o in couts) == 0:
            raise tlc.MachineryError("no scenario evicted a pool that was still in use")
        rep.extra["race_programs"] = len(self.rprogs)
        rep.extra["race_schedules"] = sum(o["nsched"] for o in routs)
        rep.extra["race_histories_validated"] = sum(o["nhist"] for o in routs)
        for j, o in enumerate(routs):
            rep.evaluations += o["nsched"]
            rep.traces += o["nhist"]
            rep.nontrivial.update(("race", j, i) for i in range(o["preempted"]))
            for clause, pos, case in o["bad"]:
                rep.violation(clause, f"racing PoolManager history rejected by LRUConc_Trace: clause {clause}", case)
            for d, meta in o["drift"]:
                rep.drift.append(f"LRUConc_Trace(manager) {list(d)} program {meta['prog']} schedule {meta['choices']}")
        if routs and routs[0]["sample"]:
            h = routs[0]["sample"]
            rep.sample({"race_history": {"np": h["m"], "init": h["init"], "ev": _short(h["ev"], 12)}})
        if rep.extra["race_histories_validated"] == 0:
            raise tlc.MachineryError("no racing manager history was produced")
        return {"pm_emission": sum(o["t"] for o in self.cem), "pm_scenarios_and_validation": sum(o["t"] for o in couts),
                "pm_scenarios_python_only": sum(o["t_run"] for o in couts), "pm_races_and_validation": sum(o["t"] for o in routs)}


def _stage1_jobs(quick):
    jobs = [("lru", _stage1_lru, None)]
    conc_cfgs = [("LRUConc T2x2 AlphabetQ small-step", dict(threads="T2", n=2, alpha="MCAlphabetQ", inits="MCInitQ",
                                                            ms="MCMaxSizesQ", hasd="TRUE"), ["Start", "Step", "Rel", "Disp", "Ret"]),
                 ("LRUConc T3x1 get-or-create small-step", dict(threads="T3", n=1, alpha="MCAlphabetPM", inits="MCInitPM",
                                                                ms="MCMaxSizesQ", hasd="FALSE"), ["Start", "Step", "Rel", "Ret"])]
    if not quick:
        conc_cfgs += [("LRUConc T2x2 full alphabet small-step", dict(threads="T2", n=2, alpha="MCAlphabet", inits="MCInitConts",
                                                                     ms="MCMaxSizes", hasd="TRUE"), ["Start", "Step", "Rel", "Disp", "Ret"]),
                      ("LRUConc T3x1 full alphabet small-step", dict(threads="T3", n=1, alpha="MCAlphabet", inits="MCInitConts",
                                                                     ms="MCMaxSizes", hasd="TRUE"), ["Start", "Step", "Rel", "Disp", "Ret"]),
                      ("LRUConc T2x2 get-or-create small-step", dict(threads="T2", n=2, alpha="MCAlphabetPM", inits="MCInitPM",
                                                                     ms="MCMaxSizesQ", hasd="FALSE"), ["Start", "Step", "Rel", "Ret"])]
    for name, kw, need in conc_cfgs:
        cfg = CONC_MC_CFG.format(spec="Spec", big="FALSE", dev="NoDev", props="\n".join(CONC_PROPS), emit="", **kw)
        jobs.append(("conc", _stage1_conc, (name, cfg, need)))
    # vacuity guard: an unguarded clear() must be refuted by Linearizable and by ExactlyOnce
    for inv, alpha, hasd in (("Linearizable", "MCAlphabetClear", "TRUE"), ("ExactlyOnce", "MCAlphabetClear", "TRUE"),
                             ("Linearizable", "MCAlphabetClearPM", "FALSE")):
        cfg = CONC_MC_CFG.format(spec="Spec", big="FALSE", dev="DevClearWithoutLock", props="INVARIANT " + inv, emit="",
                                 threads="T2", n=1, alpha=alpha, inits="MCInitA", ms="MCMaxSizesQ", hasd=hasd)
        jobs.append(("conc", _stage1_conc, (f"LRUConc deviation ClearWithoutLock ({alpha[2:]}) must break {inv}", cfg, [], inv)))
    live_cfg = CONC_MC_CFG.format(spec="FairSpec", big="FALSE", dev="NoDev", props="PROPERTY Termination", emit="", threads="T2", n=1,
                                  alpha="MCAlphabet", inits="MCInitConts", ms="MCMaxSizes", hasd="TRUE")
    jobs.append(("conc", _stage1_conc, ("LRUConc T2x1 full alphabet, Termination under weak fairness", live_cfg, [])))
    pc_runs = [("PoolCache T2 MaxOps=3 O2", pc_cfg(T="T2", N=3, O="O2"), None),
               ("PoolCache T1 MaxOps=4 O3 eager gc", pc_cfg(T="T1", N=4, O="O3", E="TRUE"), None),
               ("PoolCache T2 MaxOps=3 O2 liveness", pc_cfg(T="T2", N=3, O="O2", props=False, live=True), None)]
    if not quick:
        pc_runs += [("PoolCache T2 MaxOps=4 O2", pc_cfg(T="T2", N=4, O="O2"), None),
                    ("PoolCache T3 MaxOps=3 O2", pc_cfg(T="T3", N=3, O="O2"), None),
                    ("PoolCache T1 MaxOps=5 O3", pc_cfg(T="T1", N=5, O="O3"), None)]
    for dev, (clause, kw) in PC_TEETH.items():
        pc_runs.append((f"PoolCache deviation {dev[3:]}", pc_cfg(D=dev, **kw), clause))
    for x in pc_runs:
        jobs.append(("pc", _pc_stage1, x))
    return jobs


def _stage1_collect(rep, futs):
    for kind, f in futs:
        o = f.result()
        rep.states += o["distinct"]
        rep.transitions += o["generated"]
        rep.stage1.append({"run": o["name"], "distinct_states": o["distinct"], "states_generated": o["generated"],
                           "depth": o["depth"], "wall_s": round(o["wall"], 1)})
        if kind == "lru":
            if o["violated"]:
                rep.violation("ReferenceInconsistent", f"TLC: {o['violated']} violated in LRU.tla")
        elif kind == "conc" and o.get("expect"):
            if o["violated"] != [o["expect"]]:
                raise tlc.MachineryError(f"{o['name']}: expected TLC to report {o['expect']}, got {o['violated']} "
                                         "(the rule has no teeth)")
        elif kind == "conc":
            if o["violated"]:
                rep.violation("DesignModel", f"TLC: {o['violated']} violated in {o['name']}")
            for a in o["need"]:
                if not o["coverage"].get(a):
                    raise tlc.MachineryError(f"{o['name']}: action {a} never taken (vacuous)")
        else:
            name = o["name"]
            expect = next((c for d, (c, _) in PC_TEETH.items() if name.endswith(d[3:])), None) if "deviation" in name else None
            if expect is None:
                if o["violated"]:
                    rep.violation("DesignModel", f"TLC: {o['violated']} violated in {name}")
                if "liveness" not in name:
                    for a in PC_ACTIONS:
                        if not o["coverage"].get(a):
                            raise tlc.MachineryError(f"{name}: action {a} never taken (vacuous)")
            elif o["violated"] != [expect]:
                raise tlc.MachineryError(f"{name}: expected TLC to report exactly {expect}, got {o['violated']} "
                                         "(the rule has no teeth)")


def run(rep):
    import os
    from concurrent.futures import ThreadPoolExecutor
    quick = rep.tier == "quick"
    rng = random.Random(rep.seed * 7919 + 17)
    only = set((os.environ.get("VERIF_C17_PARTS") or "S,A,B,C").upper().split(","))   # development aid
    rep.rule = ("a case is one execution of real code judged against the specification: a replayed LRU transition, "
                "a recorded operation sequence, one schedule of a multi-threaded program, one PoolManager scenario. "
                "Non-trivial = the transition changes the container or disposes a value / the sequence evicts before "
                "its epilogue / the schedule contains at least one preemption / a pool leaves the manager's cache "
                "while a response on it is in flight or a handle to it is held")
    rep.assumptions = ["keys, values and URLs restricted to the stated alphabets; pools use the default maxsize=1, block=False",
                       "yield points of the scheduler: lock acquire/release, dispose calls, operation starts, and (part of "
                       "the runs) every source line of RecentlyUsedContainer / PoolManager.connection_from_*; bytecode-level "
                       "races inside one line are not explored",
                       "'socket closed' is EOF seen by the in-memory peer after gc.collect(); CPython reference counting",
                       "TLC 1.8, CPython 3.12 threading / sys.monitoring, vh/net.py and vh/lrusched.py are trusted"]
    t_start = time.time()
    global _jvm_gate
    _jvm_gate = gate = mp.BoundedSemaphore(JVM_SLOTS)
    parts = [p for name, p in (("A", _PartA()), ("B", _PartB()), ("C", _PartC())) if name in only]
    secs = {}
    # The worker processes are forked BEFORE any thread of this process starts a JVM: a fork that
    # overlaps subprocess.Popen in another thread inherits Popen's exec-error pipe and blocks it.
    with mp.Pool(NPROC, initializer=_init_worker, initargs=(gate,)) as pool:
        s1 = ThreadPoolExecutor(max(1, min(5, J // 3)))
        futs = [(kind, s1.submit(fn, arg)) for kind, fn, arg in _stage1_jobs(quick)] if "S" in only else []
        for p in parts:
            p.submit(pool, rep, quick, rng)
        for p in parts:
            if hasattr(p, "submit2"):
                p.submit2(pool, rep, quick, rng)
        for p in parts:
            secs.update(p.collect(pool, rep, quick, rng))
    _stage1_collect(rep, futs)
    s1.shutdown()
    _jvm_gate = None
    rep.exhaustive = only >= {"S", "A", "B", "C"}
    if not rep.exhaustive:
        rep.extra["partial_run"] = sorted(only)
    secs["stage1_tlc"] = sum(x["wall_s"] for x in rep.stage1)
    secs["total_wall"] = time.time() - t_start
    rep.extra["worker_seconds"] = {k: round(v, 1) for k, v in secs.items()}


# =================================================================================================
# replay

def replay(rep, path):
    with open(path) as fh:
        doc = json.load(fh)
    case = doc["case"]
    kind = case["kind"]
    rep.rule = "replay of one recorded case"
    rep.nontrivial.update({1, 2})
    rep.evaluations += 1
    rep.states = rep.states or 1
    rep.transitions = rep.transitions or 1
    if kind == "transition":
        v = check_transition(case["transition"])
        if v:
            rep.violation(v[0], "replayed LRU transition: " + v[1], case)
        return
    if kind == "seqtrace":
        tr = record_seq_trace(case["m"], [tuple(o) for o in case["ops"]], case.get("hasd", True))
        module, cfg = "LRU_Trace", LRU_TRACE_CFG
    elif kind == "conc":
        if case.get("lines"):
            instrument_lines(_ruc())
        prog = case["prog"]
        prog = {"m": prog["m"], "init": prog["init"], "threads": [[tuple(o) for o in th] for th in prog["threads"]]}
        tr, s = run_container_program(prog, FixedChooser(case["choices"], strict=False), case.get("lines", False))
        module, cfg = "LRUConc_Trace", CONC_TRACE_CFG.format(hasd="TRUE")
    elif kind == "pmscenario":
        tr = run_pm_scenario(case["np"], case["ops"])
        module, cfg = "PoolCache_Trace", PC_TRACE_CFG
    elif kind == "pmrace":
        if case.get("lines"):
            from urllib3.poolmanager import PoolManager
            instrument_lines(_ruc(), PoolManager.connection_from_pool_key, PoolManager.connection_from_context,
                             PoolManager.connection_from_host, PoolManager.connection_from_url, PoolManager.clear)
        prog = case["prog"]
        prog = {"np": prog["np"], "init": prog["init"], "threads": [[tuple(o) for o in th] for th in prog["threads"]]}
        tr, s = run_pm_race(prog, FixedChooser(case["choices"], strict=False), case.get("lines", False))
        module, cfg = "LRUConc_Trace", CONC_TRACE_CFG.format(hasd="FALSE")
    else:
        raise tlc.MachineryError("unknown replay kind " + str(kind))
    r, verdicts, drifts = validate(module, cfg, [tr])
    rep.traces += 1
    pos, clause = verdicts[1]
    if clause != "ok":
        rep.violation(clause, f"trace rejected by {module} at event {pos}: clause {clause}", case)
    for d in drifts:
        rep.drift.append(f"{module} {list(d)}")
