"""Evidence files (schema: /root/.vp/EVIDENCE.schema.json) and the common check result."""
from __future__ import annotations

import json
import os
import time

ROOT = os.path.dirname(os.path.dirname(os.path.abspath(__file__)))
EVID = os.path.join(ROOT, "evidence")
REPLAYS = os.path.join(ROOT, "replays")


class Report:
    """Accumulates what one check run covered and decided."""

    def __init__(self, pid: str, tier: str, seed: int):
        self.pid, self.tier, self.seed = pid, tier, seed
        self.t0 = time.time()
        self.states = 0
        self.transitions = 0
        self.traces = 0            # traces recorded from the real code and validated by TLC
        self.evaluations = 0       # executions of real code
        self.nontrivial = set()    # distinct non-trivial case keys
        self.samples = []
        self.violations = []       # dicts: clause, what, replay (path or None), detail
        self.known = []            # (finding id, what)
        self.drift = []
        self.extra = {}
        self.assumptions = []
        self.rule = ""
        self.exhaustive = False
        self.stage1 = []           # per TLC run: module, cfg summary, states, distinct, wall
        self.extra_module = None   # set while an extra stage (vh/extras.py) runs: its replay files name their module

    def add_tlc(self, name, r):
        self.states += r.distinct
        self.transitions += r.generated
        self.stage1.append({"run": name, "distinct_states": r.distinct, "states_generated": r.generated,
                            "depth": r.depth, "wall_s": round(r.wall, 2)})

    def sample(self, s, cap=6):
        if len(self.samples) < cap:
            self.samples.append(s)

    def violation(self, clause, what, case=None):
        os.makedirs(REPLAYS, exist_ok=True)
        n = len(self.violations)
        path = os.path.join(REPLAYS, f"{self.pid}_{self.tier}_{n}.json")
        if n < 50:
            with open(path, "w") as fh:
                json.dump({"property": self.pid, "clause": clause, "what": what, "case": case,
                           "seed": self.seed, "tier": self.tier, "extra_module": self.extra_module}, fh, indent=1, default=repr)
        else:
            path = os.path.join(REPLAYS, f"{self.pid}_{self.tier}_49.json")
        self.violations.append({"clause": clause, "what": what, "replay": path})
        return path

    def write(self, level="model_checking", dry=False):
        os.makedirs(EVID, exist_ok=True)
        cov = {
            "states": int(self.states), "transitions": int(self.transitions),
            "traces_validated_against_impl": int(self.traces),
            "evaluations": int(self.evaluations), "distinct_nontrivial": len(self.nontrivial),
            "rule": self.rule, "samples": self.samples or ["<none>"], "exhaustive": bool(self.exhaustive),
            "tlc_runs": self.stage1, "model_drift": len(self.drift), "drift_samples": self.drift[:5],
            "known_findings_seen": sorted({k for k, _ in self.known}),
        }
        cov.update(self.extra)
        doc = {"property_id": self.pid, "tier": self.tier, "seed": int(self.seed), "level": level,
               "coverage": cov, "assumptions": self.assumptions, "wall_s": round(time.time() - self.t0, 2),
               "violations": len(self.violations)}
        if not dry:   # a --replay run never overwrites the evidence of the last real run
            with open(os.path.join(EVID, self.pid + ".json"), "w") as fh:
                json.dump(doc, fh, indent=1, default=repr)
        return doc
