"""CLI: ./check <Cxx> [--tier quick|thorough] [--replay FILE]

exit 0: property held on everything explored (KNOWN-FINDING lines allowed)
exit 1: at least one violation; prints VIOLATION property=<id> replay=<path>
exit 2: machinery failure (never silently green)"""
from __future__ import annotations

import argparse
import importlib
import os
import sys
import traceback

from .evidence import Report
from .tlc import MachineryError


def main(argv=None) -> int:
    ap = argparse.ArgumentParser()
    ap.add_argument("pid")
    ap.add_argument("--tier", default=os.environ.get("VERIF_TIER") or "quick", choices=["quick", "thorough"])
    ap.add_argument("--replay")
    a = ap.parse_args(argv)
    if os.environ.get("VERIF_TIER") in ("quick", "thorough"):
        a.tier = os.environ["VERIF_TIER"]
    seed = int(os.environ.get("VERIF_SEED") or 0)
    pid = a.pid.upper()
    os.environ.setdefault("URLLIB3_VERIF", "1")
    import urllib3
    want = os.environ.get("VERIF_REPO_SRC") or "/repo/src"
    if not os.path.realpath(urllib3.__file__).startswith(os.path.realpath(want) + os.sep):
        print(f"MACHINERY-FAILURE property={pid}: urllib3 imported from {urllib3.__file__}, expected under {want}", file=sys.stderr)
        return 2
    try:
        mod = importlib.import_module("vh." + pid.lower())
    except ModuleNotFoundError:
        print(f"no check for {pid}", file=sys.stderr)
        return 2
    rep = Report(pid, a.tier, seed)
    try:
        if a.replay:
            case_pid = None
            try:
                import json as _json
                case_pid = _json.load(open(a.replay)).get("extra_module")
            except Exception:
                pass
            (importlib.import_module(case_pid) if case_pid else mod).replay(rep, a.replay)
        else:
            mod.run(rep)
            # growth of the specification beyond the listed clauses: extra specs that serve this property
            from .extras import EXTRAS
            for name in EXTRAS.get(pid, []):
                n_known = len(rep.known)
                importlib.import_module("vh." + name).run_stage(rep)
                # A growth stage covers behaviour that no listed statement names.  What it records about the unchanged
                # tree is therefore an OBSERVATION (evidence + DESIGN.md section 8), not a known finding of this property:
                # it is not printed as KNOWN-FINDING.  (A stage reports rep.violation only for behaviour that breaks the
                # statement of the property it serves.)
                obs = rep.known[n_known:]
                del rep.known[n_known:]
                if obs:
                    seen = rep.extra.setdefault("observations_outside_listed_statements", {})
                    for fid, what in obs:
                        seen.setdefault(fid, what)
    except MachineryError as ex:
        print(f"MACHINERY-FAILURE property={pid}: {ex}", file=sys.stderr)
        return 2
    except Exception:
        traceback.print_exc()
        print(f"MACHINERY-FAILURE property={pid}: unexpected exception in harness", file=sys.stderr)
        return 2
    # self-tests against scratch mutants (VERIF_REPO_SRC) never overwrite the evidence of /repo
    doc = rep.write(dry=bool(a.replay) or bool(os.environ.get("VERIF_REPO_SRC")))
    seen = set()
    for fid, what in rep.known:
        if fid not in seen:
            seen.add(fid)
            print(f"KNOWN-FINDING: property={pid} {fid}: {what}")
    for d in rep.drift[:10]:
        print(f"MODEL-DRIFT property={pid} {d}")
    shown = set()
    for v in rep.violations:
        if v["replay"] in shown or len(shown) >= 8:
            continue
        shown.add(v["replay"])
        print(f"VIOLATION property={pid} replay={v['replay']} clause={v['clause']} :: {v['what']}")
    cov = doc["coverage"]
    print(f"{pid} {a.tier}: states={cov['states']} transitions={cov['transitions']} traces_validated={cov['traces_validated_against_impl']} "
          f"evaluations={cov['evaluations']} nontrivial={cov['distinct_nontrivial']} drift={cov['model_drift']} "
          f"violations={len(rep.violations)} wall={doc['wall_s']}s")
    return 1 if rep.violations else 0


if __name__ == "__main__":
    sys.exit(main())
