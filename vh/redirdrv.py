"""Shared scenario driver for C05 / C06 (spec/Redirect.tla).

A scenario is what MC_Redirect emitted: a caller configuration `cfg`, the 3xx answers `hops` the
scripted servers give to the 1st, 2nd, ... request, and the Model's expected observations.  The
driver builds the real client (PoolManager / ProxyManager forwarding through an http proxy / bare
HTTPConnectionPool) over vh.net's in-memory network, performs the call and records what an outside
observer sees: every request that reached the network (who received it, method, path, header lines,
body digest), every address dialled, and the outcome.  No verdict is computed here: the recorded
trace goes to TLC (spec/Redirect_Trace.tla).
"""
from __future__ import annotations

import hashlib
import io
import json
import os
import re

from . import net as N
from . import tlc

JOBS = max(1, int(os.environ.get("VERIF_JOBS") or os.cpu_count() or 4))
NONE, FALSE = -100, -200          # the spec's encodings of Python None / False
PAYLOAD = b"payload"

NAMES = {"auth": "Authorization", "cookie": "Cookie", "pauth": "Proxy-Authorization", "xcustom": "X-Custom",
         "xother": "X-Other", "ctype": "Content-Type"}


def spell(kind, sp):
    n = NAMES[kind]
    if sp == "lower":
        return n.lower()
    if sp == "upper":
        return n.upper()
    if sp == "mixed":
        return "".join(ch.lower() if i % 2 == 0 else ch.upper() for i, ch in enumerate(n))
    return n


def digest(b):
    return "none" if not b else hashlib.sha1(b).hexdigest()[:12]


def render_url(u):
    return "%s://%s%s/%s" % (u["scheme"], u["host"], (":%d" % u["port"]) if u["port"] else "", "/".join(u["path"]))


def render_location(h):
    hp = h["host"] + ((":%d" % h["port"]) if h["port"] else "")
    ref = "/".join(h["ref"])
    if h["form"] == "abs":
        return "%s://%s/%s" % (h["scheme"], hp, ref)
    if h["form"] == "schemerel":
        return "//%s/%s" % (hp, ref)
    if h["form"] == "pathabs":
        return "/" + ref
    return ref


def _pyval(x):
    return None if x == NONE else False if x == FALSE else x


def make_policy(p, other_counters=False):
    from urllib3.util.retry import Retry
    if p["kind"] == "none":
        return None
    if p["kind"] == "false":
        return False
    if p["kind"] == "int":
        return p["total"]
    kw = dict(total=_pyval(p["total"]), redirect=_pyval(p["redirect"]), raise_on_redirect=p["raise"])
    ct = p["rmct"]
    if ct != "default":       # how the caller hands over the names: container type x spelling
        names = [spell(k, p["rmsp"]) for k in sorted(p["remove"])]
        if ct == "defaultplus":
            extra = {spell(k, p["rmsp"]) for k in p["remove"] if k not in ("auth", "cookie", "pauth")}
            kw["remove_headers_on_redirect"] = Retry.DEFAULT_REMOVE_HEADERS_ON_REDIRECT | extra
        else:
            kw["remove_headers_on_redirect"] = {"list": list, "tuple": tuple, "set": set, "frozenset": frozenset}[ct](names)
    if other_counters:      # growth module RedirectMeta: counters a redirect chain must leave alone
        kw.update(connect=5, read=6, status=7, other=8)
    return Retry(**kw)


def _carry(carrier, entries):
    from urllib3 import HTTPHeaderDict
    if carrier == "none":
        return None
    if carrier == "hdict":
        h = HTTPHeaderDict()
        for e in entries:
            for v in e["vals"]:
                h.add(spell(e["kind"], e["sp"]), v)
        return h
    h = {}
    for e in entries:
        name = spell(e["kind"], e["sp"])
        if name in h or len(e["vals"]) != 1:
            raise tlc.MachineryError(f"scenario not expressible as a dict: {entries}")
        h[name] = e["vals"][0]
    return h


def make_headers(cfg):
    """(pool- / manager-level default headers or None, request-level headers or None)"""
    return _carry(cfg["dcarrier"], cfg["dhdrs"]), _carry(cfg["carrier"], cfg["hdrs"])


_ABS = re.compile(r"^(https?)://([^/:?#]+)(?::(\d+))?(/[^?#]*)?")


class SchemeNet(N.Net):
    """vh.net.Net that also remembers which pool class (plain / stand-in for https) opened a connection."""

    def __init__(self, *a, **k):
        super().__init__(*a, **k)
        self.pending_scheme = "http"
        self.scheme_of = {}

    def create_connection(self, *a, **k):
        s = self.pending_scheme
        vs = super().create_connection(*a, **k)
        self.scheme_of[len(self.dials)] = s
        return vs


def _https_standin(net):
    """A pool class for the https scheme whose connections are plain (no TLS in this property): it keeps
    urllib3's scheme/port bookkeeping (scheme = "https", default port 443) and tags its dials."""
    from urllib3.connection import HTTPConnection
    from urllib3.connectionpool import HTTPConnectionPool

    class TaggedConn(HTTPConnection):
        def _new_conn(self):
            net.pending_scheme = "https"
            try:
                return super()._new_conn()
            finally:
                net.pending_scheme = "http"

    class StandInHTTPSPool(HTTPConnectionPool):
        scheme = "https"
        ConnectionCls = TaggedConn

    return StandInHTTPSPool


def run_scenario(sc, skip=(), observer=None):
    """Execute one scenario on the real code.  Returns the trace (JSON-able dict).
    observer(result, exception, request_policy, client_policy, snapshots_before) -> dict is the hook of the growth
    module RedirectMeta: what it returns (the metadata the caller received) is stored under "meta"."""
    import urllib3
    from urllib3.connectionpool import HTTPConnectionPool
    from urllib3.exceptions import HostChangedError, MaxRetryError

    cfg, hops = sc["cfg"], sc["hops"]
    state = {"n": 0}

    def responder(peer, req):
        state["n"] += 1
        i = state["n"]
        if i <= len(hops):
            return N.Reply(N.http_response(hops[i - 1]["code"], b"", headers=[("Location", render_location(hops[i - 1]))],
                                           reason="Redirect"))
        return N.Reply(N.http_response(200, b"ok"))

    chdrs, rhdrs = make_headers(cfg)
    ckw = {}
    if chdrs is not None:
        ckw["headers"] = chdrs
    cpol = make_policy(cfg["clipol"], observer is not None)
    if cpol is not None:
        ckw["retries"] = cpol
    rkw = {}
    if rhdrs is not None:
        rkw["headers"] = rhdrs
    rpol = make_policy(cfg["reqpol"], observer is not None)
    if rpol is not None or cfg["reqnone"]:     # reqnone: the kwarg is passed explicitly as retries=None
        rkw["retries"] = rpol
    if not cfg["flag"]:
        rkw["redirect"] = False
    if cfg["body"] == "bytes":
        rkw["body"] = PAYLOAD
    elif cfg["body"] == "file":
        rkw["body"] = io.BytesIO(PAYLOAD)
    start = cfg["start"]
    exc = None
    result = error = None
    before = observer(None, None, rpol, cpol, None) if observer else None
    with SchemeNet(responder) as net:
        try:
            if cfg["client"] == "pool":
                if start["scheme"] != "http":
                    raise tlc.MachineryError("bare pool scenarios are http only")
                cl = HTTPConnectionPool(start["host"], start["port"] or None, **ckw)
                r = cl.urlopen(cfg["method"], "/" + "/".join(start["path"]), **rkw)
            else:
                if cfg["client"] == "proxy":
                    cl = urllib3.ProxyManager(render_url(dict(cfg["proxy"], path=[]))[:-1], **ckw)
                else:
                    cl = urllib3.PoolManager(**ckw)
                cl.pool_classes_by_scheme = {"http": HTTPConnectionPool, "https": _https_standin(net)}
                r = cl.urlopen(cfg["method"], render_url(start), **rkw)
            outcome = {"kind": "resp", "status": r.status}
            result = r
        except MaxRetryError as ex:
            outcome = {"kind": "MaxRetryError", "status": 0}
            error = ex
        except HostChangedError as ex:
            outcome = {"kind": "HostChangedError", "status": 0}
            error = ex
        except N.HarnessStall as ex:
            raise tlc.MachineryError(f"harness stall in scenario {json.dumps(sc)[:400]}: {ex}")
        except tlc.MachineryError:
            raise
        except Exception as ex:      # anything else is recorded and judged by the spec (OnlyDocumentedOutcomes)
            outcome = {"kind": "other", "status": 0}
            exc = repr(ex)[:200]
        wire = []
        for ev in net.log:
            if ev[0] != "REQ":
                continue
            cid, k = ev[1], ev[2]
            req = net.peers[cid].requests[k - 1]
            host, port = net.dials[cid - 1][1][0], net.dials[cid - 1][1][1]
            scheme = net.scheme_of.get(cid, "http")
            target = req.target
            m = _ABS.match(target)
            if m:
                if cfg["client"] == "proxy":     # a forwarding proxy received it: the destination is in the target
                    scheme, host, port = m.group(1), m.group(2), int(m.group(3) or 0)
                target = m.group(4) or "/"
            target = target.split("?", 1)[0]
            path = target.split("/")[1:] if target.startswith("/") else ["<not-a-path>", target]
            wire.append({"url": {"scheme": scheme, "host": host, "port": port, "path": path}, "method": req.method,
                         "body": digest(req.body), "hdrs": [[k2.lower(), v2] for k2, v2 in req.headers]})
        dialed = [[d[1][0], d[1][1]] for d in net.dials]
    tr = {"cfg": cfg, "hops": hops, "wire": wire, "dialed": dialed, "outcome": outcome, "payload": digest(PAYLOAD),
          "skip": list(skip),
          "hasexp": "wire" in sc and "outcome" in sc,
          "exp": {"wire": sc.get("wire", []), "outcome": sc.get("outcome", {"kind": "none", "status": 0})}}
    if observer:
        tr["meta"] = observer(result, error, rpol, cpol, before)
        tr["expmeta"] = sc.get("meta")
    if exc:
        tr["exc"] = exc
    return tr


TRACE_CFG = """SPECIFICATION TSpec
CONSTANTS
  Mode = "trace"
  MaxHops = 0
  Deviations = {}
  CfgSet <- TrCfgSet
  PlanSet <- TrPlanSet
  HopAlphabet <- TrHopAlphabet
CHECK_DEADLOCK FALSE
"""


def validate(traces):
    """Batch trace validation by TLC: one verdict (tid, position, clause) per trace."""
    if not traces:
        return None, []
    slim = [{k: v for k, v in t.items() if k != "exc"} for t in traces]
    r = tlc.run("Redirect_Trace", TRACE_CFG, workers=1, files={"traces.json": json.dumps(slim)},
                env={"TRACE_FILE": "traces.json"}, timeout=3600)
    verdicts = tlc.tagged_tuples(r.out, "VERDICT")
    if len(verdicts) != len(traces) or any(len(v) != 3 for v in verdicts):
        raise tlc.MachineryError(f"trace validation produced {len(verdicts)} verdicts for {len(traces)} traces\n{r.out[-2000:]}")
    if sorted(v[0] for v in verdicts) != list(range(1, len(traces) + 1)):
        raise tlc.MachineryError("trace validation verdicts do not cover the traces one to one")
    return r, sorted(verdicts)


# ------------------------------------------------------------------------------------------------
# Orchestration shared by vh/c05.py and vh/c06.py

C05_CLAUSES = ["RedirectWithinBudget", "NoContactWhenDisabled", "SeeOtherRewrites", "OthersKeepMethodBody",
               "RelativeResolved", "ExhaustionShape", "ReturnShape"]
C06_CLAUSES = ["SensitiveStripped", "OthersPreserved", "SingleHostRefuses"]
COMMON_CLAUSES = ["OnlyDocumentedOutcomes", "RequestAfterFinalAnswer", "NoRequestObserved"]
ACTIONS = ["DerivePolicy", "Attempt", "Respond", "Return", "PoolRedirect", "ManagerRedirect", "Follow", "Exhaust"]
AS_IS = "{}"             # deviations of the Model that describe the code as it is (none: D1, D5, D10 are repaired)

MC_CFG = """SPECIFICATION Spec
CONSTANTS
  Mode = "{mode}"
  MaxHops = {maxhops}
  Deviations = {dev}
  CfgSet <- MCCfgSet
  PlanSet <- MCPlanSet
  HopAlphabet <- MCHopAlphabet
  Family = "{family}"
  ShardK = {k}
  ShardS = {s}
  SampleKB = {skb}
  SampleKH = {skh}
  CfgKH = {ckh}
  Seed = {seed}
  LmaxB = {lb}
  LmaxH = {lh}
  Codes = {codes}
  Alpha = "{alpha}"
  ClientFilter = "{client}"
{tail}
CHECK_DEADLOCK FALSE
"""
ALL_CODES = "{301, 302, 303, 307, 308}"
INV_C05 = ["RedirectWithinBudget", "NoContactWhenDisabled", "SeeOtherRewrites", "OthersKeepMethodBody", "RelativeResolved",
           "ExhaustionShape", "ReturnShape", "OnlyDocumentedOutcomes"]
INV_C06 = ["OthersPreserved", "SingleHostRefuses"]
INV_MODEL = ["ClausesKnown", "WireBound", "FollowsToBudget"]
PROPS = ["StrippedStaysStripped", "MethodOnlyBy303"]


def mc_cfg(*, mode="free", maxhops=3, dev=AS_IS, family="free", k=1, s=0, skb=1, skh=1, ckh=1, seed=0, lb=3, lh=3, codes=ALL_CODES,
           alpha="small", client="all", view=True, invs=(), props=()):
    tail = (["VIEW View"] if view else []) + ["INVARIANT " + i for i in invs] + ["PROPERTY " + p for p in props]
    return MC_CFG.format(mode=mode, maxhops=maxhops, dev=dev, family=family, k=k, s=s, skb=skb, skh=skh, ckh=ckh, seed=seed,
                         lb=lb, lh=lh, codes=codes, alpha=alpha, client=client, tail="\n".join(tail))


def _expect_held(rep, name, r):
    rep.add_tlc(name, r)
    if r.violated:
        rep.violation("ModelViolatesRules", f"stage 1 ({name}): TLC reports {r.violated} on the specification itself",
                      {"kind": "stage1", "run": name})


def stage1_main(rep, pid):
    """The exhaustive runs: Model |= every clause of both properties, for every chain the environment can produce."""
    quick = rep.tier == "quick"
    # quick: chains of two answers over the small alphabet (deeper chains are covered by the planned / simulated
    # emission runs, on which TLC checks the same invariants); thorough: six answers over the small alphabet plus
    # the full alphabet (all origin aliases, all Location forms) over two answers
    frees = [dict(maxhops=2, codes="{303, 307}", alpha="small")] if quick else \
            [dict(maxhops=6, codes=ALL_CODES, alpha="small"), dict(maxhops=2, codes=ALL_CODES, alpha="full")]
    for free in frees:
        r = tlc.run("MC_Redirect", mc_cfg(invs=INV_C05 + INV_C06 + ["SensitiveStripped"] + INV_MODEL, props=PROPS, **free),
                    workers="auto", heap="3g", timeout=7200)
        _expect_held(rep, f"free {free}", r)


def gate_jobs(rep, pid):
    """Small TLC runs executed next to the emission shards: the per-action coverage read-back and, per named
    deviation of the Model, a run that must trip exactly the clause the deviation is aimed at (non-vacuity)."""
    jobs = [("coverage", mc_cfg(maxhops=1, codes="{303, 307}", k=4, s=1, invs=["ClausesKnown"]), None)]
    if pid == "C05":
        jobs += [("deviation D1 (constructor policy ignored)",
                  mc_cfg(maxhops=1, dev='{"D1"}', client="pm", invs=["RedirectWithinBudget", "ExhaustionShape"]), "RedirectWithinBudget"),
                 ("deviation AbsentOnly (constructor policy ignored when the request passes retries=None)",
                  mc_cfg(maxhops=1, dev='{"AbsentOnly"}', client="proxy", invs=["RedirectWithinBudget", "ExhaustionShape"]),
                  "RedirectWithinBudget"),
                 ("deviation KeepBody303", mc_cfg(maxhops=1, dev='{"KeepBody303"}', client="pool", invs=["SeeOtherRewrites"]),
                  "SeeOtherRewrites")]
        if rep.tier != "quick":
            jobs += [("deviation NoJoin", mc_cfg(maxhops=1, dev='{"NoJoin"}', client="pm", invs=["RelativeResolved"]), "RelativeResolved")]
    else:
        jobs += [("deviation D10 (proxy pool asked for same-host)",
                  mc_cfg(maxhops=2, dev='{"D10"}', client="proxy", invs=["SensitiveStripped"]), "SensitiveStripped"),
                 ("deviation EmptyIsMissing (an emptied header mapping is replaced by the defaults)",
                  mc_cfg(maxhops=1, dev='{"EmptyIsMissing"}', client="pm", invs=["SensitiveStripped"]), "SensitiveStripped"),
                 ("deviation FrozensetNotNormalised (a frozenset of names is taken for already lower-cased)",
                  mc_cfg(maxhops=1, dev='{"FrozensetNotNormalised"}', client="pm", invs=["SensitiveStripped"]), "SensitiveStripped"),
                 ("deviation IgnorePort", mc_cfg(maxhops=1, dev='{"IgnorePort"}', client="pool", invs=["SingleHostRefuses"]),
                  "SingleHostRefuses")]
        if rep.tier != "quick":
            jobs += [("deviation FirstHopOnly", mc_cfg(maxhops=2, dev='{"FirstHopOnly"}', client="pm", invs=["SensitiveStripped"]),
                      "SensitiveStripped")]
    return jobs


def _gate(args):
    name, cfg_text, expect = args
    r = tlc.run("MC_Redirect", cfg_text, workers=1, heap="2g", coverage=(name == "coverage"), expect_fail=expect is not None,
                timeout=3600)
    return {"gate": name, "expect": expect, "violated": r.violated, "error": r.error, "distinct": r.distinct,
            "generated": r.generated, "depth": r.depth, "wall": r.wall,
            "coverage": {a: r.coverage.get(a, (0, 0))[1] for a in ACTIONS} if name == "coverage" else None}


def check_gate(rep, o):
    rep.stage1.append({"run": o["gate"], "distinct_states": o["distinct"], "states_generated": o["generated"], "depth": o["depth"],
                       "wall_s": round(o["wall"], 2), "expected_violation": o["expect"], "reported": o["violated"]})
    if o["expect"] is None:
        rep.states += o["distinct"]
        rep.transitions += o["generated"]
        rep.extra["action_coverage"] = o["coverage"]
        if o["violated"] or any(v == 0 for v in o["coverage"].values()):
            raise tlc.MachineryError(f"vacuous stage 1: an action of the Model never fired or the run failed: {o}")
    elif o["violated"] != [o["expect"]]:
        raise tlc.MachineryError(f"stage 1 ({o['gate']}): expected TLC to report {o['expect']}, got {o['violated']} {o['error']}")


_SC = '<<"SC", "'
_INIT = re.compile(r"Finished computing initial states: (\d+) distinct state")


def _unq(body):
    return body.replace('\\\\', '\x00').replace('\\"', '"').replace('\x00', '\\')


def scenario_key(sc):
    return hashlib.sha1(json.dumps([sc["cfg"], sc["hops"]], sort_keys=True).encode()).hexdigest()[:16]


def classify(tr, verdict):
    """Counters for the evidence file (coverage measurement only, no verdicts)."""
    tags = set()
    if tr["hops"]:
        tags.add("redirected")
    if len(tr["wire"]) >= 2:
        tags.add("followed")
    tags.add("out:" + tr["outcome"]["kind"] + (str(tr["outcome"]["status"])[:1] + "xx" if tr["outcome"]["kind"] == "resp" else ""))
    tags.add("client:" + tr["cfg"]["client"])
    if any(h["code"] == 303 for h in tr["hops"][: max(0, len(tr["wire"]) - 1)]):
        tags.add("303-followed")
    if any(h["form"] in ("rel", "pathabs", "schemerel") for h in tr["hops"][: max(0, len(tr["wire"]) - 1)]):
        tags.add("relative-followed")
    c = tr["cfg"]
    if c["reqnone"] and c["clipol"]["kind"] != "none" and tr["hops"]:
        tags.add("constructor-policy+explicit-None")
    eff = c["hdrs"] if c["carrier"] != "none" else c["dhdrs"]
    removable = set(c["reqpol"]["remove"] if c["reqpol"]["kind"] == "retry" else c["clipol"]["remove"] if
                    (c["reqpol"]["kind"] == "none" and c["clipol"]["kind"] == "retry") else ["auth", "cookie", "pauth"])
    if eff and all(e["kind"] in removable for e in eff) and len(tr["wire"]) >= 2 and c["client"] != "pool":
        tags.add("only-removable-headers-followed")
        if c["dhdrs"]:
            tags.add("only-removable-headers-followed+defaults")
    return tags


def _emit_shard(args):
    """One emission shard: TLC (1 worker) prints scenarios, each is executed on the real code at once, then the
    recorded traces of the shard are validated by TLC in one batch."""
    cfg_text, skip, simulate, seed = args
    traces, scs = [], []

    def on_line(ln):
        if not ln.startswith(_SC):
            return False
        if not ln.endswith('">>'):
            raise tlc.MachineryError("truncated scenario line: " + ln[:200])
        sc = json.loads(_unq(ln[len(_SC):-3]))
        if sc["bad"] != "ok":
            raise tlc.MachineryError(f"the Model itself violates {sc['bad']} in an emitted scenario: {json.dumps(sc)[:600]}")
        scs.append(sc)
        traces.append(run_scenario(sc, skip))
        return True

    if simulate:
        r = tlc.run("MC_Redirect", cfg_text, workers=1, on_line=on_line, simulate=f"num={simulate}", depth=60, seed=seed,
                    timeout=7200, expect_fail=True)
        if r.error or r.violated:
            raise tlc.MachineryError(f"TLC simulation failed: {r.error} {r.violated}\n{r.out[-1500:]}")
        ninit = len(scs)
    else:
        r = tlc.run("MC_Redirect", cfg_text, workers=1, on_line=on_line, timeout=7200)
        if r.violated:
            raise tlc.MachineryError(f"emission run violated {r.violated}")
        m = _INIT.search(r.out)
        if not m:
            raise tlc.MachineryError("emission run did not report its initial states\n" + r.out[-1500:])
        ninit = int(m.group(1))
        if ninit != len(scs):
            raise tlc.MachineryError(f"emission incomplete: TLC started {ninit} scenarios, {len(scs)} were printed")
    verdicts = []
    vstates = 0
    for i in range(0, len(traces), 4000):
        rr, vs = validate(traces[i:i + 4000])
        verdicts += [(tid + i, l, c) for tid, l, c in vs]
        vstates += rr.distinct
    bad = [(traces[tid - 1], l, c) for tid, l, c in verdicts if c != "ok"]
    tags = {}
    for tr in traces:
        for t in classify(tr, None):
            tags[t] = tags.get(t, 0) + 1
    keys = [scenario_key(tr) for tr in traces if tr["hops"]]
    sample = None
    for tr in traces:
        if len(tr["wire"]) >= 3:
            sample = {"cfg": tr["cfg"], "hops": tr["hops"], "observed_requests": tr["wire"], "outcome": tr["outcome"]}
            break
    return {"n": len(traces), "requests": sum(len(t["wire"]) for t in traces), "bad": bad[:400], "nbad": len(bad), "tags": tags,
            "keys": keys, "sample": sample, "generated": r.generated, "distinct": r.distinct, "wall": r.wall,
            "vstates": vstates}


def report_bad(rep, pid, tr, l, clause, findings):
    from . import known
    sc = {"cfg": tr["cfg"], "hops": tr["hops"], "wire": tr["exp"]["wire"], "outcome": tr["exp"]["outcome"]} if tr["hasexp"] \
        else {"cfg": tr["cfg"], "hops": tr["hops"]}
    case = {"kind": "scenario", "scenario": sc, "skip": tr["skip"]}
    what = (f"{tr['cfg']['client']} start={render_url(tr['cfg']['start'])} answers="
            f"{[(h['code'], render_location(h)) for h in tr['hops']]} observed requests="
            f"{[(render_url(w['url']), w['method']) for w in tr['wire']]} outcome={tr['outcome']} {tr.get('exc', '')}")
    if clause.startswith("drift:"):
        rep.drift.append(f"{clause} {what}"[:600])
        return
    name, _, cls = clause.partition("@")
    f = known.match(findings, {"clause": name, "class": cls, "client": tr["cfg"]["client"]})
    if f:
        rep.known.append((f["id"], f["what"]))
        rep.extra["known_finding_cases"] = rep.extra.get("known_finding_cases", 0) + 1
        if "known_finding_sample" not in rep.extra:
            rep.extra["known_finding_sample"] = {"clause": clause, "at_request": l, "what": what[:900]}
        return
    rep.violation(name, f"request {l}: clause {name} fails: {what}"[:1200], case)


def run_property(rep, pid):
    import multiprocessing as mp
    from . import known
    quick = rep.tier == "quick"
    skip = C06_CLAUSES if pid == "C05" else C05_CLAUSES
    findings = known.load(pid)
    stage1_main(rep, pid)
    K = 8 if quick else 16
    if quick:
        plan = dict(skb=61, lb=3, skh=1201, ckh=17, lh=3) if pid == "C05" else dict(skb=283, lb=3, skh=1201, ckh=5, lh=3)
        nsim, nsimjobs = 400, 2
    else:
        plan = dict(skb=13, lb=6, skh=1201, ckh=3, lh=4) if pid == "C05" else dict(skb=61, lb=6, skh=251, ckh=3, lh=4)
        nsim, nsimjobs = 8000, 8
    jobs = []
    for s in range(K):
        jobs.append((mc_cfg(mode="planned", family="planned", k=K, s=s, seed=rep.seed, view=False, alpha="full",
                            invs=["EmitInv", "ClausesKnown"], **plan), skip, 0, 0))
    for s in range(nsimjobs):
        jobs.append((mc_cfg(mode="free", maxhops=6, family="sim", view=False, alpha="full", ckh=7, seed=rep.seed, invs=["EmitInv"]), skip,
                     nsim // nsimjobs, rep.seed * 100 + s + 1))
    gates = gate_jobs(rep, pid)
    with mp.Pool(min(JOBS, len(jobs) + len(gates))) as pool:
        gres = [pool.apply_async(_gate, (g,)) for g in gates]
        eres = [pool.apply_async(_emit_shard, (j,)) for j in jobs]
        gouts = [x.get() for x in gres]
        outs = [x.get() for x in eres]
    for o in gouts:
        check_gate(rep, o)
    tags = {}
    for o in outs:
        rep.traces += o["n"]
        rep.evaluations += o["n"]
        rep.nontrivial.update(o["keys"])
        for t, n in o["tags"].items():
            tags[t] = tags.get(t, 0) + n
        if o["sample"]:
            rep.sample(o["sample"], cap=4)
        for tr, l, c in o["bad"]:
            report_bad(rep, pid, tr, l, c, findings)
        if o["nbad"] > len(o["bad"]):
            rep.extra["bad_not_listed"] = rep.extra.get("bad_not_listed", 0) + o["nbad"] - len(o["bad"])
    nplanned = sum(o["n"] for o in outs[:K])
    rep.extra.update({"scenarios_emitted_and_replayed": rep.traces, "planned_scenarios": nplanned,
                      "simulated_scenarios": rep.traces - nplanned, "requests_observed": sum(o["requests"] for o in outs),
                      "scenario_tags": dict(sorted(tags.items())),
                      "emission_states": sum(o["distinct"] for o in outs), "trace_monitor_states": sum(o["vstates"] for o in outs)})
    need = ["followed", "303-followed", "relative-followed", "out:MaxRetryError", "out:HostChangedError", "out:resp3xx",
            "out:resp2xx", "client:pm", "client:proxy", "client:pool", "constructor-policy+explicit-None",
            "only-removable-headers-followed+defaults"]
    missing = [t for t in need if not tags.get(t)]
    if missing or nplanned < 500:
        raise tlc.MachineryError(f"scenario coverage too thin: missing {missing}, planned scenarios {nplanned}")
    rep.rule = ("every scenario TLC emits (planned families: policy x placement x client x chain pattern x code x length; "
                "spelling x carrier x remove set x chain pattern; plus tlc -simulate walks of the free model) is executed "
                "on the real client over the in-memory network and the recorded trace is judged by TLC (Redirect_Trace) "
                "with the Rules operators of Redirect.tla; a scenario is non-trivial when at least one 3xx answer was "
                "served; distinct_nontrivial counts distinct (configuration, answers) pairs")
    rep.assumptions = ["https origins are played by a plain-socket stand-in pool class (scheme bookkeeping only, no TLS)",
                       "no I/O faults: every request is answered (retry budgets other than redirects are C04's)",
                       "the forwarding proxy party attributes a request to the origin named in its absolute-form target",
                       "TLC 1.8, CPython, http.client request serialisation and the harness's request parser are trusted"]
    rep.exhaustive = True


def replay_property(rep, pid, path):
    from . import known
    with open(path) as fh:
        doc = json.load(fh)
    case = doc["case"]
    rep.rule = "replay of one recorded case"
    rep.nontrivial.update({1})
    rep.states = rep.states or 1
    rep.transitions = rep.transitions or 1
    if case.get("kind") != "scenario":
        stage1_main(rep, pid)
        return
    tr = run_scenario(case["scenario"], case.get("skip", []))
    rep.evaluations += 1
    _, verdicts = validate([tr])
    rep.traces += 1
    for tid, l, c in verdicts:
        if c != "ok":
            report_bad(rep, pid, tr, l, c, known.load(pid))
