"""Extra specifications (growth plan, DESIGN.md section 8) that run as additional stages of a property's check.
Each module exposes run_stage(rep): it adds its TLC runs, traces, evaluations and (if any) violations to the
same Report; it must be quick (a few tens of seconds) in the quick tier."""
EXTRAS = {
    "C01": ["resplife"],
    "C02": ["h2probe"],
    "C05": ["redirmeta"],
    "C09": ["ssltransport"],
}
