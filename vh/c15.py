"""C15 — what goes on the wire is exactly what the URL says.

stage 1  TLC reads every URL shape (scheme x userinfo x host kind x port spelling x path/query/
         fragment shape; spec/MC_Url.tla MCWireSeeds) with the independent reading Ref of
         spec/Url.tla, derives the wire image WireOf (dial address, Host header, TLS server name,
         request target, pool key) without and with an http proxy (forwarding for http URLs, CONNECT
         tunnel for https URLs) and checks: ShapesDefined, WireSelfConsistent (the monitor accepts the
         image), FourDerivationsAgree, ProxiedDerivationsAgree, VariantsSameKeySameWire
stage 2  the same runs emit, per shape, WireOf for both proxy modes, the case / default-port variants
         (and one non-equivalent control) and which of them the spec calls Equivalent
stage 3  every shape and its variants are driven through a real PoolManager / ProxyManager over the
         in-memory network (vh/net.py): Net.dials gives the dial address, the scripted peer's
         request log the request target / Host header / raw bytes, a recording ssl_context the
         server_hostname handed to the TLS layer; pool identity via connection_from_url
stage 4  every observation (+ observations for grammar-generated URLs beyond the shapes) is
         validated by TLC against spec/Url_Trace.tla: Url!WireClauses returns the set of failing
         clauses (hard), WireDrift compares with the canonical image where the Rules leave latitude

History / fault classes (spec/UrlHistory.tla, MC_UrlHistory.tla): TLC enumerates every history of 2 (quick) /
3 (thorough) consecutive requests to different origins through ONE manager (PoolManager / ProxyManager x default
headers none / non-empty x per-request headers x "name resolution fails for the dial name"), checks the Rules on
the design model, refutes them with each named deviation enabled (DefaultHeadersMutated -> WireHostEveryRequest,
RedialStrippedName -> WireDialHostEveryAttempt) and emits the histories; each is replayed on a real manager
(connect script raising socket.gaierror for the dial name) and judged by Url!HistClauses: every request on its OWN
URL, every dial attempt (Wire:DialHost), urllib3 error on resolution failure, default headers unchanged.

Watchdog: every request is driven in a forked worker under a CPU-time budget (vh/guard.py: max(2 s,
200 x median per-input CPU time) of WORKER CPU time); a URL whose evaluation is killed is recorded
with the observation "did-not-return" (hard clause Wire:DidNotReturn).  The harness never hangs.

TLS: the server name is observed as the server_hostname argument of SSLContext.wrap_socket (a
duck-typed recording context; no handshake is performed) - what the stdlib ssl module then puts
into SNI / matches against the certificate is trusted.  IP literals never travel as SNI anyway.
"""
from __future__ import annotations

import json
import multiprocessing as mp
import os
import random
import ssl
import warnings

from . import guard, known, net, tlc
from .c14 import NONE, cps, text

JOBS = int(os.environ.get("VERIF_JOBS") or os.cpu_count() or 4)   # every pool is sized by this

MC_CFG = """SPECIFICATION Spec
CONSTANTS Alphabet <- MCAlpha12
  MaxLen = 0
  Seeds <- MCWireSeeds
  Grow = FALSE
  PrefixId = 0
  N = 0
  SeedLen = 1
  C1 = 0
  C2 = 0
  WLevel = {lvl}
  WShard = {sh}
  WShards = {shs}
{invs}
CHECK_DEADLOCK FALSE
"""
TRACE_CFG = """SPECIFICATION TSpec
CONSTANTS Alphabet <- TrAlphabet
  MaxLen = 0
  Seeds <- TrSeeds
  Grow = FALSE
CHECK_DEADLOCK FALSE
"""
STAGE1_INVS = ["ShapesDefined", "WireSelfConsistent", "FourDerivationsAgree", "ProxiedDerivationsAgree",
               "VariantsSameKeySameWire"]
PROXY_URL = "http://Proxy.test:3128"
WFIELDS = ("dialhost", "dialport", "hosthdr", "sni", "target")


# ------------------------------------------------------------------------------ driving the real code

class RecordingContext:
    """Duck-typed SSLContext: records server_hostname, performs no handshake, returns the socket."""

    def __init__(self):
        self.calls = []
        self.verify_mode = ssl.CERT_NONE
        self.check_hostname = False
        self.options = 0
        self.verify_flags = 0
        self.minimum_version = ssl.TLSVersion.TLSv1_2
        self.maximum_version = ssl.TLSVersion.MAXIMUM_SUPPORTED

    def wrap_socket(self, sock, server_hostname=None, **kw):
        self.calls.append(server_hostname)
        return sock

    def set_alpn_protocols(self, protos):
        pass

    def load_verify_locations(self, *a, **k):
        pass

    def load_default_certs(self, *a, **k):
        pass

    def load_cert_chain(self, *a, **k):
        pass

    def set_ciphers(self, *a):
        pass


def _responder(peer, req):
    if req.method == "CONNECT":
        return net.Reply(b"HTTP/1.1 200 Connection established\r\n\r\n")
    return net.Reply(net.http_response(200, b"ok"))


def _requests_since(n, pos):
    """[(cid, Request)] that arrived after log position pos, in ARRIVAL order (Net.requests() is ordered by
    connection, which is not chronological once an earlier connection is reused)"""
    return [(e[1], n.peers[e[1]].requests[e[2] - 1]) for e in n.log[pos:] if e[0] == "REQ"]


def _carrier(n, reqs):
    """dial address of the connection that carried the (last) request: connection id -> Net.dials"""
    if not reqs:
        return []
    a = n.dials[reqs[-1][0] - 1][1]
    return [_host_cps(a[0]), int(a[1]) if isinstance(a[1], int) else -1]


def _host_cps(h):
    return cps(h) if isinstance(h, str) else cps(repr(h))


def drive(url, px, variants=()):
    """One observation: GET `url` (then each variant) through one fresh manager over one fresh network."""
    import urllib3
    obs = {"kind": "wire", "s": cps(url), "px": cps(PROXY_URL) if px == "proxy" else NONE, "k": "sent", "dials": [],
           "req": [], "snis": [], "vars": [], "exp": [], "fault": False, "u3": False, "carrier": []}
    with warnings.catch_warnings():
        warnings.simplefilter("ignore")
        with net.Net(_responder) as n:
            ctx = RecordingContext()
            kw = dict(retries=False, timeout=5, ssl_context=ctx, cert_reqs="CERT_NONE")
            pm = urllib3.PoolManager(**kw) if px == "none" else urllib3.ProxyManager(PROXY_URL, **kw)

            def one(u):
                d0, r0, s0 = len(n.dials), len(n.log), len(ctx.calls)
                u3 = False
                try:
                    resp = pm.request("GET", u, redirect=False)
                    k = "sent" if resp.status == 200 else f"status{resp.status}"
                except Exception as ex:
                    k = type(ex).__name__
                    u3 = isinstance(ex, urllib3.exceptions.HTTPError)
                reqs = _requests_since(n, r0)
                return {"k": k, "u3": u3, "carrier": _carrier(n, reqs), "dials": [[_host_cps(a[0]), int(a[1]) if isinstance(a[1], int) else -1] for _c, a, *_ in n.dials[d0:]],
                        "req": [{"m": q.method, "t": cps(q.target), "hosts": [cps(v) for kk, v in q.headers if kk.lower() == "host"]}
                                for _c, q in reqs],
                        "raw": b"\x00".join(q.raw for _c, q in reqs[-1:]),
                        "snis": [NONE if h is None else cps(h) for h in ctx.calls[s0:]]}

            first = one(url)
            obs.update(k=first["k"], u3=first["u3"], carrier=first["carrier"], dials=first["dials"], req=first["req"], snis=first["snis"])
            try:
                pool0 = pm.connection_from_url(url)
            except Exception:
                pool0 = None
            for v in variants:
                o = one(v)
                try:
                    same = pool0 is not None and pm.connection_from_url(v) is pool0
                except Exception:
                    same = False
                obs["vars"].append({"s": cps(v), "k": o["k"], "samepool": bool(same),
                                    "samebytes": bool(first["k"] == "sent" and o["k"] == "sent" and o["raw"] == first["raw"])})
            pm.clear()
    return obs




MGR_HEADERS = {"X-Mgr": "1"}
REQ_HEADERS = {"X-Req": "1"}


def drive_history(job):
    """Consecutive requests through ONE manager.  job = (px, mgrhdr, [(url, perreq, fail, close), ...]).
    fail: name resolution fails for the dial name - create_connection raises socket.gaierror for the first
    name this request dials, and only for that name (any other spelling "resolves")."""
    import socket

    import urllib3
    px, mgrhdr, steps = job
    cur = {"fail": False, "name": None, "close": True}

    def responder(peer, req):     # the server closes after the reply, or keeps the connection alive (per step)
        if req.method == "CONNECT":
            return net.Reply(b"HTTP/1.1 200 Connection established\r\n\r\n")
        return net.Reply(net.http_response(200, b"ok", keepalive=not cur["close"]), close=cur["close"])

    def script(cid, address):
        if cur["fail"]:
            if cur["name"] is None:
                cur["name"] = address[0]
            if address[0] == cur["name"]:
                return {"connect": socket.gaierror(-2, "Name or service not known")}
        return {}

    out = {"kind": "hist", "px": cps(PROXY_URL) if px == "proxy" else NONE, "steps": [], "hdr0": [], "hdr1": []}
    with warnings.catch_warnings():
        warnings.simplefilter("ignore")
        with net.Net(responder, scripts=script) as n:
            ctx = RecordingContext()
            kw = dict(retries=False, timeout=5, ssl_context=ctx, cert_reqs="CERT_NONE")
            if mgrhdr:
                kw["headers"] = dict(MGR_HEADERS)
            pm = urllib3.PoolManager(**kw) if px == "none" else urllib3.ProxyManager(PROXY_URL, **kw)
            out["hdr0"] = [[cps(str(k)), cps(str(v))] for k, v in pm.headers.items()]
            for url, perreq, fail, close in steps:
                cur["fail"], cur["name"], cur["close"] = bool(fail), None, bool(close)
                d0, r0, s0 = len(n.dials), len(n.log), len(ctx.calls)
                u3 = False
                try:
                    resp = pm.request("GET", url, redirect=False, **({"headers": dict(REQ_HEADERS)} if perreq else {}))
                    k = "sent" if resp.status == 200 else f"status{resp.status}"
                except Exception as ex:
                    k = type(ex).__name__
                    u3 = isinstance(ex, urllib3.exceptions.HTTPError)
                reqs = _requests_since(n, r0)
                out["steps"].append({
                    "s": cps(url), "px": out["px"], "k": k, "u3": u3, "fault": bool(fail and n.dials[d0:]), "vars": [], "exp": [],
                    "closed": bool(close), "carrier": _carrier(n, reqs),
                    "dials": [[_host_cps(a[0]), int(a[1]) if isinstance(a[1], int) else -1] for _c, a, *_ in n.dials[d0:]],
                    "req": [{"m": q.method, "t": cps(q.target), "hosts": [cps(v) for kk, v in q.headers if kk.lower() == "host"]}
                            for _c, q in reqs],
                    "snis": [NONE if h is None else cps(h) for h in ctx.calls[s0:]]})
            out["hdr1"] = [[cps(str(k)), cps(str(v))] for k, v in pm.headers.items()]
            pm.clear()
    return out


def validate(traces):
    if not traces:
        return []
    r = tlc.run("Url_Trace", TRACE_CFG, workers=1, files={"traces.json": json.dumps(traces)},
                env={"TRACE_FILE": "traces.json"}, timeout=7200, heap="3g")
    vs = tlc.tagged_tuples(r.out, "VERDICT")
    if len(vs) != len(traces) or any(len(v) != 5 for v in vs):
        raise tlc.MachineryError(f"Url_Trace produced {len(vs)} verdicts for {len(traces)} traces\n{r.out[-2000:]}")
    if [v[0] for v in vs] != list(range(1, len(traces) + 1)):
        raise tlc.MachineryError("Url_Trace verdicts out of order")
    return [(sorted(json.loads(c)), d, json.loads(f)) for _t, _p, c, d, f in vs]


def _new_res():
    return {"traces": 0, "evaluations": 0, "clauses": {}, "bad": [], "drift": [], "ndrift": 0, "judged": 0, "samples": [],
            "modes": {}, "nontrivial": set()}


def judge(traces, res):
    """TLC verdict for every observation; returns the clause sets in trace order."""
    allc = []
    for i in range(0, len(traces), 1500):
        part = traces[i:i + 1500]
        for (clauses, drift, facts), ob in zip(validate(part), part):
            res["traces"] += 1
            allc.append(clauses)
            if any(c.startswith("Machinery") for c in clauses):
                raise tlc.MachineryError(f"{clauses} on {text(ob['s'])!r}")
            if clauses == ["-"]:
                res["clauses"]["not-judged"] = res["clauses"].get("not-judged", 0) + 1
                continue
            if ob["k"] == "sent":
                res["judged"] += 1
                res["modes"][facts.get("mode", "?")] = res["modes"].get(facts.get("mode", "?"), 0) + 1
                if facts.get("hostkind") != "name" or facts.get("port") != "absent" or facts.get("userinfo") or facts.get("fragment"):
                    res["nontrivial"].add(text(ob["s"]) + " via " + facts.get("mode", "?"))
            for c in clauses or ["ok"]:
                res["clauses"][c] = res["clauses"].get(c, 0) + 1
            for c in clauses:
                res["bad"].append((c, facts, ob))
            if not clauses and drift != "-":
                res["ndrift"] += 1
                if len(res["drift"]) < 10:
                    res["drift"].append(f"{drift} on {text(ob['s'])!r} ({facts.get('mode')}): {describe(ob)}")
    return allc


def describe(ob):
    def t(x):
        return None if x == NONE else text(x)
    car = ob.get("carrier") or []
    return (f"GET {text(ob['s'])!r} via {t(ob['px']) or 'no proxy'} -> {ob['k']}; dial={[(text(h), p) for h, p in ob['dials']]} "
            f"carried by the connection dialled to {(text(car[0]), car[1]) if car else None} "
            f"requests={[(q['m'], text(q['t']), [text(h) for h in q['hosts']]) for q in ob['req']]} server_hostname={[t(x) for x in ob['snis']]} "
            f"variants={[(text(v['s']), v['k'], 'same pool' if v['samepool'] else 'OTHER POOL', 'same bytes' if v['samebytes'] else 'OTHER BYTES') for v in ob['vars']]}")


# ------------------------------------------------------------------------------ stages 1-3 (one shard)

def _drive_job(job):
    return drive(job[0], job[1], job[2])


def guarded_drive(jobs, res):
    """drive() for every (url, proxy mode, variants) inside the CPU-time watchdog (vh/guard.py); a job whose
    evaluation was killed yields the observation k = "did-not-return" (clause Wire:DidNotReturn)."""
    import urllib3  # noqa: F401  (import the code under test before forking, so the workers start warm)
    obs, dnr, info = guard.guarded_map(_drive_job, jobs)
    for i in dnr:
        url, px, variants = jobs[i]
        obs[i] = {"kind": "wire", "s": cps(url), "px": cps(PROXY_URL) if px == "proxy" else NONE, "k": "did-not-return",
                  "dials": [], "req": [], "snis": [], "vars": [], "exp": [], "fault": False, "u3": False, "carrier": [],
                  "varsrc": [cps(v) for v in variants]}
    res["dnr"] = res.get("dnr", 0) + len(dnr)
    res["skipped"] = res.get("skipped", 0) + len(info["skipped"])
    res["budget_s"] = max(res.get("budget_s", 0.0), info["budget_s"])
    res["max_input_cpu_s"] = max(res.get("max_input_cpu_s", 0.0), info["max_input_cpu_s"])
    return obs


def _shape_shard(job):
    lvl, sh, shs = job
    res = _new_res()
    res.update(emitted=0, expected_mismatch=0)
    shapes = []

    def on_line(ln):
        if not ln.startswith('<<"W", "'):
            return False
        if not ln.endswith('">>'):
            raise tlc.MachineryError("truncated emission line: " + ln[:200])
        shapes.append(json.loads(ln[8:-3].replace('\\\\', '\x00').replace('\\"', '"').replace('\x00', '\\')))
        res["emitted"] += 1
        return True

    invs = "".join(f"INVARIANT {i}\n" for i in STAGE1_INVS + ["EmitWire"])
    r = tlc.run("MC_Url", MC_CFG.format(lvl=lvl, sh=sh, shs=shs, invs=invs), workers=1, on_line=on_line, timeout=7200)
    res.update(distinct=r.distinct, generated=r.generated, violated=r.violated, wall=r.wall)
    if r.violated:
        res["trace"] = [ln for ln in r.out.splitlines() if ln.startswith("s = ")][-1:]
        return res
    if res["emitted"] != r.distinct:
        raise tlc.MachineryError(f"shape shard {sh}/{shs}: {res['emitted']} shapes emitted, TLC found {r.distinct}")
    # stage 3: every shape (and its variants), without and with the proxy, inside the CPU-time watchdog
    jobs = [(text(d["s"]), px, [text(v) for v in d["vars"]]) for d in shapes for px in ("none", "proxy")]
    traces = []
    pyside = []      # Python-side comparison with the emitted expectation (dial host, server name)
    for (url, px, variants), ob, d in zip(jobs, guarded_drive(jobs, res), [d for d in shapes for _ in (0, 1)]):
        if ob is None:
            continue                  # abandoned after too many kills (counted in res["skipped"])
        res["evaluations"] += 1 + len(variants)
        w = d["wire"][px]
        ob["exp"] = {f: w[f] for f in WFIELDS}
        mism = bool(ob["k"] == "sent" and len(ob["dials"]) == 1 and len(ob["req"]) == (2 if w["mode"] == "tunnel" else 1)
                    and (ob["dials"][0][0] != w["dialhost"] or ob["snis"] != ([] if w["sni"] == NONE else [w["sni"]])))
        res["expected_mismatch"] += mism
        pyside.append(mism)
        for v, eq in zip(ob["vars"], d["eq"]):
            v["eq_emitted"] = eq
        traces.append(ob)
        if len(res["samples"]) < 1 and d["facts"][px].get("hostkind") == "ipv6zone" and d["facts"][px].get("port") == "other":
            res["samples"].append({"url": url, "proxy": px, "expected_WireOf": {f: (w[f] if isinstance(w[f], int) else (None if w[f] == NONE else text(w[f]))) for f in WFIELDS},
                                   "observed": describe(ob)})
    res["ntraces_expected"] = len(traces) + res.get("skipped", 0)
    for mism, clauses, ob in zip(pyside, judge(traces, res), traces):
        if mism != bool({"Wire:DialHost", "Wire:SNI"} & set(clauses)):
            raise tlc.MachineryError(f"comparison with the emitted WireOf and the TLC verdict disagree on {text(ob['s'])!r}: {mism} vs {clauses}")
    return res


# ------------------------------------------------------------------------------ stage 4: beyond the shapes

R_SCHEMES = ["http", "https", "HTTP", "hTTps", "Https"]
R_UI = ["", "", "", "u@", "u:p@", "a@b@", "%41:%zz@", "é@", ":@"]
R_HOSTS = ["example.com", "EXAMPLE.com.", "127.0.0.1", "[::1]", "[FE80::1%25eth0]", "[fe80::1%eth0]",
           "[::ffff:1.2.3.4]", "[1:2:3:4:5:6:7:8]", "[A::B%25Zone]", "bücher.example", "bÜcher.example.", "例え.jp",
           "xn--bcher-kva.example", "a%41b.example", "ex_ample.test", "a-b.c.d.e.test", "1.2.3", "ß.example", "localhost",
           "[::1%25a%41]", "a~b.test", "sub.EXAMPLE.org"]
R_PORTS = ["", "", "", ":", ":80", ":443", ":080", ":00443", ":8080", ":0", ":65535", ":1", ":0000000000000000081"]
R_PATHS = ["", "", "/", "/a/../b", "/./a", "/..", "/a/.", "/%2e%2e/", "/a%2fb", "/a b", "/é", "/%7e", "/%zz", "/%", "//x",
           "/\\x", "\\y", "/a/../../..", "/.../", "/a;p", "/@", "/:", "/a/./b/../c", "/%C3%A9", "/%c3%a9", "/a%", "/[x]",
           "/{x}", "/a|b", "/\t", "/a@b", "/😀"]
R_QUERIES = [None, None, "", "q", "a=b&c", "?", "%41", "%", " ", "é", "a/b", "a@b", "%3f", "%zz%41", "[]", "a\\b"]
R_FRAGS = [None, None, "", "f", "#", "?", "%zz", "é", "/", "a b", "@"]


def gen_url(rng):
    s = rng.choice(R_SCHEMES) + "://" + rng.choice(R_UI) + rng.choice(R_HOSTS) + rng.choice(R_PORTS) + rng.choice(R_PATHS)
    q, f = rng.choice(R_QUERIES), rng.choice(R_FRAGS)
    if q is not None:
        s += "?" + q
    if f is not None:
        s += "#" + f
    return s


def flip_case(rng, s):
    """a variant that differs only in the letter case of the scheme / host (decided by the spec, not here)"""
    i = s.find("://")
    j = i + 3
    while j < len(s) and s[j] not in "/?#\\":
        j += 1
    at = s.rfind("@", i + 3, j)
    k = max(at + 1, i + 3)
    z = s.find("%", k, j)
    end = j if z < 0 else z
    head = "".join(c.upper() if rng.random() < 0.5 else c.lower() for c in s[:i])
    host = "".join((c.upper() if rng.random() < 0.5 else c.lower()) if c.isascii() else c for c in s[k:end])
    return head + s[i:k] + host + s[end:]


def _random_shard(job):
    seed, n = job
    rng = random.Random(seed)
    res = _new_res()
    jobs = []
    for _ in range(n):
        u = gen_url(rng)
        jobs.append((u, rng.choice(["none", "none", "proxy"]), [flip_case(rng, u)]))
    traces = [ob for ob in guarded_drive(jobs, res) if ob is not None]
    res["evaluations"] += 2 * len(traces)
    judge(traces, res)
    return res


# ------------------------------------------------------------------------------ history / fault classes

HIST_CFG = """SPECIFICATION ShardSpec
CONSTANTS Alphabet <- HTrAlphabet
  MaxLen = 0
  Seeds <- HTrSeeds
  Grow = FALSE
  Origins <- MCOrigins
  MaxReq = {n}
  Deviations <- {dev}
  ProxyText <- MCProxyText
  PxChoices <- MCPxChoices
  PerReqs <- MCPerReqs
  Fails <- MCFails
  Closes <- MCCloses
  HLevel = {lvl}
  HShard = {sh}
  HShards = {shs}
ACTION_CONSTRAINT ShardFirst
{invs}
CHECK_DEADLOCK FALSE
"""
HIST_INVS = ["OriginsDefined", "WireHostEveryRequest", "WireDialHostEveryAttempt", "EveryRequestConforms",
             "DefaultHeadersUnchanged", "EquivalentReuse", "FaultSurfaces"]
# named deviation -> the invariant TLC must refute when the deviation is enabled
HIST_DEVIATIONS = {"DevMutated": ("WireHostEveryRequest", 1), "DevRedial": ("WireDialHostEveryAttempt", 1),
                   "DevKeyDot": ("WireDialHostEveryAttempt", 3)}       # deviation -> (refuted invariant, HLevel)


def _hist_stage1(job):
    """The design model with a named deviation enabled: TLC must refute the matching Rules invariant;
    with no deviation every invariant holds (checked by the emission shards, which cover the space)."""
    dev, n, lvl = job
    invs = "".join(f"INVARIANT {i}\n" for i in HIST_INVS)
    r = tlc.run("MC_UrlHistory", HIST_CFG.format(n=n, lvl=lvl, dev=dev, sh=0, shs=1, invs=invs), workers=1, heap="3g",
                expect_fail=True, timeout=7200, extra=("-continue",))     # report every refuted invariant, not only the first
    return {"dev": dev, "violated": sorted(set(r.violated)), "distinct": r.distinct, "generated": r.generated, "wall": r.wall,
            "error": r.error}


def _hist_shard(job):
    n, lvl, sh, shs = job
    res = _new_res()
    res.update(emitted=0, expected_mismatch=0)
    hists = []

    def on_line(ln):
        if not ln.startswith('<<"H", "'):
            return False
        if not ln.endswith('">>'):
            raise tlc.MachineryError("truncated emission line: " + ln[:200])
        hists.append(json.loads(ln[8:-3].replace('\\\\', '\x00').replace('\\"', '"').replace('\x00', '\\')))
        res["emitted"] += 1
        return True

    invs = "".join(f"INVARIANT {i}\n" for i in HIST_INVS + ["EmitHist"])
    r = tlc.run("MC_UrlHistory", HIST_CFG.format(n=n, lvl=lvl, dev="NoDeviations", sh=sh, shs=shs, invs=invs), workers=1,
                on_line=on_line, timeout=7200)
    res.update(distinct=r.distinct, generated=r.generated, violated=r.violated, wall=r.wall)
    if r.violated:
        return res
    jobs = [("none" if h["px"] == NONE else "proxy", bool(h["mgrhdr"]),
             [(text(st["u"]), bool(st["perreq"]), bool(st["fail"]), bool(st["close"])) for st in h["steps"]]) for h in hists]
    import urllib3  # noqa: F401
    obs, dnr, info = guard.guarded_map(drive_history, jobs)
    res["dnr"], res["skipped"], res["budget_s"], res["max_input_cpu_s"] = len(dnr), len(info["skipped"]), info["budget_s"], info["max_input_cpu_s"]
    traces, expected = [], []
    for i, (job_i, ob, h) in enumerate(zip(jobs, obs, hists)):
        if i in dnr:
            ob = {"kind": "hist", "px": h["px"], "hdr0": [], "hdr1": [],
                  "steps": [{"s": cps(job_i[2][0][0]), "px": h["px"], "k": "did-not-return", "u3": False, "fault": False, "vars": [],
                             "exp": [], "dials": [], "req": [], "snis": [], "carrier": [], "closed": True}]}
        if ob is None:
            continue
        ob["job"] = [job_i[0], job_i[1], [[cps(u), p, f, c] for u, p, f, c in job_i[2]]]
        res["evaluations"] += len(job_i[2])
        traces.append(ob)
        expected.append(h["exp"])
    for clauses, ob, exp in zip(judge_hist(traces, res), traces, expected):
        # the model's predicted observations (outcome class, every dial attempt): a difference the Rules accept is drift
        got = [[st["k"], st["dials"], st["carrier"]] for st in ob["steps"]]
        want = [[e["k"], e["dials"], e["carrier"]] for e in exp]
        if not clauses and got != want:
            res["ndrift"] += 1
            if len(res["drift"]) < 5:
                res["drift"].append(f"history model: observed {got} expected {want}")
    return res


def describe_hist(ob):
    return " ; ".join(describe(dict(st, vars=[])) for st in ob["steps"]) + \
        f" ; manager default headers before={[(text(a), text(b)) for a, b in ob['hdr0']]} after={[(text(a), text(b)) for a, b in ob['hdr1']]}"


def judge_hist(traces, res):
    allc = []
    for i in range(0, len(traces), 1000):
        part = traces[i:i + 1000]
        for (clauses, _drift, facts), ob in zip(validate(part), part):
            res["traces"] += 1
            clauses = [c for c in clauses if c != "-"]
            allc.append(clauses)
            if any(c.startswith("Machinery") for c in clauses):
                raise tlc.MachineryError(f"{clauses} on a history")
            res["judged"] += 1
            for m in facts.get("modes", []):
                res["modes"][m] = res["modes"].get(m, 0) + 1
            res["nontrivial"].add("hist:" + json.dumps(ob["job"]))
            for c in clauses or ["ok"]:
                res["clauses"][c] = res["clauses"].get(c, 0) + 1
            for c in clauses:
                if len(res["bad"]) < 30:
                    res["bad"].append((c, facts, ob))
    return allc


# ------------------------------------------------------------------------------ reporting

def _report(rep, findings, clause, facts, ob):
    f = dict(facts)
    f["clause"] = clause
    k = known.match(findings, f)
    if ob.get("kind") == "hist":
        rep.violation(clause, f"{clause}: {describe_hist(ob)}", {"kind": "hist", "job": ob["job"], "clause": clause})
    elif k:
        rep.known.append((k["id"], k["what"]))
    else:
        rep.violation(clause, f"{clause}: {describe(ob)}",
                      {"kind": "wire", "s": ob["s"], "px": "none" if ob["px"] == NONE else "proxy",
                       "vars": [v["s"] for v in ob["vars"]] or ob.get("varsrc", []), "clause": clause})


def _absorb(rep, findings, o, tally, seen_bad):
    rep.traces += o["traces"]
    rep.evaluations += o["evaluations"]
    for c, n in o["clauses"].items():
        tally[c] = tally.get(c, 0) + n
    for clause, facts, ob in o["bad"]:
        key = (clause, facts.get("mode"), facts.get("hostkind"), facts.get("port"))
        seen_bad[key] = seen_bad.get(key, 0) + 1
        if seen_bad[key] <= 3:          # a few representatives per (clause, input class)
            _report(rep, findings, clause, facts, ob)
        elif not known.match(findings, dict(facts, clause=clause)):
            rep.violations.append({"clause": clause, "what": "(further instance) " + text(ob["s"] if "s" in ob else ob["steps"][0]["s"]), "replay": rep.violations[-1]["replay"] if rep.violations else None})
    for d in o["drift"]:
        rep.drift.append(d)
    for s in o["samples"]:
        rep.sample(s, cap=5)


def run(rep):
    quick = rep.tier == "quick"
    findings = known.load("C15")
    rep.rule = ("every URL shape is driven through a real PoolManager and a real ProxyManager over the in-memory network; "
                "a case is non-trivial when the URL is not the plain 'name host, no port, no userinfo, no fragment' shape, "
                "i.e. at least one of the four derivations has to normalise something; distinct URLs x proxy mode")
    rep.assumptions = ["TLS server name observed as the server_hostname argument of SSLContext.wrap_socket (recording context, no handshake); the ssl module is trusted to put it into SNI",
                       "proxy: one http proxy (forwarding for http URLs, CONNECT tunnel for https URLs); https proxies / forwarding for https not driven",
                       "latitude: zone id / trailing dot present or stripped in the Host header (and in an absolute-form target); explicit port 0; an absolute-form target may keep an empty path",
                       "IDNA is an opaque table (two labels); other non-ASCII hosts are not judged",
                       "vh/net.py request parser, TLC and CPython http.client are trusted (http.client is also part of what is observed)"]
    lvl, shs, nrand, per = (1, 8, 1200, 100) if quick else (2, 11, 24000, 750)
    hn, hlvl, hshs = (2, 1, 4) if quick else (3, 2, 16)
    tally, seen_bad = {}, {}
    with mp.Pool(JOBS) as pool:
        # the refutations are design-level facts: the small space suffices (and -continue prints every counter-example)
        dev_async = pool.map_async(_hist_stage1, [(dev, 2, lv) for dev, (_inv, lv) in HIST_DEVIATIONS.items()], chunksize=1)
        # + the variant class (HLevel 3): URLs differing only in a trailing dot / case / default port / userinfo+fragment
        vn = 2 if quick else 3
        hist_async = pool.map_async(_hist_shard, [(vn, 3, 0, 1)] + [(hn, hlvl, sh, hshs) for sh in range(hshs)], chunksize=1)
        rnd_async = pool.map_async(_random_shard, [(rep.seed * 9176 + 31 * i + 7, per) for i in range(nrand // per)])
        outs = pool.map(_shape_shard, [(lvl, sh, shs) for sh in range(shs)], chunksize=1)
        rnd = rnd_async.get()
        houts = hist_async.get()
        devs = dev_async.get()
    # ---- history / fault classes: stage 1 on the design model (spec/UrlHistory.tla)
    for o in houts:
        for v in o["violated"]:
            rep.violation("Stage1:" + v, f"TLC: invariant {v} violated in spec/UrlHistory.tla with no deviation enabled", {"kind": "stage1"})
    for d in devs:
        want = HIST_DEVIATIONS[d["dev"]][0]
        if d["error"] or want not in d["violated"]:
            raise tlc.MachineryError(f"UrlHistory: deviation {d['dev']} enabled but TLC did not refute {want} (got {d['violated']}, {d['error']}) - vacuous Rules")
        rep.stage1.append({"run": f"MC_UrlHistory MaxReq=2 HLevel={HIST_DEVIATIONS[d['dev']][1]} deviation {d['dev']} (expected refutation)",
                           "distinct_states": d["distinct"], "states_generated": d["generated"], "depth": 3,
                           "wall_s": round(d["wall"], 1), "refuted_invariant": want})
    norig = 3 if hlvl == 1 else 6
    nhist = sum(o["emitted"] for o in houts)
    nwant = 4 * (norig * 4) ** hn + 2 * (7 * 2) ** vn
    if not rep.violations and nhist != nwant:
        raise tlc.MachineryError(f"history emission incomplete: {nhist} histories, expected {nwant}")
    if not rep.violations and sum(o["traces"] + o.get("skipped", 0) for o in houts) != nhist:
        raise tlc.MachineryError(f"{nhist} histories emitted but {sum(o['traces'] for o in houts)} validated")
    rep.states += sum(o["distinct"] for o in houts)
    rep.transitions += sum(o["generated"] for o in houts)
    rep.stage1.append({"run": f"MC_UrlHistory MaxReq={hn} HLevel={hlvl} ({hshs} shards) + variant class MaxReq={vn} HLevel=3, no deviation", "distinct_states": sum(o["distinct"] for o in houts),
                       "states_generated": sum(o["generated"] for o in houts), "depth": hn + 1,
                       "wall_s": round(max(o["wall"] for o in houts), 1), "invariants": HIST_INVS,
                       "histories_emitted": nhist, "histories_replayed_and_validated": sum(o["traces"] for o in houts)})
    rep.extra["history_class"] = {"histories": nhist, "requests": sum(o["evaluations"] for o in houts),
                                  "managers": ["PoolManager", "ProxyManager(http proxy)"], "default_headers": ["none", "non-empty"],
                                  "per_request_headers": [False, True], "fault": "socket.gaierror for the dial name",
                                  "deviations_refuted_by_TLC": {d["dev"]: HIST_DEVIATIONS[d["dev"]][0] for d in devs},
                                  "variant_class": f"{2 * 14 ** vn} histories of {vn} URLs differing only in trailing dot / case / default port / userinfo+fragment, keep-alive or server close"}
    nshapes = sum(o["distinct"] for o in outs)
    for o in outs:
        for v in o["violated"]:
            rep.violation("Stage1:" + v, f"TLC: invariant {v} violated in spec/MC_Url.tla (C15 shapes): {o.get('trace')}", {"kind": "stage1"})
    if rep.violations:
        rep.states += nshapes
        return
    rep.states += nshapes
    rep.transitions += sum(o["generated"] for o in outs)
    rep.stage1.append({"run": f"MC_Url wire shapes WLevel={lvl} ({shs} shards by host kind)", "distinct_states": nshapes,
                       "states_generated": sum(o["generated"] for o in outs), "depth": 1, "wall_s": round(max(o["wall"] for o in outs), 1),
                       "invariants": STAGE1_INVS, "shapes_emitted": sum(o["emitted"] for o in outs),
                       "observations_replayed": sum(o["traces"] for o in outs)})
    if sum(o["traces"] + o.get("skipped", 0) for o in outs) != 2 * nshapes or nshapes == 0:
        raise tlc.MachineryError(f"{nshapes} shapes emitted but {sum(o['traces'] for o in outs)} observations validated (want 2 per shape)")
    judged = sum(o["judged"] for o in outs)
    if judged < 0.9 * 2 * nshapes:
        # the shapes are all inside the quantifier: the managers must accept (nearly) all of them
        rep.drift.append(f"only {judged} of {2 * nshapes} shape observations were accepted and sent")
    if judged == 0:
        raise tlc.MachineryError("no shape was sent - vacuous")
    modes = {}
    for o in outs + rnd + houts:
        for m, c in o["modes"].items():
            modes[m] = modes.get(m, 0) + c
    for m in ("direct", "forward", "tunnel"):
        if not modes.get(m):
            raise tlc.MachineryError(f"mode {m} never exercised - vacuous")
    for o in outs + rnd + houts:
        _absorb(rep, findings, o, tally, seen_bad)
        rep.nontrivial.update(o["nontrivial"])
    rep.extra["verdict_tally"] = tally
    allo = outs + rnd + houts
    rep.extra["watchdog"] = {"per_input_budget_cpu_s": max(o.get("budget_s", 0.0) for o in allo),
                             "rule": f"max({guard.FLOOR} s, {guard.FACTOR:g} x median per-input CPU time of the batch), worker CPU time",
                             "did_not_return": sum(o.get("dnr", 0) for o in allo),
                             "abandoned_after_repeated_kills": sum(o.get("skipped", 0) for o in allo),
                             "max_per_input_cpu_s_seen": round(max(o.get("max_input_cpu_s", 0.0) for o in allo), 4)}
    if rep.extra["watchdog"]["abandoned_after_repeated_kills"] and not rep.violations:
        raise tlc.MachineryError("inputs were abandoned by the watchdog but no Wire:DidNotReturn violation was recorded")
    rep.extra["modes_sent"] = modes
    rep.extra["expected_mismatch_python_side"] = sum(o["expected_mismatch"] for o in outs)
    rep.extra["random_traces"] = {"n": sum(o["traces"] for o in rnd), "judged": sum(o["judged"] for o in rnd)}
    if sum(o["judged"] for o in rnd) < nrand // 4:
        raise tlc.MachineryError("random URL leg: fewer than 25% of the observations were judged - vacuous")
    rep.exhaustive = True


def replay(rep, path):
    with open(path) as fh:
        doc = json.load(fh)
    case = doc["case"]
    findings = known.load("C15")
    rep.rule = "replay of one recorded case"
    rep.nontrivial.update({1, 2})
    rep.states = rep.transitions = 1
    if case.get("kind") == "hist":
        job = (case["job"][0], case["job"][1], [(text(x[0]), x[1], x[2], x[3] if len(x) > 3 else True) for x in case["job"][2]])
        obs, dnr, _ = guard.guarded_map(drive_history, [job])
        if dnr:
            rep.violation("Wire:DidNotReturn", "the history did not return within the CPU-time budget", case)
            return
        obs[0]["job"] = case["job"]
        res = _new_res()
        judge_hist(obs, res)
        rep.traces += 1
        rep.evaluations += len(job[2])
        for clause, facts, o in res["bad"]:
            if clause == case.get("clause") or not case.get("clause"):
                _report(rep, findings, clause, facts, o)
        return
    if case.get("kind") != "wire":
        rep.violation(doc["clause"], "stage-1 violations are replayed by running the check again", case)
        return
    res = _new_res()
    ob = guarded_drive([(text(case["s"]), case["px"], [text(v) for v in case["vars"]])], res)[0]   # same CPU-time budget
    rep.evaluations += 1 + len(case["vars"])
    judge([ob], res)
    rep.traces += 1
    for clause, facts, o in res["bad"]:
        if clause == case.get("clause") or not case.get("clause"):
            _report(rep, findings, clause, facts, o)
