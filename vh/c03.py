"""C03 -- a response only ever contains bytes sent in reply to its own request.

stage 1  TLC checks the implementation-shaped model spec/Exchange.tla (pooled keep-alive connections,
         kernel buffer vs buffered reader, http.client request/response state machine, retry on a
         dropped connection) against the Rules of spec/ExchangeRules.tla: INVARIANT OnlyOwnBytes,
         UncleanNeverReused, OnlyUrllib3Errors (+ TypeOK, NoDuplicateOpen, NotPooledWhileHeld, Settles)
         for every history within the bounds; named deviations (probe skipped, connection kept after an
         error, ...) must make TLC find a violation (non-vacuity); per-action coverage is read back.
stage 2  the same runs emit every complete behaviour as a history: per request the server script and
         the caller behaviour (environment choices) plus the Model's expected observations.
stage 3  each history is replayed on the real HTTPConnectionPool over the in-memory network
         (vh/c03drv.py); every body byte carries the id of the request / connection that caused it.
stage 4  the recorded events (ground truth from the peer and the socket layer, caller ops, delivered
         units) are judged by TLC with the SAME Rules operators (spec/Exchange_Trace.tla, total monitor,
         one VERDICT per trace).  A failing clause is a VIOLATION (or a KNOWN-FINDING when the failing
         history matches known_findings.d/C03.json); a trace that satisfies the Rules but differs from
         the Model's expected observations is MODEL-DRIFT (soft).

Latitude (three-valued bookkeeping, see ExchangeRules!CleanAfter): a connection MUST NOT yield a later
response when bytes of the previous exchange are still on the wire at checkout (kernel buffer, a tail
in flight, EOF), when the peer announced/performed a close, or when the exchange ended in an error;
when everything the peer wrote for the previous exchange has already been taken off the socket by the
client (e.g. slurped into the previous response's reader and thrown away with it) the stream is in
sync and reuse is allowed though not demanded.  Stray bytes that arrive AFTER the next checkout are
never generated (outside the statement).
"""
from __future__ import annotations

import json
import multiprocessing as mp
import os
import random

from . import c03drv, known, tlc

INVS = ["TypeOK", "OnlyOwnBytes", "UncleanNeverReused", "OnlyUrllib3Errors", "NoDuplicateOpen", "NotPooledWhileHeld",
        "Settles"]
INVS_S4 = ["TypeOK", "OnlyOwnBytesButS4", "UncleanNeverReusedButS4", "OnlyUrllib3Errors", "NoDuplicateOpen",
           "NotPooledWhileHeld", "Settles"]
ACTIONS = ["StartReq", "Checkout", "Send", "Serve", "RecvHead", "Preload", "Return", "Fail", "ReadAll", "Preloaded",
           "Drain", "ReadBody", "StreamStep", "Abandon", "Read1", "Release", "Close", "Ignore", "Drop", "ServerStray", "ServerEOF",
           "NoAfter", "NextReq", "Finish"]
SUBS = ["204", "304", "head", "103"]

CFG = """SPECIFICATION Spec
CONSTANTS
  MaxSize = {maxsize}
  Retries = {retries}
  Seg = "{seg}"
  NReq = {nreq}
  FullSteps = {full}
  Scripts1 <- {s1}
  Ops1 <- {o1}
  ScriptsN <- {sn}
  OpsN <- {on}
  ScriptsF <- {sf}
  OpsF <- {of}
  Dev <- {dev}
  ShardK = {k}
  ShardS = {s}
  EmitOn = {emit}
ACTION_CONSTRAINT ShardAndEmit
{invs}
"""
TRACE_CFG = """SPECIFICATION TSpec
CHECK_DEADLOCK FALSE
"""


def cfg(**kw) -> str:
    d = dict(maxsize=1, retries=1, seg="slurp", nreq=2, full=1, s1="HardScripts", o1="AllOps", sn="HardScripts",
             on="AllOps", sf="FinalScripts", of="FinalOps", dev="NoDev", k=1, s=0, emit="TRUE", inv=INVS)
    d.update(kw)
    d["invs"] = "\n".join("INVARIANT " + i for i in d.pop("inv"))
    return CFG.format(**d)


# ------------------------------------------------------------------------------ stage 3 helpers

def to_history(h, meta, salt) -> dict:
    """TLC history (list of steps with sc/op/obs) -> driver history.  The body-less flavour (204 / 304 /
    HEAD / 103) is the same behaviour in the Model; it is rotated here so all four are exercised."""
    steps = []
    for i, st in enumerate(h):
        sc = dict(st["sc"])
        if sc["fr"] == "bodyless":
            sc["sub"] = SUBS[(salt + i) % 4]
        op = dict(st["op"])
        if op["kind"] == "streamk":
            op["how"] = c03drv.HOWS[(salt + i) % 3]
        steps.append({"sc": sc, "op": op})
    return {"maxsize": meta["maxsize"], "retries": meta["retries"], "seg": meta["seg"], "steps": steps}


def observed(trace) -> list:
    by = {}
    for e in trace["ev"]:
        by.setdefault(e["rid"], {})[e["e"]] = e
    out = []
    for rid in sorted(by):
        q, o = by[rid]["req"], by[rid].get("op")
        out.append({"out": q["out"], "att": [{"s": a["s"], "n": a["n"], "kpend": a["kpend"]} for a in q["att"]],
                    "probes": q["probes"], "tag": q["hdr"], "res": o["res"] if o else "none",
                    "nd": len(o["deliv"]) if o else 0})
    return out


def drift_of(h, trace):
    got = observed(trace)
    if len(got) != len(h):
        return f"{len(h)} steps expected, {len(got)} observed"
    for i, (st, g) in enumerate(zip(h, got)):
        for k, v in g.items():
            if st["obs"][k] != v:
                return f"step {i + 1} {k}: model {st['obs'][k]} code {v}"
    return None


def nontrivial(trace) -> bool:
    for e in trace["ev"]:
        if e["e"] == "after":
            return True
        if e["e"] == "req" and (len(e["att"]) > 1 or e["out"] != "response" or any(p["res"] == "dropped" for p in e["probes"])):
            return True
        if e["e"] == "op" and (e["res"] != "ok" or e["op"]["kind"] in ("readk", "release", "close", "ignore", "streamk", "read1")):
            return True
    return False


def facts_of(trace, pos, clause) -> dict:
    """Facts about a rejected trace for known-finding matching: what was the previous exchange on the
    connection that produced the offending response?"""
    evs = trace["ev"]
    bad = evs[pos - 1]
    rid = bad["rid"]
    req = next(e for e in evs if e["e"] == "req" and e["rid"] == rid)
    sock = req["hdr"]["s"]
    prev_sc, prev_op = None, None
    for e in evs:
        if e["rid"] >= rid:
            break
        if e["e"] == "req" and (e["hdr"]["s"] == sock or any(a["s"] == sock for a in e["att"])):
            prev_sc, prev_op = e["sc"], None
            if e["out"] == "response" and e["hdr"]["s"] == sock:
                prev_op = next((o["op"] for o in evs if o["e"] == "op" and o["rid"] == e["rid"]), None)
    return {"clause": clause,
            "prev_tail_in_flight": bool(prev_sc and prev_sc.get("late", 0) > 0),
            "prev_op": prev_op["kind"] if prev_op else "none",
            "prev_response_dropped": bool(prev_op) and not prev_op.get("hold", False)}


def validate_traces(traces):
    """Batch trace validation by TLC.  Returns verdict tuples (tid, position, clause)."""
    r = tlc.run("Exchange_Trace", TRACE_CFG, workers=1, files={"traces.json": json.dumps(traces)},
                env={"TRACE_FILE": "traces.json"}, timeout=3600, heap="3g")
    verdicts = tlc.tagged_tuples(r.out, "VERDICT")
    if len(verdicts) != len(traces) or sorted(v[0] for v in verdicts) != list(range(1, len(traces) + 1)):
        raise tlc.MachineryError(f"trace validation produced {len(verdicts)} verdicts for {len(traces)} traces\n{r.out[-2000:]}")
    return r, sorted(verdicts)


_PRE = '<<"H", "'


def _unq(s):
    return s.replace('\\\\', '\x00').replace('\\"', '"').replace('\x00', '\\')


def _shard(job):
    """One emission shard: TLC (1 worker) checks the invariants on its share of the behaviours and prints
    each complete history; it is replayed at once; the traces of the shard are then judged by TLC."""
    cfgtext, meta = job
    hs, traces = [], []

    def on_line(ln):
        if not ln.startswith(_PRE):
            return False
        h = json.loads(_unq(ln[len(_PRE):-3]))
        hist = to_history(h, meta, meta["salt"] + len(hs))
        t = c03drv.run_history(hist)
        hs.append(h)
        traces.append({"seg": hist["seg"], "hist": hist, "ev": t["ev"]})
        return True

    sim = meta.get("simulate")
    r = tlc.run("MC_Exchange", cfgtext, workers=1, on_line=on_line, heap="2g", timeout=7200, expect_fail=True,
                simulate=sim, depth=400 if sim else None, seed=meta.get("seed") if sim else None)
    if r.error and not r.violated:
        raise tlc.MachineryError(f"TLC error in MC_Exchange {meta}: {r.error}\n{r.out[-2000:]}")
    out = {"meta": meta, "n": len(hs), "generated": r.generated, "distinct": r.distinct, "depth": r.depth,
           "violated": r.violated, "wall": r.wall, "bad": [], "drift": [], "nontriv": [], "events": 0, "samples": []}
    if not traces:
        return out
    _, verdicts = validate_traces([{"seg": t["seg"], "ev": t["ev"]} for t in traces])
    for (tid, pos, clause), h, t in zip(verdicts, hs, traces):
        out["events"] += len(t["ev"])
        key = json.dumps(t["hist"], sort_keys=True)
        if nontrivial(t):
            out["nontriv"].append(hash(key))
        if clause != "ok":
            if len(out["bad"]) < 40:
                out["bad"].append({"clause": clause, "pos": pos, "hist": t["hist"], "facts": facts_of(t, pos, clause),
                                   "event": t["ev"][pos - 1]})
        else:
            d = drift_of(h, t)
            if d and len(out["drift"]) < 5:
                out["drift"].append(f"{d} :: {key[:400]}")
            out["ndrift"] = out.get("ndrift", 0) + (1 if d else 0)
    out["samples"] = [{"history": traces[0]["hist"], "expected": [s["obs"] for s in hs[0]], "events": traces[0]["ev"]}]
    return out


def _stage1(job):
    """A TLC run without emission: returns what TLC found (used for deviation / coverage / fix runs)."""
    name, cfgtext, workers, coverage = job
    r = tlc.run("MC_Exchange", cfgtext, workers=workers, heap="3g", timeout=7200, expect_fail=True, coverage=coverage)
    if r.error and not r.violated:
        raise tlc.MachineryError(f"TLC error in {name}: {r.error}\n{r.out[-2000:]}")
    return {"name": name, "violated": r.violated, "generated": r.generated, "distinct": r.distinct, "depth": r.depth,
            "wall": r.wall, "coverage": {a: r.coverage.get(a) for a in ACTIONS} if coverage else None}


def _monitor_selftest(_):
    """The trace monitor must reject corrupted recordings (one per clause) and accept the original."""
    import copy
    sc = {"fr": "cl", "sub": "204", "len": 2, "cut": c03drv.NOCUT, "ka": True, "extra": "none", "after": "none", "late": 0,
          "shape": "cells"}
    hist = {"maxsize": 1, "retries": 1, "seg": "exact",
            "steps": [{"sc": sc, "op": {"kind": "read", "k": 0, "hold": False}}] * 2}
    base = {"seg": "exact", "ev": c03drv.run_history(hist)["ev"]}
    if [e["e"] for e in base["ev"]] != ["req", "op", "req", "op"] or base["ev"][2]["hdr"]["n"] != 2:
        raise tlc.MachineryError("monitor self-test: the clean two-request history did not reuse its connection")

    def mut(f):
        t = copy.deepcopy(base)
        f(t["ev"])
        return t

    def foreign_cell(ev): ev[3]["deliv"][0]["r"] = 1
    def foreign_head(ev): ev[2]["hdr"]["r"] = 1
    def raw_error(ev): ev[2]["out"] = "raw"
    def raw_read_error(ev): ev[1]["res"] = "raw"
    def unclean_prev(ev): ev[1]["op"] = {"kind": "readk", "k": 1, "hold": False}
    def pending(ev): ev[2]["att"][0]["kpend"] = True
    def too_long(ev): ev[3]["sentn"] = 1
    def errored_prev(ev): ev[1]["res"] = "urllib3"

    cases = [(lambda ev: None, "ok"), (foreign_cell, "OnlyOwnBytes"), (foreign_head, "OnlyOwnBytes"),
             (raw_error, "OnlyUrllib3Errors"), (raw_read_error, "OnlyUrllib3Errors"), (unclean_prev, "UncleanNeverReused"),
             (pending, "UncleanNeverReused"), (too_long, "OnlyOwnBytes"), (errored_prev, "UncleanNeverReused")]
    _, verdicts = validate_traces([mut(f) for f, _ in cases])
    got = [v[2] for v in verdicts]
    want = [w for _, w in cases]
    if got != want:
        raise tlc.MachineryError(f"monitor self-test: verdicts {got}, expected {want}")
    return len(cases)


# ------------------------------------------------------------------------------ plans

CONFIGS = [dict(maxsize=m, retries=rt, seg=sg) for m in (1, 2) for rt in (0, 1) for sg in ("slurp", "exact")]


def release_closes_unread() -> bool:
    """Which Model describes this tree?  One tiny calibration history: read one unit, release_conn(), let go
    of the response, next request.  As recorded in DESIGN 5 / known_findings.d the connection goes back to the
    pool as it is (Model as-is); a tree in which release_conn() discards a connection whose body is unread
    dials again (the Model as it is; the older behaviour is the named deviation ReleaseKeepsUnread).  Only selects the Model used for the
    expected observations (drift); the Rules verdicts do not depend on it."""
    sc = {"fr": "cl", "sub": "204", "len": 2, "cut": c03drv.NOCUT, "ka": True, "extra": "none", "after": "none", "late": 0,
          "shape": "cells"}
    t = c03drv.run_history({"maxsize": 1, "retries": 1, "seg": "slurp",
                            "steps": [{"sc": sc, "op": {"kind": "readk", "k": 1, "hold": False}},
                                      {"sc": sc, "op": {"kind": "read", "k": 0, "hold": False}}]})
    return t["dials"] == 2


def plan(tier, seed, dev="NoDev"):
    """(emission jobs, expected history counts)"""
    jobs = []

    def add(cls, k, expect, **kw):
        for s in range(k):
            meta = dict(cls=cls, maxsize=kw.get("maxsize", 1), retries=kw.get("retries", 1), seg=kw.get("seg", "slurp"),
                        salt=seed + 7 * len(jobs), group=f"{cls}:{json.dumps(kw, sort_keys=True)}", expect=expect)
            inv = INVS_S4 if dev != "NoDev" and (cls == "s4" or kw.get("sn") == "HardS4Scripts") else INVS
            jobs.append((cfg(k=k, s=s, inv=inv, dev=dev, **kw), meta))

    nh, no, nc, nco, ns4, nf, npre = 21, 15, 8, 7, 6, 2, 12
    if tier == "quick":
        for c in CONFIGS:                                           # every 2-request history, all configurations
            add("hard", 1, nh * no * nf, nreq=2, full=1, **c)
        for c in (dict(maxsize=2, retries=1, seg="slurp"),):
            add("hard", 2, nc * nco * nc * nco * nf, nreq=3, full=2, s1="CoreScripts", o1="CoreOps", sn="CoreScripts",
                on="CoreOps", **c)                                  # covering 3-request histories
        for c in (CONFIGS[1], CONFIGS[2], CONFIGS[4], CONFIGS[7]):
            add("s4", 1, ns4 * no * nf * nf, nreq=3, full=1, s1="S4Scripts", **c)
        for c in (CONFIGS[0], CONFIGS[7]):                          # unsolicited bytes behind a prefix (CRLF, SP, ...)
            add("pre", 1, npre * no * nf, nreq=2, full=1, s1="PreScripts", **c)
    else:
        cover = [CONFIGS[0], CONFIGS[3], CONFIGS[5], CONFIGS[6]]      # pairwise cover of maxsize x retries x seg
        for c in CONFIGS:
            if c in cover:                                          # every 3-request history (2 full steps + final)
                add("hard", 8, nh * no * nh * no * nf, nreq=3, full=2, **c)
            else:
                add("hard", 1, nh * no * nf, nreq=2, full=1, **c)
                add("hard", 2, nc * nco * nc * nco * nf, nreq=3, full=2, s1="CoreScripts", o1="CoreOps", sn="CoreScripts",
                    on="CoreOps", **c)
            add("s4", 1, ns4 * no * nf * nf, nreq=3, full=1, s1="S4Scripts", **c)
            add("s4", 2, ns4 * no * nc * nco * nf, nreq=3, full=2, s1="S4Scripts", sn="CoreScripts", on="CoreOps", **c)
            add("pre", 1, npre * no * nf, nreq=2, full=1, s1="PreScripts", **c)
            add("pre", 2, npre * no * nc * nco * nf, nreq=3, full=2, s1="PreScripts", sn="CoreScripts", on="CoreOps", **c)
    return jobs


def simulation_jobs(tier, seed, dev="NoDev"):
    """Random behaviours of 4 requests over the full sets (incl. in-flight tails at any position)."""
    n, per = (1, 250) if tier == "quick" else (16, 2500)
    jobs = []
    for j in range(n):
        c = CONFIGS[(seed + j) % len(CONFIGS)]
        meta = dict(cls="sim", salt=seed + j, group="sim", expect=None, simulate=f"num={per}", seed=seed * 1000 + j + 1, **c)
        jobs.append((cfg(nreq=4, full=4, s1="HardS4Scripts", sn="HardS4Scripts",
                         inv=INVS_S4 if dev != "NoDev" else INVS, dev=dev, **c), meta))
    return jobs


def stage1_jobs(tier):
    small = dict(nreq=2, full=1, emit="FALSE")
    s4 = dict(nreq=3, full=1, s1="S4Scripts", emit="FALSE")
    jobs = [
        ("coverage", cfg(nreq=2, full=1, s1="HardS4Scripts", o1="AllOps", emit="FALSE", maxsize=2), 1, True),
        ("dev:NoProbe", cfg(dev="DevNoProbe", **small), 1, False),
        ("dev:ProbeEofOnly", cfg(dev="DevProbeEofOnly", **small), 1, False),
        ("dev:ProbeSkipsLeadingCrlf", cfg(dev="DevProbeSkipsCrlf", s1="PreScripts", **small), 1, False),
        ("dev:RawNotReady", cfg(dev="DevRawNotReady", nreq=2, full=1, emit="FALSE"), 1, False),
        ("dev:NoCloseOnUnclean", cfg(dev="DevNoCloseOnUnclean", **s4), 1, False),
        ("dev:NoDiscardOnError", cfg(dev="DevNoDiscardOnError", **s4), 1, False),
        ("dev:ReleaseKeepsUnread", cfg(dev="DevReleaseKeeps", **s4), 1, False),
        ("dev:AbandonedStreamLooksClean", cfg(dev="DevAbandoned", **s4), 1, False),
        ("dev:Read1AskedIsRead", cfg(dev="DevRead1Asked", **s4), 1, False),
    ]
    return jobs


EXPECT_S1 = {"dev:NoProbe": {"OnlyOwnBytes", "UncleanNeverReused"},
             "dev:ProbeEofOnly": {"OnlyOwnBytes", "UncleanNeverReused"},
             "dev:ProbeSkipsLeadingCrlf": {"OnlyOwnBytes", "UncleanNeverReused"}, "dev:RawNotReady": {"OnlyUrllib3Errors"},
             "dev:NoCloseOnUnclean": {"OnlyOwnBytes", "UncleanNeverReused"},
             "dev:NoDiscardOnError": {"OnlyOwnBytes", "UncleanNeverReused"},
             "dev:ReleaseKeepsUnread": {"OnlyOwnBytes", "UncleanNeverReused"},
             "dev:AbandonedStreamLooksClean": {"OnlyOwnBytes", "UncleanNeverReused"},
             "dev:Read1AskedIsRead": {"OnlyOwnBytes", "UncleanNeverReused"}}


# ------------------------------------------------------------------------------ run

def run(rep):
    findings = known.load("C03")
    rep.rule = ("a history is non-trivial when a checkout probe reports a dropped connection, a request is retried or "
                "fails, the peer acts on the idle connection, a read fails, or the response is left partially read / "
                "released unread / closed / ignored; distinct_nontrivial counts distinct such histories")
    rep.assumptions = ["one sequential caller; plain HTTP over the in-memory network (inline scripted peer)",
                       "segmentation is one of: every raw read takes all pending bytes / exactly one unit",
                       "http.client's parsing of status lines and chunk sizes is trusted",
                       "stray bytes arriving after the next checkout are outside the statement and never generated"]
    dev = "NoDev" if release_closes_unread() else "DevReleaseKeeps"
    rep.extra["model_variant"] = ("as-is: release_conn discards unread connections" if dev == "NoDev"
                                  else "historical: release_conn pools unread connections (S4 open)")
    jobs = plan(rep.tier, rep.seed, dev) + simulation_jobs(rep.tier, rep.seed, dev)
    s1 = stage1_jobs(rep.tier)
    jobs_n = int(os.environ.get("VERIF_JOBS") or os.cpu_count() or 4)
    with mp.Pool(max(1, min(jobs_n, len(jobs) + len(s1) + 1))) as pool:
        a1 = pool.map_async(_stage1, s1, chunksize=1)
        a2 = pool.map_async(_monitor_selftest, [0])
        outs = pool.map(_shard, jobs, chunksize=1)
        s1outs = a1.get()
        rep.extra["monitor_selftest_cases"] = a2.get()[0]

    # ---- stage 1 bookkeeping: dedicated runs
    for o in s1outs:
        rep.stage1.append({"run": o["name"], "distinct_states": o["distinct"], "states_generated": o["generated"],
                           "depth": o["depth"], "wall_s": round(o["wall"], 1), "violated": o["violated"]})
        want = EXPECT_S1.get(o["name"])
        if want is None and o["violated"]:
            raise tlc.MachineryError(f"stage 1: the Model violates {o['violated']} in run {o['name']} (spec inconsistent)")
        if want is not None and not (want & set(o["violated"])):
            raise tlc.MachineryError(f"vacuity: deviation run {o['name']} did not violate {want} (got {o['violated']})")
        if o["coverage"] is not None:
            zero = [a for a, c in o["coverage"].items() if not c or c[1] == 0]
            if zero:
                raise tlc.MachineryError(f"vacuity: actions never taken in the coverage run: {zero}")
            rep.extra["action_coverage"] = {a: c[1] for a, c in o["coverage"].items()}
            rep.states += o["distinct"]
            rep.transitions += o["generated"]
    rep.extra["deviation_runs"] = {o["name"]: o["violated"] for o in s1outs if o["name"] != "coverage"}

    # ---- emission shards: stage 1 (their share of the state space) + replay + verdicts
    groups = {}
    for o in outs:
        m = o["meta"]
        g = groups.setdefault(m["group"], {"n": 0, "expect": m["expect"], "distinct": 0, "generated": 0, "wall": 0.0,
                                           "depth": 0, "cls": m["cls"]})
        g["n"] += o["n"]
        g["distinct"] += o["distinct"]
        g["generated"] += o["generated"]
        g["wall"] = max(g["wall"], o["wall"])
        g["depth"] = max(g["depth"], o["depth"])
        if o["violated"]:
            raise tlc.MachineryError(f"stage 1: the Model violates {o['violated']} in {m['group']} (spec inconsistent)")
        rep.traces += o["n"]
        rep.evaluations += o["n"]
        rep.nontrivial.update(o["nontriv"])
        rep.extra["trace_events"] = rep.extra.get("trace_events", 0) + o["events"]
        rep.extra["drift_histories"] = rep.extra.get("drift_histories", 0) + o.get("ndrift", 0)
        for d in o["drift"]:
            rep.drift.append(d)
        for s in o["samples"][:1]:
            rep.sample(s, cap=3)
        for b in o["bad"]:
            f = known.match(findings, b["facts"])
            what = (f"request {b['event']['rid']}: clause {b['clause']} at event {b['pos']} "
                    f"(previous exchange on that connection: {b['facts']})")
            if f:
                rep.known.append((f["id"], f["what"]))
                rep.extra["known_finding_histories"] = rep.extra.get("known_finding_histories", 0) + 1
                if "known_sample" not in rep.extra:
                    rep.extra["known_sample"] = {"history": b["hist"], "event": b["event"]}
            else:
                rep.violation(b["clause"], what, {"kind": "history", "hist": b["hist"]})
    for name, g in groups.items():
        rep.states += g["distinct"]
        rep.transitions += g["generated"]
        rep.stage1.append({"run": name, "distinct_states": g["distinct"], "states_generated": g["generated"],
                           "depth": g["depth"], "wall_s": round(g["wall"], 1), "histories_emitted_and_replayed": g["n"]})
        if g["expect"] is not None and g["n"] != g["expect"] and not rep.violations:
            raise tlc.MachineryError(f"emission incomplete for {name}: {g['n']} histories replayed, {g['expect']} expected")
        if g["n"] == 0:
            raise tlc.MachineryError(f"no history emitted for {name}")
    rep.extra["histories_by_class"] = {c: sum(g["n"] for g in groups.values() if g["cls"] == c) for c in ("hard", "s4", "pre", "sim")}
    rep.exhaustive = True


def replay(rep, path):
    with open(path) as fh:
        doc = json.load(fh)
    case = doc["case"]
    rep.rule = "replay of one recorded case"
    rep.nontrivial.update({1, 2})
    rep.states = rep.transitions = 1
    if case.get("kind") != "history":
        raise tlc.MachineryError("only recorded histories can be replayed: " + str(case.get("kind")))
    findings = known.load("C03")
    t = c03drv.run_history(case["hist"])
    rep.evaluations += 1
    _, verdicts = validate_traces([{"seg": case["hist"]["seg"], "ev": t["ev"]}])
    rep.traces += 1
    for tid, pos, clause in verdicts:
        if clause != "ok":
            facts = facts_of(t, pos, clause)
            f = known.match(findings, facts)
            if f:
                rep.known.append((f["id"], f["what"]))
            else:
                rep.violation(clause, f"request {t['ev'][pos - 1]['rid']}: clause {clause} at event {pos} ({facts})",
                              {"kind": "history", "hist": case["hist"]})
