"""HTTP/2 probe cache (urllib3/http2/probe.py) — growth of the specification beyond the listed
clauses; serves C02 ("every request eventually completes ... no deadlock, no lost wake-up") for
HTTPS pools with HTTP/2 enabled, where every new connection goes through this cache.

stage 1  TLC checks spec/H2Probe.tla exhaustively for 3 threads x 2 origins x every plan
         (connect yields h2 / http1.1 / fails) — safety invariants and liveness under weak fairness —
         with ReleaseOnKnown set to what the code under test does (detected by a one-thread probe of
         the real object), and, as a canary, TLC must REFUTE the design with ReleaseOnKnown = FALSE
stage 2  TLC emits every complete schedule of the model for selected scenarios (no VIEW: one state
         per path); each is replayed step by step on a REAL _HTTP2ProbeCache driven by REAL threads
         under a cooperative scheduler whose step is exactly the model's step (one lock operation)
stage 3  bounded-preemption DFS + seeded random schedules over the real code for every scenario
stage 4  every recorded trace (full projected state after every step) is validated by TLC against
         spec/H2Probe_Trace.tla: Rules clauses (hard) and Model refinement (drift)
"""
from __future__ import annotations

import itertools
import json
import random
import threading
import types

from . import tlc

THREADS = ["t1", "t2", "t3"]
KEYS = ["k1", "k2"]
HOSTPORT = {"k1": ("origin-a.test", 443), "k2": ("origin-b.test", 443)}
NOBODY = "nobody"


class _Abort(BaseException):
    pass


class Sched:
    """Cooperative scheduler: real threads, exactly one runs at a time; a thread parks before every
    lock operation and is resumed only when that operation can complete."""

    def __init__(self):
        self.ctrl = threading.Semaphore(0)
        self.sem = {}
        self.pending = {}      # thread -> (op, lock) it is parked before
        self.state = {}        # thread -> "parked" | "done" | "valueerror" | "error:<...>"
        self.names = {}        # ident -> name
        self.abort = False

    def me(self):
        return self.names[threading.get_ident()]

    def park(self, op, lock):
        t = self.me()
        self.pending[t] = (op, lock)
        self.state[t] = "parked"
        self.ctrl.release()
        self.sem[t].acquire()
        if self.abort:
            raise _Abort()

    def enabled(self, t):
        op, lock = self.pending[t]
        if op == "acq":
            return lock.owner is None or (lock.reentrant and lock.owner == t)
        return True


class CoopLock:
    reentrant = False

    def __init__(self, sched, label):
        self.s, self.label, self.owner, self.count = sched, label, None, 0

    def acquire(self, blocking=True, timeout=-1):
        self.s.park("acq", self)
        t = self.s.me()
        assert self.owner is None or (self.reentrant and self.owner == t)
        self.owner = t
        self.count += 1
        return True

    def release(self):
        self.s.park("rel", self)
        t = self.s.me()
        if self.owner != t:
            raise RuntimeError("cannot release un-acquired lock")
        self.count -= 1
        if self.count == 0:
            self.owner = None

    def __enter__(self):
        self.acquire()
        return self

    def __exit__(self, *a):
        self.release()


class CoopRLock(CoopLock):
    reentrant = True


def _val(v, present):
    if not present:
        return "absent"
    return "unknown" if v is None else ("yes" if v else "no")


def run_schedule(scn, chooser, max_steps=200):
    """Run one schedule of the REAL probe cache.  scn = {"keyof": {t: k}, "plan": {t: yes|no|fail}}.
    chooser(enabled, nstep, last) -> thread.  Returns the trace dict for H2Probe_Trace."""
    import urllib3.http2.probe as probe
    s = Sched()
    made = []

    def mk_lock():
        lk = CoopLock(s, "g")
        made.append(lk)
        return lk

    def mk_rlock():
        lk = CoopRLock(s, "k")
        made.append(lk)
        return lk

    shim = types.SimpleNamespace(Lock=mk_lock, RLock=mk_rlock)
    orig = probe.threading
    probe.threading = shim
    try:
        cache = probe._HTTP2ProbeCache()
        glock = cache._lock
        got = {t: "none" for t in THREADS}
        loc = {t: "none" for t in THREADS}   # the thread's local `value`: what it read in its last GAcq / KAcq step
        phase = {t: "acq" for t in THREADS}
        nrel = {t: 0 for t in THREADS}      # key-lock releases seen in the current phase

        def body(t):
            s.names[threading.get_ident()] = t
            s.sem[t].acquire()               # wait to be started
            try:
                if s.abort:
                    raise _Abort()
                host, port = HOSTPORT[scn["keyof"][t]]
                v = cache.acquire_and_get(host, port)
                got[t] = _val(v, True)
                if v is None:
                    phase[t] = "set"
                    nrel[t] = 0
                    plan = scn["plan"][t]
                    # exactly what HTTPSConnection.connect does with the answer None
                    cache.set_and_release(host, port, None if plan == "fail" else plan == "yes")
                s.state[t] = "done"
            except _Abort:
                s.state[t] = s.state.get(t, "aborted")
            except ValueError:
                s.state[t] = "valueerror"
            except BaseException as ex:      # anything else is recorded, never swallowed
                s.state[t] = "error:" + type(ex).__name__
            finally:
                s.ctrl.release()

        ths = {}
        for t in THREADS:
            s.sem[t] = threading.Semaphore(0)
            ths[t] = threading.Thread(target=body, args=(t,), daemon=True)
            ths[t].start()
        # run every thread up to its first lock operation
        for t in THREADS:
            s.sem[t].release()
            s.ctrl.acquire()

        def pc_of(t):
            st = s.state[t]
            if st != "parked":
                return st if st in ("done", "valueerror") else "other"
            op, lock = s.pending[t]
            if lock is glock:
                return "GAcq" if op == "acq" else "GRel"
            if phase[t] == "acq":
                return "KAcq" if op == "acq" else "KRel"
            if op == "acq":
                return "SEnter"
            return "SExit" if nrel[t] == 0 else "SRel"

        def project():
            kown, kcnt, val = {}, {}, {}
            for k in KEYS:
                lk = cache._cache_locks.get(HOSTPORT[k])
                kown[k] = (lk.owner or NOBODY) if lk is not None else NOBODY
                kcnt[k] = lk.count if lk is not None else 0
                val[k] = _val(cache._cache_values.get(HOSTPORT[k]), HOSTPORT[k] in cache._cache_values)
            return {"keyof": dict(scn["keyof"]), "plan": dict(scn["plan"]), "glock": glock.owner or NOBODY,
                    "kown": kown, "kcnt": kcnt, "val": val, "pc": {t: pc_of(t) for t in THREADS}, "got": dict(got), "loc": dict(loc)}

        states, steps = [project()], []
        last, stuck = None, False
        while len(steps) < max_steps:
            parked = [t for t in THREADS if s.state[t] == "parked"]
            if not parked:
                break
            en = [t for t in parked if s.enabled(t)]
            if not en:
                stuck = True
                break
            t = chooser(en, len(steps), last)
            if t not in en:
                steps.append("!" + str(t))   # the schedule asked for a thread the code cannot run
                break
            op, lock = s.pending[t]
            if lock is not glock and op == "rel":
                nrel[t] += 1
            reads = op == "acq" and (lock is glock or phase[t] == "acq")
            s.sem[t].release()
            s.ctrl.acquire()
            steps.append(t)
            st = project()
            if reads:
                # the step just taken read the cache entry into the thread's local; nobody else has run since, so
                # the value it read is the value visible now
                loc[t] = st["val"][scn["keyof"][t]]
                st["loc"] = dict(loc)
            states.append(st)
            last = t
        # unwind whatever is still parked
        s.abort = True
        for t in THREADS:
            if ths[t].is_alive():
                s.sem[t].release()
        for t in THREADS:
            ths[t].join(5)
        return {"states": states, "steps": [x for x in steps if not x.startswith("!")], "stuck": stuck,
                "unrealised": [x for x in steps if x.startswith("!")],
                "errors": {t: s.state[t] for t in THREADS if str(s.state[t]).startswith("error")}}
    finally:
        probe.threading = orig


# ------------------------------------------------------------------------------- exploration

def dfs_schedules(scn, bound, cap):
    """Stateless bounded-preemption DFS: yields traces.  A preemption = switching away from the last
    thread while it is still enabled."""
    stack = [[]]
    seen = 0
    while stack and seen < cap:
        prefix = stack.pop()
        record = []

        def chooser(en, n, last, prefix=prefix, record=record):
            en = sorted(en)
            if n < len(prefix):
                c = prefix[n]
            else:
                c = last if last in en else en[0]
            record.append((tuple(en), c, last))
            return c

        tr = run_schedule(scn, chooser)
        seen += 1
        yield tr
        # branch on alternatives at positions >= len(prefix)
        pre = 0
        for i, (en, c, last) in enumerate(record):
            if i >= len(prefix):
                for alt in en:
                    if alt == c:
                        continue
                    cost = pre + (1 if (last in en and alt != last) else 0)
                    if cost <= bound:
                        stack.append([r[1] for r in record[:i]] + [alt])
            if last in en and c != last:
                pre += 1


def random_schedule(scn, rng):
    return run_schedule(scn, lambda en, n, last: rng.choice(sorted(en)))


def detect_release_on_known():
    """What does the code under test do when a WAITER reads a known value: one real thread-pair run."""
    scn = {"keyof": {t: "k1" for t in THREADS}, "plan": {"t1": "yes", "t2": "yes", "t3": "yes"}}
    # t1 probes completely except its final release, t2 waits, then t1 finishes, then t2 runs alone
    order = ["t1", "t1", "t1", "t2", "t2", "t1", "t1", "t1"]

    def chooser(en, n, last):
        if n < len(order) and order[n] in en:
            return order[n]
        return "t2" if "t2" in en else sorted(en)[0]

    tr = run_schedule(scn, chooser)
    fin = tr["states"][-1]
    return fin["kown"]["k1"] != "t2"


SCENARIOS_QUICK = [
    ({"t1": "k1", "t2": "k1", "t3": "k1"}, {"t1": "yes", "t2": "yes", "t3": "yes"}),
    ({"t1": "k1", "t2": "k1", "t3": "k1"}, {"t1": "fail", "t2": "yes", "t3": "no"}),
    ({"t1": "k1", "t2": "k1", "t3": "k1"}, {"t1": "fail", "t2": "fail", "t3": "fail"}),
    ({"t1": "k1", "t2": "k1", "t3": "k2"}, {"t1": "no", "t2": "fail", "t3": "yes"}),
]


def all_scenarios():
    out = []
    for ko in itertools.product(KEYS, repeat=3):
        if ko[0] != "k1":
            continue
        for pl in itertools.product(["yes", "no", "fail"], repeat=3):
            out.append((dict(zip(THREADS, ko)), dict(zip(THREADS, pl))))
    return out


def _cfg(release, extra):
    return ("SPECIFICATION HSpec\nCONSTANTS Threads <- MCThreads3\n Keys <- MCKeys2\n ReleaseOnKnown = %s\n%s\n"
            % ("TRUE" if release else "FALSE", extra))


INVS = ["TypeOK", "AtMostOneProber", "ProberHoldsKeyLock", "ReturnedIsCached", "NoValueError", "NoLockLeak",
        "DoneHoldsNothing", "NeverStuck"]


def validate(traces, release):
    if not traces:
        return {}
    cfg = ("SPECIFICATION TSpec\nCONSTANTS Threads <- MCThreads3\n Keys <- MCKeys2\n ReleaseOnKnown = %s\n"
           % ("TRUE" if release else "FALSE"))
    cfg = cfg.replace("MCThreads3", "TrThreads").replace("MCKeys2", "TrKeys")
    r = tlc.run("H2Probe_Trace", cfg, workers=1, deadlock=False, files={"traces.json": json.dumps(traces)},
                env={"TRACE_FILE": "traces.json"}, heap="2g", timeout=1800)
    out = {}
    for tup in tlc.tagged_tuples(r.out, "VERDICT"):
        if len(tup) == 4:
            out[tup[0]] = tup[1:]
    if len(out) != len(traces):
        raise tlc.MachineryError(f"H2Probe_Trace returned {len(out)} verdicts for {len(traces)} traces:\n{r.out[-1500:]}")
    return out


def run(rep):
    release = detect_release_on_known()
    rep.extra["code_releases_key_lock_on_known_value"] = release
    # ---- stage 1 (the two exhaustive runs side by side)
    inv = "\n".join("INVARIANT " + i for i in INVS) + "\nPROPERTY KnownIsStable\nPROPERTY EveryoneFinishes\nVIEW View"
    from concurrent.futures import ThreadPoolExecutor
    w = max(2, min(4, tlc.NCPU // 2))
    with ThreadPoolExecutor(2) as ex:
        f1 = ex.submit(tlc.run, "MC_H2Probe", _cfg(release, inv), workers=w, heap="3g", expect_fail=True, timeout=1800)
        f2 = ex.submit(tlc.run, "MC_H2Probe", _cfg(False, inv), workers=w, heap="3g", expect_fail=True, timeout=1800)
        r1, can = f1.result(), f2.result()
    rep.add_tlc("H2Probe exhaustive (3 threads, 2 origins, all plans), model of the code as it is", r1)
    design_violated = sorted(set(r1.violated))
    rep.extra["stage1_model_of_code_violates"] = design_violated
    if not can.violated:
        raise tlc.MachineryError("canary: TLC did not refute the design that keeps the key lock on a known value")
    rep.extra["canary"] = "design with ReleaseOnKnown=FALSE refuted by TLC: " + ", ".join(sorted(set(can.violated)))
    if release:
        if r1.violated:
            raise tlc.MachineryError(f"the repaired design violates {r1.violated} — the specification is wrong")
    # ---- stage 2: TLC-emitted complete schedules replayed on the real code
    traces, meta = [], {}
    scen = SCENARIOS_QUICK if rep.tier == "quick" else SCENARIOS_QUICK + [all_scenarios()[i] for i in (5, 17, 23, 40, 52)]
    emitted = 0
    for si, (ko, pl) in enumerate(scen[:2] if rep.tier == "quick" else scen[:4]):
        pin = ("KeyOf = [t \\in Threads |-> " + " ".join(f'IF t = "{t}" THEN "{ko[t]}" ELSE' for t in THREADS[:-1]) + f' "{ko[THREADS[-1]]}"]'
               " /\\ Plan = [t \\in Threads |-> " + " ".join(f'IF t = "{t}" THEN "{pl[t]}" ELSE' for t in THREADS[:-1]) + f' "{pl[THREADS[-1]]}"]')
        extra = "INVARIANT EmitSchedules\nCONSTRAINT PinScenario\n"
        mod = ("---- MODULE MC_H2ProbePin ----\nEXTENDS MC_H2Probe\nPinScenario == " + pin + "\n====\n")
        r2 = tlc.run("MC_H2ProbePin", _cfg(release, extra), workers=4, heap="3g", files={"MC_H2ProbePin.tla": mod},
                     expect_fail=True, timeout=1800)
        scheds = tlc.tagged_json(r2.out, "SCHED")
        if not scheds:
            raise tlc.MachineryError("TLC emitted no schedule:\n" + r2.out[-1500:])
        cap = 150 if rep.tier == "quick" else 5000
        rng = random.Random(rep.seed * 7919 + si)
        if len(scheds) > cap:
            scheds = rng.sample(scheds, cap)
        for sc in scheds:
            emitted += 1
            steps = sc["steps"]
            tr = run_schedule({"keyof": ko, "plan": pl}, lambda en, n, last, steps=steps: steps[n] if n < len(steps) else None)
            rep.evaluations += 1
            tid = f"replay-{si}-{emitted}"
            fin = tr["states"][-1]
            exp_same = (not tr["unrealised"] and tr["stuck"] == sc["stuck"] and fin["got"] == sc["got"]
                        and fin["val"] == sc["val"] and fin["kown"] == sc["kown"] and fin["pc"] == sc["pcs"])
            if not exp_same:
                rep.drift.append(f"{tid}: real run of TLC schedule {steps} ended differently from the model "
                                 f"(unrealised={tr['unrealised']}, stuck={tr['stuck']}/{sc['stuck']})")
            traces.append({"id": tid, "states": tr["states"], "steps": tr["steps"], "stuck": tr["stuck"]})
            meta[tid] = {"scenario": {"keyof": ko, "plan": pl}, "steps": tr["steps"], "kind": "tlc-schedule"}
    rep.extra["tlc_schedules_replayed"] = emitted
    # ---- stage 3: schedules found on the code itself
    bound = 2 if rep.tier == "quick" else 3
    cap = 120 if rep.tier == "quick" else 4000
    nrand = 40 if rep.tier == "quick" else 2000
    for si, (ko, pl) in enumerate(scen if rep.tier == "quick" else all_scenarios()):
        scn = {"keyof": ko, "plan": pl}
        rng = random.Random(rep.seed * 104729 + si)
        n = 0
        for tr in dfs_schedules(scn, bound, cap if rep.tier == "quick" else cap // 8):
            n += 1
            rep.evaluations += 1
            tid = f"dfs-{si}-{n}"
            traces.append({"id": tid, "states": tr["states"], "steps": tr["steps"], "stuck": tr["stuck"]})
            meta[tid] = {"scenario": scn, "steps": tr["steps"], "kind": "dfs", "errors": tr["errors"]}
        for j in range(nrand if rep.tier == "quick" else nrand // 20):
            tr = random_schedule(scn, rng)
            rep.evaluations += 1
            tid = f"rnd-{si}-{j}"
            traces.append({"id": tid, "states": tr["states"], "steps": tr["steps"], "stuck": tr["stuck"]})
            meta[tid] = {"scenario": scn, "steps": tr["steps"], "kind": "random", "errors": tr["errors"]}
    # ---- stage 4
    verdicts = {}
    B = 1500
    for i in range(0, len(traces), B):
        verdicts.update(validate(traces[i:i + B], release))
    rep.traces += len(traces)
    seen_viol = set()
    for tid, (pos, clause, driftpos) in verdicts.items():
        m = meta[tid]
        key = (tuple(sorted(m["scenario"]["keyof"].items())), tuple(sorted(m["scenario"]["plan"].items())), tuple(m["steps"]))
        if len(set(m["steps"])) > 1:
            rep.nontrivial.add(key)
        if m.get("errors"):
            rep.violation("OnlyExpectedErrors", f"unexpected exception in a worker thread: {m['errors']}", m)
        if clause != "ok":
            sig = (clause, tuple(sorted(m["scenario"]["plan"].items())))
            if sig not in seen_viol or len(seen_viol) < 3:
                rep.violation(clause, f"H2 probe cache: schedule {m['steps']} of scenario {m['scenario']} violates {clause} at step {pos}", m)
            seen_viol.add(sig)
        elif driftpos:
            rep.drift.append(f"{tid}: step {driftpos} of schedule {m['steps']} is not a step of the model")
    for tid in list(meta)[:2]:
        rep.sample({"id": tid, **meta[tid], "verdict": verdicts[tid]})
    rep.rule = ("schedules of 3 real threads over a real _HTTP2ProbeCache (cooperative scheduler, step = one lock operation): every "
                "complete schedule TLC emits for the pinned scenarios, bounded-preemption DFS and seeded random schedules for "
                "every scenario; a schedule is non-trivial when at least two threads take steps; distinct by (scenario, schedule)")
    rep.assumptions += ["the driver calls acquire_and_get/set_and_release exactly as HTTPSConnection.connect does (None -> probe -> report, "
                        "failure reports None)", "lock operations are the only preemption points (the cache touches shared state only under its locks "
                        "or while holding the key lock)"]
    return rep


def run_stage(rep):
    """Extra stage of C02: the HTTP/2 probe cache every new HTTPS connection goes through when HTTP/2 is enabled."""
    rep.extra_module = "vh.h2probe"
    try:
        keep_rule, keep_samples = rep.rule, list(rep.samples)
        run(rep)
        rep.extra["h2probe_rule"] = rep.rule
        rep.rule, rep.samples = keep_rule, keep_samples or rep.samples
    finally:
        rep.extra_module = None
    return rep


def replay(rep, path):
    case = json.load(open(path))["case"]
    steps = case["steps"]
    tr = run_schedule(case["scenario"], lambda en, n, last: steps[n] if n < len(steps) else (sorted(en)[0]))
    release = detect_release_on_known()
    v = validate([{"id": "replay", "states": tr["states"], "steps": tr["steps"], "stuck": tr["stuck"]}], release)["replay"]
    rep.evaluations += 1
    rep.traces += 1
    rep.nontrivial.update({1, 2})
    if v[1] != "ok":
        rep.violation(v[1], f"replayed schedule {steps} still violates {v[1]} at step {v[0]}", case)
