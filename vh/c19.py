"""C19 — socket waits never exceed the configured timeouts.

stage 1  TLC checks spec/Timeout.tla exhaustively over the property's grid (spec/MC_Timeout.tla): the
         implementation-shaped MODEL (Timeout object, clone, start_connect, conn.timeout, socket timeout,
         environment = connect duration / connect outcome / server behaviour) satisfies the RULES (the
         statement's min / remaining / zero-budget / override / rejection / independence clauses).
stage 2  the same TLC run emits every completed behaviour of the model: configuration, environment
         choices and the expected observation record of each request.
stage 3  every behaviour is replayed on the REAL HTTPConnectionPool / HTTPSConnectionPool over vh/net.py
         with urllib3.util.timeout's clock replaced by the virtual one; what reached the socket layer is
         recorded (dial timeout, settimeout values by stage, value in force when the response wait
         began, clock, waits, outcome) and compared with the expectation.
stage 4  every recorded run — and seeded random runs beyond the grid (other values, 3 requests, other
         gaps) — is validated by TLC against spec/Timeout_Trace.tla, whose verdict is the operator
         TraceVerdict of Timeout.tla (the one stage 1 proves "ok" on every model behaviour).  The hard
         verdict on real code is TLC's; an expectation mismatch that TLC accepts is MODEL-DRIFT.
"""
from __future__ import annotations

import collections
import json
import multiprocessing as mp
import os
import random
import socket
import types

from . import known, tlc
from .net import HarnessStall, Net, Reply, http_response

# value codes of Timeout.tla (anything > -900000 is a number of milliseconds)
UNSET, NONE, BOOLV, STRV, SENTINEL, FRACTION = -900001, -900002, -900003, -900004, -900005, -900006
NODIAL, NOSEND, NOD, NOWAIT = -900010, -900011, -900013, -900014
INF = 2000000000
GAP = 750

INVARIANTS = ["TypeOK", "InvalidRejected", "ValidAccepted", "NeverNegativeOrZero", "NeverLooser", "ConnectIsMin",
              "ReadIsMinRemaining", "ZeroRaisesWithoutWaiting", "WaitsWithinTimeouts", "RequestOverridesPool",
              "OutcomeAsSpecified", "ClocksIndependent", "LiveValuesMatchRules", "AllClausesHold",
              "ModelRunAccepted"]
ACTIONS = ["ConstructPool", "Begin", "GetTimeout", "StartConnect", "SetConnTimeout", "Validate", "Request", "Send",
           "ComputeRead", "GetResponse", "Finish"]

MC_CFG = """SPECIFICATION Spec
CONSTANTS
  Configs <- MCConfigs
  Durations <- {dur}
  Gap = {gap}
  Dev <- {dev}
  Plans <- {plans}
  ShardK = 1
  ShardS = 0
{invs}
CHECK_DEADLOCK FALSE
{emit}
"""
TRACE_CFG = """SPECIFICATION TSpec
CONSTANTS
  Configs <- NoConfigs
  Durations <- NoConfigs
  Gap = 0
  Dev <- NoConfigs
CHECK_DEADLOCK FALSE
"""
# deviations of the MODEL that stage 1 must reject (the RULES are not vacuous): name -> invariants one of
# which must be reported
SENSITIVITY = {"DevA": "noclone", "DevB": "maxconnect", "DevC": "ignoreelapsed", "DevD": "nozerocheck",
               "DevE": "negativeread", "DevF": "mergepool", "DevG": "noreapply"}


def mc_cfg(plans, dur, dev="NoDev", invs=True, emit=True):
    return MC_CFG.format(plans=plans, dur=dur, gap=GAP, dev=dev,
                         invs="\n".join("INVARIANT " + i for i in INVARIANTS) if invs else "",
                         emit="ACTION_CONSTRAINT Emit" if emit else "")


# ---------------------------------------------------------------------------------- conversions

def py_val(code):
    """model field value -> what the caller writes"""
    if code == NONE:
        return None
    if code == BOOLV:
        return True
    if code == STRV:
        return "x"
    return code // 1000 if code % 1000 == 0 else code / 1000.0


def to_ms(v, sentinel=None):
    """a value seen at the socket layer (or a clock reading) -> model code"""
    if v is None:
        return NONE
    if sentinel is not None and v is sentinel:
        return SENTINEL
    if isinstance(v, bool):
        return BOOLV
    if isinstance(v, (int, float)):
        if v != v or v in (float("inf"), float("-inf")):
            return FRACTION
        ms = v * 1000.0
        r = round(ms)
        if abs(ms - r) > 1e-6 or r <= -900000 or r >= INF:
            return FRACTION
        return int(r)
    return STRV


# ---------------------------------------------------------------------------------- stage 3: the real code

class _Env:
    """urllib3 wired to the in-memory network and the virtual clock for one run."""

    def __init__(self, net, D):
        self.net, self.D = net, D

    def __enter__(self):
        import urllib3.connection as ucn
        import urllib3.util.timeout as ut
        self.ut, self.ucn = ut, ucn
        self.old_time, self.old_wrap = ut.time, ucn._ssl_wrap_socket_and_match_hostname
        self.old_default = socket.getdefaulttimeout()
        ut.time = types.SimpleNamespace(monotonic=self.net.monotonic)
        # TLS itself is outside the property: the https pool runs its real connect path
        # (_validate_conn -> HTTPSConnection.connect -> _new_conn) and the handshake is a no-op
        ucn._ssl_wrap_socket_and_match_hostname = \
            lambda sock, **kw: ucn._WrappedAndVerifiedSocket(socket=sock, is_verified=True)
        socket.setdefaulttimeout(self.D)
        self.net.__enter__()
        return self

    def __exit__(self, *a):
        self.net.__exit__(*a)
        socket.setdefaulttimeout(self.old_default)
        self.ut.time, self.ucn._ssl_wrap_socket_and_match_hostname = self.old_time, self.old_wrap
        return False


def execute(cfg, envs, gaps=None):
    """Run configuration `cfg` ([ps, D, sch, rs] in model codes) on the real pool classes with the
    environment choices `envs` (one {d, cmode, smode} per request).  Returns the run record in the shape
    of Timeout!Run: {cfg, ctor, reqs}."""
    import urllib3
    from urllib3.exceptions import ConnectTimeoutError, ReadTimeoutError, TimeoutStateError
    from urllib3.util.timeout import _DEFAULT_TIMEOUT, Timeout

    st = {"env": None, "tSend": None, "waitC": 0, "cmodes": [], "cost": 0.0, "ndial": 0}

    def responder(peer, req):
        st["tSend"] = net.now
        sm = st["env"]["smode"]
        if sm == "silent":
            return Reply(silent=True)
        return Reply(http_response(200, b"ok", keepalive=(sm != "close")), close=(sm == "close"))

    def script(cid, address):
        env = st["env"]
        timeout = net.dials[cid - 1][2]
        tms = to_ms(timeout, _DEFAULT_TIMEOUT)
        d = env["d"] if st["ndial"] == 0 and env["d"] != NOD else 0
        st["ndial"] += 1
        numeric = tms > -900000 and tms >= 0
        times_out = numeric and (env["cmode"] == "timeout" or (env["cmode"] == "auto" and d > tms))
        if times_out:
            st["cost"] = tms / 1000.0
            st["waitC"] += tms
            st["cmodes"].append("timeout")
            return {"connect": socket.timeout("timed out")}
        st["cost"] = d / 1000.0
        st["waitC"] += d
        st["cmodes"].append("ok")
        return {}

    net = Net(responder, scripts=script, connect_cost=lambda cid: st["cost"])
    D = None if cfg["D"] == NONE else cfg["D"] / 1000.0
    objs = {}

    def source(src):
        """what the caller passes for this source; equal Timeout sources are the caller's same object"""
        if src["kind"] == "num":
            return py_val(src["c"])
        key = (src["t"], src["c"], src["r"])
        if key not in objs:
            kw = {}
            for f, name in (("t", "total"), ("c", "connect"), ("r", "read")):
                if src[f] != UNSET:
                    kw[name] = py_val(src[f])
            objs[key] = Timeout(**kw)
        return objs[key]

    run = {"cfg": cfg, "ctor": "", "reqs": []}
    inforce = {}
    with _Env(net, D):
        cls = urllib3.HTTPSConnectionPool if cfg["sch"] == "https" else urllib3.HTTPConnectionPool
        try:
            kw = {} if cfg["ps"]["kind"] == "omit" else {"timeout": source(cfg["ps"])}
            pool = cls("h.test", 443 if cfg["sch"] == "https" else 80, retries=False, **kw)
            run["ctor"] = "ok"
        except ValueError:
            run["ctor"] = "ValueError"
            return run
        except Exception as ex:
            run["ctor"] = type(ex).__name__
            return run
        try:
            for i, src in enumerate(cfg["rs"]):
                env = envs[i] if i < len(envs) else {"d": 0, "cmode": "auto", "smode": "keep"}
                env = {"d": env.get("d", 0), "cmode": env.get("cmode") if env.get("cmode") in ("ok", "timeout", "auto") else "auto",
                       "smode": env.get("smode") if env.get("smode") in ("keep", "close", "silent") else "keep"}
                st.update(env=env, tSend=None, waitC=0, cmodes=[], cost=0.0, ndial=0)
                mark, ndial0 = len(net.log), len(net.dials)
                t0 = to_ms(net.now)
                try:
                    kw = {} if src["kind"] == "omit" else {"timeout": source(src)}
                    r = pool.urlopen("GET", "/", **kw)
                    outcome = "OK" if r.status == 200 and r.data == b"ok" else f"status{r.status}"
                except ReadTimeoutError:
                    outcome = "ReadTimeoutError"
                except ConnectTimeoutError:
                    outcome = "ConnectTimeoutError"
                except TimeoutStateError:
                    outcome = "TimeoutStateError"
                except ValueError:
                    outcome = "ValueError"
                except HarnessStall:
                    outcome = "WaitsForever"      # silent server and no timeout on the socket
                except Exception as ex:
                    outcome = type(ex).__name__
                pre, rds, rwait, sent, wait_r = [], [], NOWAIT, False, 0
                for e in net.log[mark:]:
                    if e[0] == "SETTIMEOUT":
                        v = to_ms(e[2], _DEFAULT_TIMEOUT)
                        inforce[e[1]] = v
                        (rds if sent else pre).append(v)
                    elif e[0] == "REQ":
                        sent = True
                    elif e[0] in ("RECV", "TIMEOUT"):
                        if sent and rwait == NOWAIT:
                            rwait = inforce.get(e[1], NONE)
                        if e[0] == "TIMEOUT" and e[2] is not None:
                            wait_r += to_ms(e[2])
                dials = [to_ms(x[2], _DEFAULT_TIMEOUT) for x in net.dials[ndial0:]]
                run["reqs"].append({
                    "src": src, "t0": t0, "dial": dials[0] if dials else NODIAL, "pre": pre + dials[1:],
                    "tSend": to_ms(st["tSend"]) if sent else NOSEND, "sent": sent, "rds": rds, "rwait": rwait,
                    "waitC": st["waitC"], "waitR": wait_r, "tEnd": to_ms(net.now), "outcome": outcome,
                    "d": env["d"] if dials and env["d"] != NOD else (0 if dials else NOD),
                    "cmode": st["cmodes"][0] if st["cmodes"] else "none",
                    "smode": env["smode"] if rwait != NOWAIT else "none"})   # the server's choice shows only in the response wait
                net.clock_advance((gaps[i] if gaps else GAP) / 1000.0)
        finally:
            pool.close()
    return run


def envs_of(sc):
    return [{"d": x["d"], "cmode": x["cmode"], "smode": x["smode"]} for x in sc["reqs"]]


def differences(exp, got):
    """fields in which the recorded run differs from the model's expectation"""
    out = []
    if exp["ctor"] != got["ctor"]:
        out.append(f"ctor: expected {exp['ctor']} got {got['ctor']}")
    if len(exp["reqs"]) != len(got["reqs"]):
        out.append(f"requests: expected {len(exp['reqs'])} got {len(got['reqs'])}")
    for i, (a, b) in enumerate(zip(exp["reqs"], got["reqs"]), 1):
        for k in ("outcome", "dial", "pre", "rds", "rwait", "sent", "tSend", "t0", "tEnd", "waitC", "waitR", "cmode", "smode", "d"):
            if a[k] != b[k]:
                out.append(f"request {i} {k}: expected {a[k]} got {b[k]}")
    return out


def classes(sc):
    """coverage classes of one emitted behaviour (used to reject vacuous emission and as the
    non-triviality rule)"""
    out = set()
    if sc["ctor"] != "ok":
        out.add("pool-ctor-rejected")
    for i, x in enumerate(sc["reqs"]):
        out.add("outcome:" + x["outcome"])
        if x["src"]["kind"] != "omit":
            out.add("request-level")
        if x["cmode"] == "timeout":
            out.add("connect-timeout")
        if x["cmode"] == "ok" and x["dial"] > -900000 and x["d"] > x["dial"]:
            out.add("connect-overrun")
        if x["sent"] and x["rwait"] == NOWAIT:
            out.add("zero-budget")
        if x["sent"] and x["dial"] == NODIAL:
            out.add("reused-connection")
        if i > 0 and x["dial"] != NODIAL:
            out.add("fresh-second-connection")
        if x["rwait"] > -900000 and x["sent"] and x["tSend"] > x["t0"] and x["rwait"] not in (x["src"]["r"], sc["cfg"]["ps"]["r"], sc["cfg"]["D"]):
            out.add("read-reduced-by-elapsed")
        if x["smode"] == "silent":
            out.add("silent-server")
        if NONE in x["rds"]:
            out.add("read-unbounded")
    if sc["cfg"]["sch"] == "https":
        out.add("https")
    return out


def nontrivial(sc):
    c = classes(sc)
    return bool(c & {"connect-timeout", "connect-overrun", "zero-budget", "reused-connection", "read-reduced-by-elapsed",
                     "pool-ctor-rejected", "outcome:ValueError", "silent-server", "request-level"})


# ---------------------------------------------------------------------------------- stage 4: TLC on traces

FLAGS = ["invalid-source", "zero-budget", "read-reduced-by-elapsed", "connect-timeout", "reused-connection", "request-level"]
_JVM = None   # semaphore bounding the number of concurrent JVMs (set in pool workers)


def _init_worker(sem):
    global _JVM
    _JVM = sem


class _Slot:
    def __enter__(self):
        if _JVM is not None:
            _JVM.acquire()

    def __exit__(self, *a):
        if _JVM is not None:
            _JVM.release()
        return False


def validate_runs(runs):
    """Batch validation by TLC.  Returns {trace number: (position, clause, [coverage flags])}; the flags are
    TraceCovers of Timeout.tla (computed from the rules and the environment, not from the code's behaviour)."""
    with _Slot():
        r = tlc.run("Timeout_Trace", TRACE_CFG, workers=1, files={"traces.json": json.dumps(runs)},
                    env={"TRACE_FILE": "traces.json"}, timeout=3600, heap="2g")
    verdicts = tlc.tagged_tuples(r.out, "VERDICT")
    if len(verdicts) != len(runs) or sorted(v[0] for v in verdicts) != list(range(1, len(runs) + 1)) \
            or any(len(v) != 3 + len(FLAGS) for v in verdicts):
        raise tlc.MachineryError(f"trace validation produced {len(verdicts)} verdicts for {len(runs)} traces\n{r.out[-2000:]}")
    return {v[0]: (v[1], v[2], [f for f, b in zip(FLAGS, v[3:]) if b]) for v in verdicts}


def _facts(cfg, clause, pos):
    src = cfg["rs"][pos - 1] if 1 <= pos <= len(cfg["rs"]) else cfg["ps"]
    return {"clause": clause, "scheme": cfg["sch"], "placement": "pool" if pos == 0 or src["kind"] == "omit" else "request",
            "kind": src["kind"], "requests": len(cfg["rs"])}


_PRE = '<<"SC", "'


def _cfgkey(cfg):
    return json.dumps(cfg, sort_keys=True)


def _replay_chunk(lines):
    """Worker: parse emitted behaviours, replay each on the real code, validate the recorded runs."""
    scs, runs = [], []
    cls = collections.Counter()
    for ln in lines:
        body = ln[len(_PRE):-3].replace('\\\\', '\x00').replace('\\"', '"').replace('\x00', '\\')
        sc = json.loads(body)
        scs.append(sc)
        runs.append(execute(sc["cfg"], envs_of(sc)))
        for c in classes(sc):
            cls[c] += 1
    verdicts = validate_runs(runs) if runs else {}
    bad, drift, samples = [], [], []
    nt = nbad = ndrift = 0
    flags = collections.Counter()
    for i, (sc, run) in enumerate(zip(scs, runs), 1):
        pos, clause, fl = verdicts[i]
        flags.update(fl)
        diff = differences(sc, run)
        if nontrivial(sc):
            nt += 1
        if clause != "ok":
            nbad += 1
            if len(bad) < 6:
                bad.append((clause, pos, diff[:4], sc, run))
        elif diff:
            ndrift += 1
            if len(drift) < 3:
                drift.append((diff[:4], sc["cfg"]))
        if not samples and "read-reduced-by-elapsed" in fl and len(sc["reqs"]) > 1:
            samples.append({"scenario_cfg": sc["cfg"], "env": envs_of(sc), "recorded": run["reqs"], "tlc_verdict": clause})
    return {"n": len(scs), "requests": sum(len(r["reqs"]) for r in runs), "classes": dict(cls), "bad": bad, "nbad": nbad,
            "ndrift": ndrift, "drift": drift, "nontrivial": nt, "samples": samples, "flags": dict(flags),
            "cfgkeys": {hash(_cfgkey(sc["cfg"])) for sc in scs}}


def _monitor_selftest(_=None):
    """The trace monitor must reject corrupted copies of a genuine recorded run, naming the clause."""
    import copy
    omit = {"kind": "omit", "t": UNSET, "c": UNSET, "r": UNSET}
    cfg = {"ps": {"kind": "obj", "t": 2000, "c": 500, "r": 10000}, "D": 7000, "sch": "http", "rs": [omit, omit]}
    base = execute(cfg, [{"d": 300, "cmode": "ok", "smode": "keep"}, {"d": 0, "cmode": "ok", "smode": "keep"}])
    if [x["rds"] for x in base["reqs"]] != [[1700], [2000]] or base["reqs"][1]["dial"] != NODIAL:
        # the genuine run itself is not what the rules predict: leave the verdict to the main legs
        return {"skipped": "base run deviates", "base": base["reqs"]}
    muts = []

    def mut(name, want, fn):
        r = copy.deepcopy(base)
        fn(r["reqs"])
        muts.append((name, want, r))

    mut("none", "ok", lambda q: None)
    mut("read timeout 1 ms looser", "ReadNeverLooser", lambda q: q[0].update(rds=[1701], rwait=1701))
    mut("connect timeout = total", "ConnectNeverLooser", lambda q: q[0].update(dial=2000, pre=[2000]))
    mut("second request refused", "ClocksIndependent", lambda q: q[1].update(outcome="TimeoutStateError"))
    mut("second request on the first one's clock", "ClocksIndependent", lambda q: q[1].update(rds=[950], rwait=950))
    mut("read timeout not applied", "ReadIsMinRemaining", lambda q: q[0].update(rds=[], rwait=500))
    mut("zero on the socket", "NeverNegativeOrZeroOnSocket", lambda q: q[0].update(rds=[0], rwait=0))
    mut("longer wait than the timeout", "WaitsWithinTimeouts", lambda q: q[1].update(waitR=2500, tEnd=q[1]["tEnd"] + 2500))
    verdicts = validate_runs([r for _, _, r in muts])
    got = {name: verdicts[i][1] for i, (name, _, _) in enumerate(muts, 1)}
    wrong = {name: (want, got[name]) for name, want, _ in muts if got[name] != want}
    return {"wrong": wrong, "verdicts": got}


# ---------------------------------------------------------------------------------- random leg

def _rand_val(rng, allow_bad):
    x = rng.random()
    if x < 0.22:
        return UNSET
    if x < 0.40:
        return NONE
    if allow_bad and x < 0.44:
        return rng.choice([0, -125, -1000, BOOLV, STRV])
    return 125 * rng.choice([1, 2, 3, 4, 6, 8, 12, 16, 24, 40, 80, 96])


def _rand_src(rng, allow_omit, allow_bad):
    x = rng.random()
    if allow_omit and x < 0.35:
        return {"kind": "omit", "t": UNSET, "c": UNSET, "r": UNSET}
    if x < 0.5:
        v = _rand_val(rng, allow_bad)
        return {"kind": "num", "t": UNSET, "c": NONE if v == UNSET else v, "r": UNSET}
    return {"kind": "obj", "t": _rand_val(rng, allow_bad), "c": _rand_val(rng, allow_bad), "r": _rand_val(rng, allow_bad)}


def random_case(rng):
    """configuration + environment beyond the grid; all times are multiples of 125 ms (exact in binary
    floating point, so that "remaining budget = 0" boundaries are hit exactly)"""
    bad = rng.random() < 0.15
    cfg = {"ps": _rand_src(rng, True, bad and rng.random() < 0.3), "D": rng.choice([NONE, 7000, 250, 1500]),
           "sch": rng.choice(["http", "https"]),
           "rs": [_rand_src(rng, True, bad) for _ in range(rng.randint(1, 3))]}
    if rng.random() < 0.2 and len(cfg["rs"]) > 1:
        cfg["rs"][-1] = dict(cfg["rs"][0])       # the caller's same object twice
    pool_nums = [v for v in (cfg["ps"]["t"], cfg["ps"]["c"], cfg["ps"]["r"]) if v > 0]
    envs, gaps = [], []
    for src in cfg["rs"]:
        nums = [v for v in (src["t"], src["c"], src["r"]) if v > 0] + pool_nums
        near = [max(0, n + k) for n in nums for k in (-125, 0, 125)]
        d = rng.choice(near) if near and rng.random() < 0.6 else 125 * rng.randint(0, 100)
        envs.append({"d": d, "cmode": rng.choice(["auto", "auto", "ok"]), "smode": rng.choice(["keep", "keep", "close", "silent"])})
        gaps.append(125 * rng.randint(0, 40))
    return cfg, envs, gaps


def _random_chunk(args):
    seed, n = args
    rng = random.Random(seed)
    cases = [random_case(rng) for _ in range(n)]
    runs = [execute(cfg, envs, gaps) for cfg, envs, gaps in cases]
    verdicts = validate_runs(runs)
    bad = []
    flags = collections.Counter()
    nbad = 0
    for i, ((cfg, envs, gaps), run) in enumerate(zip(cases, runs), 1):
        pos, clause, fl = verdicts[i]
        flags.update(fl)
        if clause != "ok":
            nbad += 1
            if len(bad) < 6:
                bad.append((clause, pos, cfg, envs, gaps, run))
    return {"n": n, "requests": sum(len(r["reqs"]) for r in runs), "bad": bad, "nbad": nbad, "flags": dict(flags),
            "sample": {"cfg": cases[0][0], "env": cases[0][1], "gaps": cases[0][2], "recorded": runs[0]["reqs"]}}


# ---------------------------------------------------------------------------------- information only

def nan_inf_info():
    """NaN / inf are floats, not "non-numbers": Either (reported, never judged)"""
    from urllib3.util.timeout import Timeout
    out = {}
    for name, v in (("nan", float("nan")), ("inf", float("inf")), ("-inf", float("-inf"))):
        try:
            Timeout(total=v)
            out[name] = "accepted"
        except ValueError:
            out[name] = "ValueError"
        except Exception as ex:
            out[name] = type(ex).__name__
    return out


def tunnel_info():
    """S5, beyond the quantifier, information only: for a CONNECT-tunnelled https pool the tunnel is set up
    (_prepare_proxy) before the per-request clock starts, so its connect time is not taken off `total`."""
    try:
        import urllib3
        from urllib3.util.timeout import _DEFAULT_TIMEOUT, Timeout
        st = {"cost": 1.0}

        def responder(peer, req):
            if req.method == "CONNECT":
                return Reply(b"HTTP/1.1 200 Connection established\r\n\r\n")
            return Reply(http_response(200, b"ok"))

        net = Net(responder, connect_cost=lambda cid: st["cost"])
        with _Env(net, None):
            pm = urllib3.ProxyManager("http://proxy.test:3128")
            pool = pm.connection_from_url("https://h.test/")
            r = pool.urlopen("GET", "/", timeout=Timeout(total=2), retries=False)
            vals = [to_ms(e[2], _DEFAULT_TIMEOUT) for e in net.log if e[0] == "SETTIMEOUT"]
            out = {"status": r.status, "total_ms": 2000, "tunnel_connect_ms": 1000, "settimeout_values": vals,
                   "read_timeout_applied": vals[-1] if vals else None,
                   "tunnel_time_counted_against_total": bool(vals) and vals[-1] == 1000}
            pm.clear()
        return out
    except BaseException as ex:   # information only: never decides anything
        return {"error": repr(ex)}


# ---------------------------------------------------------------------------------- driver

REQUIRED_CLASSES = {
    "A": ["outcome:OK", "outcome:ReadTimeoutError", "outcome:ConnectTimeoutError", "outcome:ValueError",
          "outcome:WaitsForever", "pool-ctor-rejected", "request-level", "connect-timeout", "connect-overrun",
          "zero-budget", "read-reduced-by-elapsed", "silent-server", "https", "read-unbounded"],
    "B": ["reused-connection", "fresh-second-connection", "zero-budget", "connect-timeout", "read-reduced-by-elapsed"],
}


def _report_bad(rep, findings, where, clause, pos, diff, cfg, case):
    what = f"{where}: TLC rejects the recorded run at request {pos}: clause {clause}" + (f" ({'; '.join(diff)})" if diff else "")
    f = known.match(findings, _facts(cfg, clause, pos))
    if f:
        rep.known.append((f["id"], what))
    else:
        rep.violation(clause, what, case)


def _sensitivity(dev):
    with _Slot():
        r = tlc.run("MC_Timeout", mc_cfg("PT", "MCDurationsTiny", dev=dev, emit=False), workers=1, heap="2g", timeout=1800,
                    expect_fail=True)
    return r.violated


def run(rep):
    quick = rep.tier == "quick"
    findings = known.load("C19")
    jobs = max(1, int(os.environ.get("VERIF_JOBS") or os.cpu_count() or 4))
    rep.rule = ("every completed behaviour of the model over the property's grid is replayed on the real pool classes "
                "and its recorded run validated by TLC; a behaviour is non-trivial when a connect times out or overruns, "
                "the read timeout is reduced by elapsed connect time or hits the zero budget, a connection is reused, the "
                "timeout is request-level, the server stays silent or a value is rejected; distinct_nontrivial counts such "
                "behaviours (all distinct: the history is part of the model state)")
    rep.assumptions = ["times are integer milliseconds in the spec, floats in the code; 0.3 s is the only inexact value and never sits on a zero-budget boundary",
                       "TLS handshake replaced by a no-op (the https pool's own connect path is real); direct pools only (CONNECT tunnels are outside the quantifier)",
                       "TLC 1.8, CPython and vh/net.py are trusted"]
    plans = ([("A", "PQ", "MCDurationsEdge"), ("B", "PB", "MCDurations")] if quick else
             [("A", "PA", "MCDurationsEdge"), ("B", "PC", "MCDurations"), ("D", "PD", "MCDurations")])
    chunk = 4000 if quick else 6000
    nrand, per = (4000, 1000) if quick else (96000, 4000)
    total_classes, trace_flags = collections.Counter(), collections.Counter()
    emitted = replayed = rejected = 0
    vacuity = []          # raised as a machinery failure at the end unless a violation was found
    sem = mp.Semaphore(max(1, int(os.environ.get("VERIF_JVMS") or jobs)))
    with mp.Pool(jobs, initializer=_init_worker, initargs=(sem,)) as pool:
        selftest = pool.apply_async(_monitor_selftest)
        # random leg first: it keeps the workers busy while TLC computes
        rjobs = [pool.apply_async(_random_chunk, ((rep.seed * 100003 + s, per),)) for s in range(nrand // per)]
        for fam, plan, dur in plans:
            pending, buf = [], []
            nlines = 0

            def on_line(ln):
                nonlocal buf, nlines
                if not ln.startswith(_PRE):
                    return False
                if not ln.endswith('">>'):
                    raise tlc.MachineryError("truncated emission line: " + ln[:200])
                nlines += 1
                buf.append(ln)
                if len(buf) >= chunk:
                    pending.append(pool.apply_async(_replay_chunk, (buf,)))
                    buf = []
                return True

            with sem:
                r1 = tlc.run("MC_Timeout", mc_cfg(plan, dur), workers="auto", heap="3g", on_line=on_line, timeout=7200,
                             expect_fail=True)
            if buf:
                pending.append(pool.apply_async(_replay_chunk, (buf,)))
            if r1.error:
                raise tlc.MachineryError(f"TLC error on MC_Timeout {plan}: {r1.error}\n{r1.out[-2000:]}")
            rep.add_tlc(f"MC_Timeout Plans={plan} Durations={dur}", r1)
            for inv in r1.violated:
                rep.violation("ReferenceInconsistent", f"stage 1: TLC reports {inv} violated by the model (Plans={plan})",
                              {"kind": "stage1", "plan": plan, "dur": dur})
            nc = tlc.tagged_tuples(r1.out, "NCONFIGS")
            if not nc:
                raise tlc.MachineryError("no NCONFIGS line from TLC")
            nconfigs = nc[0][0]
            outs = [p.get(7200) for p in pending]
            got = sum(o["n"] for o in outs)
            emitted += nlines
            replayed += got
            if got != nlines or nlines == 0:
                raise tlc.MachineryError(f"plan {plan}: {nlines} behaviours emitted, {got} replayed")
            cfgkeys = set()
            for o in outs:
                cfgkeys |= o["cfgkeys"]
            if len(cfgkeys) != nconfigs and not r1.violated:
                raise tlc.MachineryError(f"plan {plan}: behaviours cover {len(cfgkeys)} of {nconfigs} configurations")
            fam_classes = collections.Counter()
            for o in outs:
                fam_classes.update(o["classes"])
                trace_flags.update(o["flags"])
                rejected += o["nbad"]
                rep.traces += o["n"]
                rep.evaluations += o["requests"]
                for s in o["samples"]:
                    rep.sample(s, cap=2)
                for clause, pos, diff, sc, run_ in o["bad"]:
                    _report_bad(rep, findings, f"plan {plan}", clause, pos, diff, sc["cfg"],
                                {"kind": "scenario", "cfg": sc["cfg"], "envs": envs_of(sc), "gaps": None, "expected": sc,
                                 "recorded": run_})
                for diff, cfg in o["drift"]:
                    rep.drift.append(f"plan {plan}: run accepted by TLC differs from the model's expectation: {'; '.join(diff)} cfg={json.dumps(cfg)}")
                if o["ndrift"] > len(o["drift"]):
                    rep.drift.extend([f"plan {plan}: (further drift)"] * (o["ndrift"] - len(o["drift"])))
            rep.nontrivial.update((plan, i) for i in range(sum(o["nontrivial"] for o in outs)))
            missing = [c for c in REQUIRED_CLASSES.get(fam, []) if not fam_classes.get(c)]
            if missing:
                raise tlc.MachineryError(f"plan {plan}: emission never covers {missing}")
            total_classes.update(fam_classes)
            rep.stage1[-1].update({"configurations": nconfigs, "behaviours_emitted": nlines, "behaviours_replayed": got})
        # vacuity of the model's actions + sensitivity of the invariants (small plan)
        with sem:
            rc = tlc.run("MC_Timeout", mc_cfg("PT", "MCDurationsTiny", emit=False), workers=2, heap="2g", coverage=True,
                         timeout=1800)
        dead = [a for a in ACTIONS if rc.coverage.get(a, (0, 0))[0] == 0]
        if dead or rc.violated:
            raise tlc.MachineryError(f"coverage run: actions never taken {dead}, violated {rc.violated}")
        rep.extra["action_coverage"] = {a: rc.coverage[a][0] for a in ACTIONS}
        sens = {}
        devs = list(SENSITIVITY) if not quick else ["DevA", "DevC", "DevF", "DevG"]
        sjobs = {d: pool.apply_async(_sensitivity, (d,)) for d in devs}
        for d, j in sjobs.items():
            v = j.get(1800)
            sens[SENSITIVITY[d]] = v
            if not v:
                raise tlc.MachineryError(f"stage 1 is insensitive to model deviation {SENSITIVITY[d]}: no invariant fails")
        rep.extra["model_deviations_rejected_by"] = sens
        st = selftest.get(1800)
        rep.extra["trace_monitor_selftest"] = st
        if st.get("wrong"):
            vacuity.append(f"trace monitor self-test: corrupted runs not rejected as expected {st['wrong']}")
        # random leg results
        routs = [j.get(7200) for j in rjobs]
    rflags = collections.Counter()
    for o in routs:
        rep.traces += o["n"]
        rep.evaluations += o["requests"]
        rejected += o["nbad"]
        rflags.update(o["flags"])
        for clause, pos, cfg, envs, gaps, run_ in o["bad"]:
            _report_bad(rep, findings, "random run", clause, pos, None, cfg,
                        {"kind": "scenario", "cfg": cfg, "envs": envs, "gaps": gaps, "expected": None, "recorded": run_})
    if sum(o["n"] for o in routs) != nrand:
        raise tlc.MachineryError("random leg incomplete")
    for name, fl in (("grid", trace_flags), ("random", rflags)):
        vacuity += [f"{name} traces never cover {c} (TraceCovers)" for c in FLAGS if not fl.get(c)]
    if vacuity and not rep.violations:
        raise tlc.MachineryError("; ".join(vacuity))
    rep.sample({"random_run": routs[0]["sample"]}, cap=4)
    rep.extra.update({"behaviours_emitted": emitted, "behaviours_replayed": replayed, "random_runs": nrand,
                      "runs_rejected_by_tlc": rejected, "emitted_classes": dict(total_classes),
                      "grid_trace_covers": dict(trace_flags), "random_trace_covers": dict(rflags),
                      "nan_inf_either": nan_inf_info(), "S5_connect_tunnel_info": tunnel_info(), "jobs": jobs, "vacuity_warnings": vacuity,
                      "scope_note": "CONNECT-tunnelled pools (S5) are outside the quantifier and not judged"})
    rep.exhaustive = True


def replay(rep, path):
    with open(path) as fh:
        doc = json.load(fh)
    case = doc["case"]
    rep.rule = "replay of one recorded case"
    rep.nontrivial.update({1, 2})
    rep.states = rep.transitions = 1
    if case.get("kind") == "stage1":
        r = tlc.run("MC_Timeout", mc_cfg(case["plan"], case["dur"], emit=False), workers="auto", heap="3g", expect_fail=True)
        for inv in r.violated:
            rep.violation("ReferenceInconsistent", f"stage 1: TLC reports {inv} violated by the model", case)
        return
    run_ = execute(case["cfg"], case["envs"], case.get("gaps"))
    rep.evaluations += len(run_["reqs"])
    pos, clause, _ = validate_runs([run_])[1]
    rep.traces += 1
    if clause != "ok":
        diff = differences(case["expected"], run_)[:4] if case.get("expected") else None
        _report_bad(rep, known.load("C19"), "replay", clause, pos, diff, case["cfg"], dict(case, recorded=run_))
