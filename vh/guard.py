"""CPU-time watchdog for evaluations of the real code (used by C14 / C15).

`guarded_map(fn, inputs)` evaluates fn(inputs[i]) for every i in a forked worker process.  Before
each input the worker records (index, its own process CPU time) in shared memory; the parent polls
the worker's USER CPU time (/proc/<pid>/stat utime - CPU time, not wall clock, and not system time, so
machine load / memory pressure cannot cause a false alarm) and, when the current input has consumed more than
    B = max(floor, factor x median per-input CPU time of the batch so far)
and is still on that input and still burning user CPU a second later, it stops the worker, re-checks, kills it, records the input as "did not return" and restarts a
worker on the remaining inputs.  The harness therefore never hangs on a tree, and a call that does
not return becomes an observation the trace specification can judge.

Results must be JSON-able.  Returns (results, dnr) where results[i] is fn's value or None and dnr
maps index -> CPU seconds consumed when the worker was killed.  After `max_dnr` kills the rest of
the batch is abandoned (results None, listed in `skipped`) - the run is already a failure then.
"""
from __future__ import annotations

import ctypes
import json
import mmap
import os
import resource
import select
import signal
import statistics
import struct
import sys
import time
import traceback

from .tlc import MachineryError

_TCK = os.sysconf("SC_CLK_TCK")
FLOOR = 2.0       # seconds of worker CPU time
FACTOR = 200.0


def _proc_cpu(pid):
    """user CPU time of pid in seconds, or None when the process is gone."""
    try:
        with open(f"/proc/{pid}/stat", "rb") as fh:
            data = fh.read()
    except OSError:
        return None
    rest = data[data.rfind(b")") + 2:].split()
    return int(rest[11]) / _TCK      # field 14 of the whole line: utime.  USER time only: system time can spike
    #                                  under memory pressure / reclaim on a loaded machine, a runaway computation cannot


def _child(fn, inputs, order, shm, w):
    try:
        try:      # die with the parent: never leave a spinning orphan behind
            ctypes.CDLL(None, use_errno=True).prctl(1, signal.SIGKILL)
        except Exception:
            pass
        out = os.fdopen(w, "w", buffering=1 << 16)
        for i in order:
            t0 = time.process_time()
            struct.pack_into("d", shm, 8, resource.getrusage(resource.RUSAGE_SELF).ru_utime)   # same clock as /proc utime
            struct.pack_into("q", shm, 0, i)        # start first, index second (the parent reads index first)
            res = fn(inputs[i])
            out.write(json.dumps([i, time.process_time() - t0, res]))
            out.write("\n")
        struct.pack_into("q", shm, 0, -1)
        out.flush()
        os._exit(0)
    except BaseException:
        try:
            traceback.print_exc()
            sys.stderr.flush()
        finally:
            os._exit(3)


def guarded_map(fn, inputs, floor=FLOOR, factor=FACTOR, max_dnr=6):
    n = len(inputs)
    results = [None] * n
    done = [False] * n
    dnr = {}
    dts = []
    info = {"budget_s": floor, "restarts": 0, "skipped": [], "max_input_cpu_s": 0.0}
    remaining = list(range(n))

    def budget():
        b = floor
        if dts:
            b = max(floor, factor * statistics.median(dts))
        info["budget_s"] = max(info["budget_s"], b)
        return b

    while remaining:
        if len(dnr) >= max_dnr:
            info["skipped"] = remaining
            break
        shm = mmap.mmap(-1, 16)
        struct.pack_into("q", shm, 0, -2)
        r, w = os.pipe()
        sys.stdout.flush()
        sys.stderr.flush()
        pid = os.fork()
        if pid == 0:
            os.close(r)
            _child(fn, inputs, remaining, shm, w)
        os.close(w)
        killed = None
        suspect = None
        buf = b""
        last_check = time.monotonic()

        def take(chunk):
            nonlocal buf
            buf += chunk
            *lines, buf = buf.split(b"\n")
            for ln in lines:
                i, dt, res = json.loads(ln)
                results[i], done[i] = res, True
                dts.append(dt)
                if dt > info["max_input_cpu_s"]:
                    info["max_input_cpu_s"] = dt

        try:
            while True:
                rl, _, _ = select.select([r], [], [], 0.2)
                if rl:
                    chunk = os.read(r, 1 << 20)
                    if not chunk:
                        break
                    take(chunk)
                now = time.monotonic()
                if now - last_check < 0.2:
                    continue
                last_check = now
                idx = struct.unpack_from("q", shm, 0)[0]
                if idx < 0:
                    continue
                t0 = struct.unpack_from("d", shm, 8)[0]
                cpu = _proc_cpu(pid)
                if cpu is None or cpu - t0 <= floor:
                    continue
                b = budget()
                if cpu - t0 <= b:
                    continue
                # over budget: it must STAY on this input and keep burning user CPU (a transient stall does neither)
                if suspect is None or suspect[0] != idx:
                    suspect = (idx, cpu, now)
                    continue
                if now - suspect[2] < 1.0 or cpu - suspect[1] < 0.5:
                    continue
                os.kill(pid, signal.SIGSTOP)      # freeze, look again, then decide
                time.sleep(0.02)
                idx2 = struct.unpack_from("q", shm, 0)[0]
                t02 = struct.unpack_from("d", shm, 8)[0]
                cpu2 = _proc_cpu(pid)
                if idx2 == idx and cpu2 is not None and cpu2 - t02 > b:
                    os.kill(pid, signal.SIGKILL)
                    killed = (idx, cpu2 - t02)
                    while True:               # what the worker had already flushed is still valid
                        chunk = os.read(r, 1 << 20)
                        if not chunk:
                            break
                        take(chunk)
                    break
                os.kill(pid, signal.SIGCONT)
        finally:
            os.close(r)
        _, status = os.waitpid(pid, 0)
        shm.close()
        if killed is not None:
            idx, used = killed
            if done[idx]:
                raise MachineryError(f"watchdog: input {idx} reported done and did-not-return")
            dnr[idx] = used
            done[idx] = True
            info["restarts"] += 1
        elif not (os.WIFEXITED(status) and os.WEXITSTATUS(status) == 0):
            raise MachineryError(f"evaluation worker died (status {status}) after {sum(done)} of {n} inputs")
        left = [i for i in remaining if not done[i]]
        if killed is None and left:
            raise MachineryError(f"evaluation worker exited cleanly but {len(left)} inputs have no result")
        remaining = left
    return results, dnr, info
