"""C05 — redirects are followed only as far as the effective retry policy allows.

stage 1  TLC checks spec/Redirect.tla (Model of PoolManager/ProxyManager/bare-pool redirect handling and of
         Retry.from_int/increment) against the Rules clauses RedirectWithinBudget, NoContactWhenDisabled,
         SeeOtherRewrites, OthersKeepMethodBody, RelativeResolved, ExhaustionShape, ReturnShape for every chain
         of answers within the bound, every policy value and placement, every client
stage 2  TLC emits scenarios (spec/MC_Redirect.tla: planned families + simulation) with the Model's expectations
stage 3  vh/redirdrv.py executes each on the real client over the in-memory network and records the trace
stage 4  TLC validates every trace (spec/Redirect_Trace.tla): Rules verdict (hard), Model expectation (drift)
"""
from . import redirdrv


def run(rep):
    redirdrv.run_property(rep, "C05")


def replay(rep, path):
    redirdrv.replay_property(rep, "C05", path)
