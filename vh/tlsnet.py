"""TLS parties for the in-memory network (C07; reusable by C09).

* `Authority`: two throw-away CAs minted with trustme -- one the client is configured to trust, one
  it is not -- and leaf certificates with chosen subject names (DNS / wildcard / IP SANs or a bare
  commonName).  Ground truth about a certificate (who signed it, which names it carries, its DER
  digest) comes from how it was minted here, never from urllib3.
* `TLSNet`: replaces `urllib3.util.connection.create_connection` (the seam every `_new_conn` goes
  through) by a factory that hands the client one end of a `socket.socketpair()`; the other end is
  served by a helper thread (`_party`) which optionally plays an HTTP proxy front (plain or TLS,
  answering CONNECT), then performs the TLS *server* handshake with the chosen leaf and records what
  only the server can know: did the handshake complete, which SNI arrived, did any application
  (HTTP request) byte arrive, and did the client close the socket (EOF / reset seen at the peer).

A TLS handshake blocks inside OpenSSL on the real fd, so unlike `vh.net` the peer cannot run
inline; one short-lived thread per connection, joined by the driver (`wait()`), keeps runs
reproducible: the client thread is the only one that drives urllib3.
"""
from __future__ import annotations

import hashlib
import os
import shutil
import socket
import ssl
import tempfile
import threading
import time

RESPONSE = b"HTTP/1.1 200 OK\r\nContent-Length: 2\r\n\r\nok"
CONNECT_OK = b"HTTP/1.1 200 Connection established\r\n\r\n"


class Authority:
    """Three throw-away CAs and a cache of leaf certificates (per process).

    trusted        the private CA the client is handed whenever it CONFIGURES a CA source
                   (as a file: capath, as PEM text: cadata, as a c_rehash-style directory: cadir)
    untrusted      in no store at all
    default_store  the only member of this process' DEFAULT trust store: SSL_CERT_FILE / SSL_CERT_DIR
                   (environment only -- nothing in urllib3 or ssl is patched) point at it, which is what
                   ssl.SSLContext.load_default_certs() / set_default_verify_paths() read
    """

    def __init__(self, default_store_env=True):
        import trustme
        self.dir = tempfile.mkdtemp(prefix="vh-tls-")
        self.trusted = trustme.CA()
        self.untrusted = trustme.CA()
        self.default_store = trustme.CA()
        self.capath = os.path.join(self.dir, "trusted-ca.pem")
        self.trusted.cert_pem.write_to_path(self.capath)
        self.cadata = self.trusted.cert_pem.bytes().decode()
        self.cadir = os.path.join(self.dir, "cadir")
        os.mkdir(self.cadir)
        self.trusted.cert_pem.write_to_path(os.path.join(self.cadir, self._subject_hash(self.cadata) + ".0"))
        self.default_file = os.path.join(self.dir, "default-store.pem")
        self.default_store.cert_pem.write_to_path(self.default_file)
        self.empty_dir = os.path.join(self.dir, "empty")
        os.mkdir(self.empty_dir)
        if default_store_env:
            os.environ["SSL_CERT_FILE"] = self.default_file
            os.environ["SSL_CERT_DIR"] = self.empty_dir
        self._leaves = {}

    @staticmethod
    def _subject_hash(pem: str) -> str:
        """File name stem OpenSSL looks up in a CApath directory (what c_rehash computes)."""
        from OpenSSL import crypto
        return "%08x" % crypto.load_certificate(crypto.FILETYPE_PEM, pem.encode()).subject_name_hash()

    def leaf(self, issuer: str, sans: tuple = (), common_name: str | None = None):
        """-> (server-side SSLContext, DER bytes, sni holder).  issuer: 'trusted' | 'untrusted' | 'default_store'."""
        key = (issuer, tuple(sans), common_name)
        if key not in self._leaves:
            ca = {"trusted": self.trusted, "untrusted": self.untrusted, "default_store": self.default_store}[issuer]
            cert = ca.issue_cert(*sans, common_name=common_name)
            ctx = ssl.SSLContext(ssl.PROTOCOL_TLS_SERVER)
            cert.configure_cert(ctx)
            holder = {}      # id(SSLObject) -> per-connection record (parties of one leaf may overlap)

            def on_sni(sslobj, name, _ctx, holder=holder):
                cur = holder.get(id(sslobj))
                if cur is not None:
                    cur["sni"] = name if name is not None else "<none>"
                    cur["sni_seen"] = True
                return None

            ctx.sni_callback = on_sni
            der = ssl.PEM_cert_to_DER_cert(cert.cert_chain_pems[0].bytes().decode())
            self._leaves[key] = (ctx, der, holder)
        return self._leaves[key]

    def close(self):
        shutil.rmtree(self.dir, ignore_errors=True)


def pins(der: bytes) -> dict:
    """Fingerprints of a certificate in the spellings assert_fingerprint documents."""
    h = hashlib.sha256(der).hexdigest()
    last = "0" if h[-1] != "0" else "1"
    return {
        "sha256": h,
        "sha256_colon_upper": ":".join(h.upper()[i:i + 2] for i in range(0, 64, 2)),
        "sha1": hashlib.sha1(der).hexdigest(),
        "md5": hashlib.md5(der).hexdigest(),
        "wrong_tail": h[:-1] + last,                 # differs from the right pin in the last nibble only
        "wrong_other": hashlib.sha256(b"not the certificate").hexdigest(),
        "badlen": h[:-2],                            # 62 hex digits: no digest has that length
    }


class _BIOLayer:
    """Server-side TLS over an arbitrary blocking byte stream (used for TLS-in-TLS behind a TLS proxy)."""

    def __init__(self, lower, ctx):
        self.lower = lower
        self.inb, self.outb = ssl.MemoryBIO(), ssl.MemoryBIO()
        self.obj = ctx.wrap_bio(self.inb, self.outb, server_side=True)

    def _flush(self):
        d = self.outb.read()
        if d:
            self.lower.sendall(d)

    def _loop(self, fn, *a):
        while True:
            try:
                r = fn(*a)
                self._flush()
                return r
            except ssl.SSLWantReadError:
                self._flush()
                d = self.lower.recv(65536)
                if not d:
                    self.inb.write_eof()
                else:
                    self.inb.write(d)

    def do_handshake(self):
        self._loop(self.obj.do_handshake)

    def recv(self, n=65536):
        try:
            return self._loop(self.obj.read, n)
        except (ssl.SSLZeroReturnError, ssl.SSLEOFError):
            return b""

    def sendall(self, b):
        self._loop(self.obj.write, b)


def _read_head(layer):
    buf = b""
    while b"\r\n\r\n" not in buf:
        d = layer.recv(65536)
        if not d:
            return buf, True
        buf += d
    return buf, False


class Conn:
    """Ground truth about one connection, written by the party thread only."""

    def __init__(self, cid, address):
        self.cid, self.address = cid, address
        self.rec = {"cid": cid, "dial": [str(address[0]), int(address[1])], "proxy_hs": None, "proxy_sni": "<na>",
                    "connect_line": None, "hs": False, "sni": "<none>", "sni_seen": False, "req": False,
                    "req_head": None, "eof": False, "party_exc": None, "stage": "start", "early_plain": False}
        self.done = threading.Event()


class TLSNet:
    """Patch the connection seam; every dial is served by `_party` with the current plan.

    plan keys:  origin: (ctx, der, holder)            leaf the origin presents
                proxy: None | "http" | "https"        proxy front before the origin
                proxy_leaf: (ctx, der, holder)        leaf the TLS proxy front presents
                eof_wait: seconds the party waits for the client's close after the exchange
    """

    def __init__(self, plan):
        self.plan = plan
        self.conns = []
        self._lock = threading.Lock()

    # ---------------------------------------------------------------- server side
    def _tls_accept(self, stream, leaf, rec, prefix):
        """TLS server handshake over `stream` (raw socket or an outer TLS layer).  Always through
        MemoryBIO so the raw fd stays ours and the client's close remains observable afterwards."""
        ctx, _der, holder = leaf
        cur = {"sni": "<none>", "sni_seen": False}
        layer = _BIOLayer(stream, ctx)
        holder[id(layer.obj)] = cur
        try:
            layer.do_handshake()
        finally:
            holder.pop(id(layer.obj), None)
            rec[prefix + "sni"] = cur["sni"]
            if prefix == "":
                rec["sni_seen"] = cur["sni_seen"]
        return layer

    def _party(self, sock, conn):
        rec, plan = conn.rec, self.plan
        sock.settimeout(plan.get("io_timeout", 4.0))
        layer = sock
        try:
            if plan.get("proxy") == "https":
                rec["stage"] = "proxy_hs"
                rec["proxy_hs"] = False
                layer = self._tls_accept(sock, plan["proxy_leaf"], rec, "proxy_")
                rec["proxy_hs"] = True
            if plan.get("proxy"):
                rec["stage"] = "connect"
                head, eof = _read_head(layer)
                rec["connect_line"] = head.split(b"\r\n")[0].decode("latin-1") if head else None
                if eof or not head.startswith(b"CONNECT "):
                    if head and not head.startswith(b"CONNECT "):
                        rec["early_plain"] = True      # a request went to the proxy in forwarding form
                        rec["req"] = True
                        rec["req_head"] = head[:200].decode("latin-1")
                    raise EOFError("no CONNECT")
                layer.sendall(CONNECT_OK)
            rec["stage"] = "hs"
            inner = self._tls_accept(layer, plan["origin"], rec, "")
            rec["hs"] = True
            rec["stage"] = "request"
            head, eof = _read_head(inner)
            if head:
                rec["req"] = True
                rec["req_head"] = head[:200].decode("latin-1")
            if not eof:
                inner.sendall(RESPONSE)
                rec["stage"] = "responded"
                conn.done.set()     # settled: everything the driver needs is recorded
                # wait for the client's close (keep-alive connection: closed by pool.close())
                try:
                    while True:
                        d = inner.recv(65536)
                        if not d:
                            break
                except (OSError, ssl.SSLError):
                    pass
            else:
                rec["eof"] = True
        except (ssl.SSLError, OSError, EOFError) as ex:
            rec["party_exc"] = type(ex).__name__ + ":" + str(ex)[:80]
            # handshake / exchange failed on our side: does the client close the socket?
            self._await_eof(sock, rec)
        except BaseException as ex:  # noqa: BLE001 - recorded, judged by the driver (machinery)
            rec["party_exc"] = "UNEXPECTED " + repr(ex)[:200]
        finally:
            try:
                sock.close()
            except OSError:
                pass
            conn.done.set()

    def _await_eof(self, sock, rec):
        """Ground truth for 'the client closed the socket': EOF or reset seen on the raw fd."""
        deadline = time.monotonic() + self.plan.get("eof_wait", 4.0)
        while time.monotonic() < deadline:
            try:
                sock.settimeout(max(0.01, deadline - time.monotonic()))
                d = sock.recv(65536)
            except socket.timeout:
                break
            except OSError:
                rec["eof"] = True
                return
            if not d:
                rec["eof"] = True
                return
        rec["eof"] = False

    # ---------------------------------------------------------------- client seam
    def create_connection(self, address, timeout=None, source_address=None, socket_options=None):
        a, b = socket.socketpair()
        with self._lock:
            conn = Conn(len(self.conns) + 1, address)
            self.conns.append(conn)
        threading.Thread(target=self._party, args=(b, conn), daemon=True, name=f"tls-party-{conn.cid}").start()
        if isinstance(timeout, (int, float)):
            a.settimeout(timeout)
        return a

    def __enter__(self):
        import urllib3.util.connection as uc
        self._uc = uc
        self._orig = uc.create_connection
        uc.create_connection = self.create_connection
        return self

    def __exit__(self, *a):
        self._uc.create_connection = self._orig
        return False

    def wait(self, timeout=6.0):
        """Join every party; returns False if one is still running (harness stall)."""
        ok = True
        for c in self.conns:
            ok = c.done.wait(timeout) and ok
        return ok

    def records(self):
        return [c.rec for c in self.conns]
