"""SSLTransport (urllib3/util/ssltransport.py) — growth of the specification beyond the listed clauses;
serves C09: it is the TLS-in-TLS transport that carries the tunnelled request to an HTTPS destination
through an HTTPS proxy.

stage 1  TLC checks spec/SSLTransport.tla exhaustively: an implementation-shaped model of the MemoryBIO
         pump (`_ssl_io_loop`: call the SSL engine, flush `outgoing` to the socket, on WANT_READ read
         ciphertext from the socket into `incoming` or feed EOF), the handshake in __init__, read / recv /
         recv_into / send / sendall / unwrap / close / settimeout, for EVERY segmentation of the
         ciphertext stream into socket reads, EOF (clean close_notify or ragged, also mid-record) and
         timeouts at any socket read; named deviations (constant Bug) must each be refuted by TLC.
stage 2  TLC emits every finished behaviour as a schedule: API calls, the environment's actions (server
         writes a record, close_notify, EOF), the number of abstract ciphertext units every socket.recv
         returns, injected timeouts, and the result the model expects from every API call.
stage 3  the schedule is replayed on the REAL SSLTransport over a shim socket (no threads: the real
         OpenSSL server side runs inline behind the shim) that maps abstract units onto real TLS record
         boundaries (record header | every plaintext byte | tag), and records every engine call, BIO
         level, socket operation, delivered plaintext and exception.
stage 4  TLC judges every recorded trace with the Rules of the spec (spec/SSLTransport_Trace.tla, total
         monitor naming the clause) and the results are compared with the model's expected results.

Verdicts: only NoPlaintextOnWire breaks the statement of C09 (VIOLATION); every other clause of this
area (in-order delivery, progress, EOF handling, close order, timeouts) and every difference from the
model is MODEL-DRIFT.
"""
from __future__ import annotations

import hashlib
import json
import multiprocessing as mp
import os
import shutil
import socket
import ssl

from . import tlc
from . import proxynet as pn

J = max(1, int(os.environ.get("VERIF_JOBS") or 0) or os.cpu_count() or 4)
HOST = "origin.test"
LOOP_BOUND = 60          # engine calls per API call before the harness declares a busy loop
HARD = {"NoPlaintextOnWire"}
CLAUSES = ["NoPlaintextOnWire", "PlaintextInOrderNoLossNoDup", "NoBusyLoop", "EOFHandling", "CloseOrder",
           "TimeoutPropagates"]


class BusyLoop(BaseException):
    """raised by the recording engine when one API call exceeds LOOP_BOUND engine calls"""


class Stall(BaseException):
    """the client would block forever in socket.recv (nothing in flight, no EOF, no timeout scripted)"""


CBASE = 101     # the client's stream starts at another value than the server's (and than TLS's own small constants)


def stream(lo, n, base=0):
    """Plaintext streams are position coded (byte value = base + offset mod 251), so TLC can check
    order / loss / duplication itself."""
    return bytes((base + lo + i) % 251 for i in range(n))


BLANK = {"ev": "", "op": 0, "fn": "", "res": "", "n": 0, "data": [], "exc": "", "v": -1, "inp": 0, "outp": 0,
         "ineof": False, "plain": 0, "kind": ""}


def event(**kw):
    e = dict(BLANK)
    e.update(kw)
    return e


# --------------------------------------------------------------------------------------- the peer

class Server:
    """The real OpenSSL server side, run inline: whatever the client writes is processed at once."""

    def __init__(self, world, log):
        ctx = world.server_ctx("good", HOST)
        ctx.num_tickets = 0
        self.inb, self.outb = ssl.MemoryBIO(), ssl.MemoryBIO()
        self.obj = ctx.wrap_bio(self.inb, self.outb, server_side=True)
        self.log = log
        self.hs = False
        self.records = []        # ciphertext in flight to the client: [kind, plaintext length, bytes]
        self.eof = False         # the server closed its TCP side (after what is in flight)
        self.closed_tx = self.closed_rx = False
        self.written = 0

    def _collect(self, kind, p=0):
        data = self.outb.read()
        i = 0
        while i < len(data):
            n = 5 + int.from_bytes(data[i + 3:i + 5], "big")
            self.records.append([kind, p, bytearray(data[i:i + n])])
            i += n

    def feed(self, data):
        self.inb.write(data)
        if not self.hs:
            try:
                self.obj.do_handshake()
                self.hs = True
            except ssl.SSLWantReadError:
                pass
            except ssl.SSLError:
                pass
            self._collect("hs")
        if self.hs:
            while True:
                try:
                    d = self.obj.read(65536)
                except (ssl.SSLWantReadError, ssl.SSLError):
                    break
                if not d:
                    if not self.closed_rx:
                        self.closed_rx = True
                        self.log(event(ev="srvgot", res="close_notify"))
                    break
                self.log(event(ev="srvgot", res="data", n=len(d), data=list(d)))
            if self.closed_tx and not self.closed_rx:
                # our close_notify is out: a second unwrap() succeeds once the client's close_notify has arrived
                try:
                    self.obj.unwrap()
                    self.closed_rx = True
                    self.log(event(ev="srvgot", res="close_notify"))
                except (ssl.SSLWantReadError, ssl.SSLError):
                    pass
            self._collect("hs")

    # environment actions
    def write(self, n):
        try:
            self.obj.write(stream(self.written, n))
        except ssl.SSLError:          # e.g. the client never completed the handshake: nothing can be written
            self.log(event(ev="env", fn="write", n=n, res="refused"))
            return
        self.log(event(ev="env", fn="write", n=n))
        self.written += n
        self._collect("data", n)

    def close_notify(self):
        try:
            self.obj.unwrap()
        except (ssl.SSLWantReadError, ssl.SSLError):
            pass
        self.closed_tx = True
        self.log(event(ev="env", fn="close_notify"))
        self._collect("alert")

    def close(self):
        self.log(event(ev="env", fn="eof"))
        self.eof = True

    def cut(self):
        """the peer dies: whatever the client socket has not received yet is lost (possibly mid-record)"""
        self.log(event(ev="env", fn="cut"))
        self.records = []
        self.eof = True

    def units(self):
        """Abstract units in flight: a record = header | one unit per plaintext byte (the last one carries the
        tag), non-data records = header | body."""
        out = []
        for kind, p, data in (r[:3] for r in self.records):
            cuts = [5] + ([5 + j for j in range(1, p)] if kind == "data" and p > 1 else []) + [len(data)]
            out.append(cuts)
        return out

    def take_units(self, u):
        """Remove and return the bytes of the next u abstract units."""
        out = bytearray()
        while u > 0 and self.records:
            rec = self.records[0]
            kind, p, data = rec[0], rec[1], rec[2]
            done = rec[3] if len(rec) > 3 else 0                 # bytes of this record already taken
            total = len(data) + done
            cuts = [5] + ([5 + j for j in range(1, p)] if kind == "data" and p > 1 else []) + [total]
            nxt = next(c for c in cuts if c > done)
            out += data[:nxt - done]
            del data[:nxt - done]
            if len(rec) > 3:
                rec[3] = nxt
            else:
                rec.append(nxt)
            if not data:
                self.records.pop(0)
            u -= 1
        return bytes(out)

    def take_all(self):
        out = b"".join(bytes(r[2]) for r in self.records)
        self.records = []
        return out


class Shim:
    """The socket under the SSLTransport.  Every operation is logged; what recv returns is dictated by the
    schedule (`plan`: the items of the current API call, consumed in order)."""

    def __init__(self, server, log, client_plain):
        self.server, self.log, self.client_plain = server, log, client_plain
        self.plan = []
        self.timeout = None
        self.closed = 0
        self._io_refs = 0
        self.mismatch = None

    def fileno(self):
        return -1

    def _leak(self, data):
        """length of the longest run of the client's plaintext stream found verbatim in `data`"""
        best = 0
        src = self.client_plain
        for i in range(len(data)):
            j = src.find(data[i:i + 1])
            while j >= 0:
                k = 0
                while i + k < len(data) and j + k < len(src) and data[i + k] == src[j + k]:
                    k += 1
                best = max(best, k)
                j = src.find(data[i:i + 1], j + 1)
            if best >= 8:
                break
        return best

    def sendall(self, data):
        data = bytes(data)
        if self.closed:
            self.log(event(ev="ssend", res="closed", n=len(data)))
            raise OSError(9, "Bad file descriptor")
        if self.plan and self.plan[0]["t"] == "sendfault" and data:
            self.plan.pop(0)
            self.log(event(ev="ssend", res="timeout", n=len(data), plain=self._leak(data)))
            raise socket.timeout("timed out")
        self.log(event(ev="ssend", res="ok", n=len(data), plain=self._leak(data) if data else 0))
        if data:
            self.server.feed(data)

    def recv(self, n):
        if self.closed:
            self.log(event(ev="srecv", res="closed"))
            raise OSError(9, "Bad file descriptor")
        srv = self.server
        while True:
            item = self.plan.pop(0) if self.plan else None
            if item is None:
                # schedule exhausted: the model did not expect this recv; finish deterministically
                if self.mismatch is None:
                    self.mismatch = "socket.recv not in the schedule"
                if srv.records:
                    data = srv.take_all()
                    self.log(event(ev="srecv", res="data", n=len(data)))
                    return data
                if srv.eof:
                    self.log(event(ev="srecv", res="eof"))
                    return b""
                raise Stall()
            if item["t"] == "env":
                getattr(srv, item["a"])(*([item["n"]] if item["a"] == "write" else []))
                continue
            if item["t"] == "timeout":
                self.log(event(ev="srecv", res="timeout"))
                raise socket.timeout("timed out")
            if item["t"] == "recv":
                if item["u"] == 0:
                    if srv.records or not srv.eof:
                        self.mismatch = self.mismatch or "schedule says EOF but bytes are in flight"
                    self.log(event(ev="srecv", res="eof"))
                    return b""
                data = srv.take_units(item["u"])
                if not data:
                    self.mismatch = self.mismatch or "schedule delivers units but nothing is in flight"
                    continue
                self.log(event(ev="srecv", res="data", n=len(data)))
                return data[:n]
            self.mismatch = self.mismatch or f"unexpected schedule item {item}"

    def close(self):
        self.closed += 1
        self.log(event(ev="sclose"))

    def settimeout(self, v):
        self.timeout = v
        self.log(event(ev="ssettimeout", v=-1 if v is None else int(v * 1000)))

    def gettimeout(self):
        self.log(event(ev="sgettimeout", v=-1 if self.timeout is None else int(self.timeout * 1000)))
        return self.timeout

    def _decref_socketios(self):
        if self._io_refs > 0:
            self._io_refs -= 1


class RecObj:
    """Recording proxy around the real ssl.SSLObject (reached through the public ssl_context parameter)."""

    def __init__(self, obj, incoming, outgoing, log, counter):
        self._o, self._in, self._out, self._log, self._cnt = obj, incoming, outgoing, log, counter

    def _call(self, name, f, *a):
        self._cnt[0] += 1
        if self._cnt[0] > LOOP_BOUND:
            raise BusyLoop()
        inp, ineof = self._in.pending, self._in.eof
        try:
            r = f(*a)
        except ssl.SSLWantReadError:
            self._log(event(ev="call", fn=name, res="want_read", inp=inp, ineof=ineof, outp=self._out.pending))
            raise
        except ssl.SSLWantWriteError:
            self._log(event(ev="call", fn=name, res="want_write", inp=inp, ineof=ineof, outp=self._out.pending))
            raise
        except ssl.SSLError as ex:
            kind = "eof" if ex.errno == ssl.SSL_ERROR_EOF else "zero" if ex.errno == ssl.SSL_ERROR_ZERO_RETURN \
                else "sslerror"
            self._log(event(ev="call", fn=name, res=kind, inp=inp, ineof=ineof, outp=self._out.pending))
            raise
        n = r if isinstance(r, int) else len(r) if isinstance(r, (bytes, bytearray)) else 0
        self._log(event(ev="call", fn=name, res="ret", n=n, inp=inp, ineof=ineof, outp=self._out.pending))
        return r

    def do_handshake(self):
        return self._call("do_handshake", self._o.do_handshake)

    def read(self, *a):
        return self._call("read", self._o.read, *a)

    def write(self, data):
        return self._call("write", self._o.write, data)

    def unwrap(self):
        return self._call("unwrap", self._o.unwrap)

    def __getattr__(self, name):
        return getattr(self._o, name)


class RecCtx:
    def __init__(self, ctx, log, counter):
        self._ctx, self._log, self._cnt = ctx, log, counter

    def wrap_bio(self, incoming, outgoing, server_hostname=None):
        return RecObj(self._ctx.wrap_bio(incoming, outgoing, server_hostname=server_hostname), incoming, outgoing,
                      self._log, self._cnt)


# --------------------------------------------------------------------------------------- replaying a schedule

READS = {"recv", "read", "recv_into", "read_into", "mf_read"}


def run_schedule(sc):
    """Replay one schedule on the real SSLTransport.  sc = {cfg:{suppress}, steps:[...]}, a step is
    {"t":"op","fn":..,"n":..} followed by the items the socket consumes during that call
    ({"t":"recv","u":units} / {"t":"timeout"} / {"t":"sendfault"} / {"t":"env","a":..,"n":..}), or an
    {"t":"env",...} between calls.  Returns (events, results per API call, harness notes)."""
    from urllib3.util.ssltransport import SSLTransport
    world = pn.World.get()
    events = []
    cur = [0]

    def log(e):
        e["op"] = cur[0]
        events.append(e)

    total = sum(s.get("n", 0) for s in sc["steps"] if s["t"] == "op" and s["fn"] in ("send", "sendall"))
    client_plain = stream(0, max(total, 16), CBASE)
    srv = Server(world, log)
    shim = Shim(srv, log, client_plain)
    counter = [0]
    cctx = ssl.create_default_context(cafile=world.ca_path)
    tr = None
    sent = 0
    results, notes = [], []
    groups, i = [], 0
    steps = sc["steps"]
    while i < len(steps):
        if steps[i]["t"] == "op":
            j = i + 1
            while j < len(steps) and steps[j]["t"] != "op" and not (steps[j]["t"] == "env" and steps[j].get("between")):
                j += 1
            groups.append((steps[i], steps[i + 1:j]))
            i = j
        else:
            groups.append((steps[i], []))
            i += 1
    mf = None
    for head, items in groups:
        if head["t"] == "env":
            getattr(srv, head["a"])(*([head["n"]] if head["a"] == "write" else []))
            continue
        cur[0] += 1
        counter[0] = 0
        shim.plan = [dict(x) for x in items]
        fn, n = head["fn"], head.get("n", 0)
        log(event(ev="op", fn=fn, n=n))
        res = {"fn": fn, "kind": "none", "n": 0, "data": [], "exc": ""}
        try:
            if fn == "init":
                tr = SSLTransport(shim, RecCtx(cctx, log, counter), server_hostname=HOST,
                                  suppress_ragged_eofs=sc["cfg"]["suppress"])
            elif tr is None:
                res["exc"] = "NoTransport"
            elif fn in ("send", "sendall"):
                data = stream(sent, n, CBASE)
                r = getattr(tr, fn)(data)
                sent += n if fn == "sendall" else (r if isinstance(r, int) else 0)
                if fn == "send":
                    res.update(kind="int" if isinstance(r, int) else type(r).__name__, n=r if isinstance(r, int) else 0)
            elif fn in ("recv", "read"):
                r = getattr(tr, fn)(n)
                if isinstance(r, (bytes, bytearray)):
                    res.update(kind="bytes", n=len(r), data=list(r))
                else:
                    res.update(kind="int" if isinstance(r, int) else type(r).__name__, n=r if isinstance(r, int) else 0)
            elif fn in ("recv_into", "read_into"):
                buf = bytearray(head.get("buf", n))
                r = tr.recv_into(buf, n) if fn == "recv_into" else tr.read(n, buf)
                if isinstance(r, int):
                    res.update(kind="int", n=r, data=list(buf[:r]))
                else:
                    res.update(kind=type(r).__name__, n=len(r) if hasattr(r, "__len__") else 0)
            elif fn == "mf_read":
                mf = mf or tr.makefile("rb")
                r = mf.read(n)
                res.update(kind="bytes", n=len(r), data=list(r))
            elif fn == "unwrap":
                tr.unwrap()
            elif fn == "close":
                tr.close()
            elif fn == "settimeout":
                tr.settimeout(None if n < 0 else n / 1000)
            elif fn == "gettimeout":
                r = tr.gettimeout()
                res.update(kind="int", n=-1 if r is None else int(r * 1000))
            else:
                raise tlc.MachineryError("unknown op " + fn)
        except BusyLoop:
            res["exc"] = "BusyLoop"
        except Stall:
            res["exc"] = "Stall"
        except Exception as ex:  # noqa: BLE001 - every exception is an outcome to be judged
            res["exc"] = type(ex).__name__
        if shim.plan:
            notes.append(f"call {cur[0]} ({fn}) left {len(shim.plan)} scheduled socket steps unused")
        if shim.mismatch:
            notes.append(f"call {cur[0]} ({fn}): {shim.mismatch}")
            shim.mismatch = None
        log(event(ev="ret", fn=fn, res="exc" if res["exc"] else "ok", exc=res["exc"], kind=res["kind"], n=res["n"],
                  data=res["data"]))
        results.append(res)
    return events, results, notes


# --------------------------------------------------------------------------------------- TLC side

INVS = ["TypeOK", "NoPlaintextOnWire", "PlaintextInOrderNoLossNoDup", "NoBusyLoop", "EOFHandling", "CloseOrder",
        "TimeoutPropagates", "WholeLogVerdictOk", "EngineConservation", "NeverStuck"]
# design-level deviation -> the clause TLC must refute it with (checked alone)
BUGS = {"eof_not_fed": "NoBusyLoop", "send_drops": "PlaintextInOrderNoLossNoDup",
        "makefile_drops": "PlaintextInOrderNoLossNoDup", "close_twice": "CloseOrder",
        "timeout_dropped": "TimeoutPropagates", "plaintext_flush": "NoPlaintextOnWire",
        "ragged_silent": "EOFHandling"}
MC_CFG = """SPECIFICATION Spec
CONSTANTS
  HsRecs = {hsrecs}
  Suppress = {sup}
  SrvSizes = {srv}
  MaxSrvWrites = {maxw}
  ReadSizes = {rs}
  IntoSizes = {ins}
  MfSizes = {mfs}
  SendSizes = {ss}
  Segs = {segs}
  HsSegs = {hsegs}
  Misc = {misc}
  ReadFns = {rfns}
  IdleEnvAt = {idle}
  MaxOps = {maxops}
  MaxTimeouts = {maxt}
  Bug = "{bug}"
  ShardK = {K}
  ShardS = {S}
  EmitOn = {emit}
{invs}
CHECK_DEADLOCK FALSE
"""
TRACE_CFG = MC_CFG.replace("SPECIFICATION Spec", "SPECIFICATION TSpec").replace("  ShardK = {K}\n  ShardS = {S}\n  EmitOn = {emit}\n", "")
ALLMISC = '{"unwrap", "settimeout", "gettimeout"}'
BASE = dict(sup="{TRUE, FALSE}", srv="{2}", maxw=2, rs="{1, 8}", ins="{0}", mfs="{1, 3}", ss="{}", segs="{1, 99}",
            hsegs="{99}", misc="{}", rfns='{"recv", "recv_into", "mf_read"}', idle="{1}", maxops=2, maxt=0)
PLANS = {
    # every way of reading x every segmentation of up to two records x clean / ragged / mid-record EOF
    "reads": dict(BASE, mfs="{3}"),
    # send / sendall / unwrap / close / timeouts around one record
    "writes": dict(BASE, maxw=1, rs="{8}", rfns='{"recv", "recv_into", "mf_read"}', ins="{1}", mfs="{1}", ss="{8}",
                   misc=ALLMISC, maxt=1),
    # the handshake in __init__ under every segmentation of the server's flight, EOF and timeout
    "handshake": dict(BASE, hsegs="{1, 3, 99}", maxops=0, idle="{}", rfns="{}", rs="{}", ins="{}", mfs="{}"),
    # thorough: deeper
    "reads3": dict(BASE, rs="{0, 1, 8}", ins="{0, 2}", mfs="{1, 3}", segs="{1, 2, 99}"),
    "writes3": dict(BASE, maxw=1, rs="{8}", rfns='{"recv", "read"}', ins="{}", mfs="{}", ss="{1, 9}", misc=ALLMISC,
                    maxt=1, maxops=3),
    "mixed": dict(BASE, srv="{1, 2}", rs="{8}", ins="{1}", mfs="{3}", ss="{8}", misc=ALLMISC, maxt=1),
    "bugs": dict(BASE, maxw=1, rs="{8}", ins="{0}", mfs="{3}", ss="{8}", misc=ALLMISC, maxt=1, sup="{FALSE}"),
}


def mc_cfg(plan, hsrecs, invs, bug="none", K=1, S=0, emit=False):
    return MC_CFG.format(hsrecs=hsrecs, bug=bug, K=K, S=S, emit="TRUE" if emit else "FALSE",
                         invs="\n".join("INVARIANT " + i for i in invs), **PLANS[plan])


def measure_hsrecs():
    """How many TLS records the real server's handshake flight has (a fact about OpenSSL, not urllib3)."""
    notes = []
    srv = Server(pn.World.get(), notes.append)
    cli_in, cli_out = ssl.MemoryBIO(), ssl.MemoryBIO()
    obj = ssl.create_default_context(cafile=pn.World.get().ca_path).wrap_bio(cli_in, cli_out, server_hostname=HOST)
    try:
        obj.do_handshake()
    except ssl.SSLWantReadError:
        pass
    srv.feed(cli_out.read())
    n = len(srv.records)
    if not 1 <= n <= 12:
        raise tlc.MachineryError(f"cannot measure the server's handshake flight ({n} records)")
    return n


PROJ = {"op": ("fn", "n"), "call": ("fn", "res"), "ssend": ("res",), "srecv": ("res",), "sclose": (), "ssettimeout": ("v",),
        "sgettimeout": ("v",), "env": ("fn", "n"), "srvgot": ("res", "n", "data"), "ret": ("fn", "res", "exc", "kind", "n", "data")}


def project(e):
    out = {"ev": e["ev"], "op": e["op"]}
    for f in PROJ.get(e["ev"], ()):
        out[f] = list(e[f]) if f == "data" else e[f]
    if e["ev"] == "call" and e["res"] == "ret" and e["fn"] in ("read", "write"):
        out["n"] = e["n"]
    if e["ev"] in ("ssend", "srecv"):
        out["moved"] = e["n"] > 0
    return out


def diff(expected, got):
    for i, (a, b) in enumerate(zip(expected, got)):
        pa, pb = project(a), project(b)
        if pa != pb:
            return f"event {i + 1}: model {pa}, real {pb}"
    if len(expected) != len(got):
        longer, who = (expected, "model") if len(expected) > len(got) else (got, "real run")
        return f"only the {who} goes on after event {min(len(expected), len(got))}: {project(longer[min(len(expected), len(got))])}"
    return None


def norm_sc(sc):
    for e in sc["log"]:
        e["data"] = list(e["data"])
    for s in sc["steps"]:
        if s["t"] == "op" and s["fn"] == "recv_into":
            s["buf"] = 4
        if s["t"] == "env" and s["a"] == "close":
            s["a"] = "close"
    return sc


def sc_key(sc):
    return hashlib.md5(json.dumps([sc["cfg"], [[s["t"], s["fn"], s["n"], s["a"], s["u"], s["between"]] for s in sc["steps"]]],
                                  sort_keys=True).encode()).hexdigest()[:16]


def nontrivial(sc):
    return any(s["t"] in ("env", "timeout") or (s["t"] == "recv" and s["u"] not in (99,)) for s in sc["steps"]) and \
        sum(1 for s in sc["steps"] if s["t"] == "op") > 2


def validate(traces, hsrecs):
    if not traces:
        return []
    cfg = TRACE_CFG.format(hsrecs=hsrecs, bug="none", invs="", **PLANS["reads"])
    r = tlc.run("SSLTransport_Trace", cfg, workers=1, files={"traces.json": json.dumps(traces)},
                env={"TRACE_FILE": "traces.json"}, timeout=3600, heap="2g")
    ver = {t[0]: t for t in tlc.tagged_tuples(r.out, "VERDICT")}
    if len(ver) != len(traces):
        raise tlc.MachineryError(f"SSLTransport_Trace: {len(ver)} verdicts for {len(traces)} traces\n{r.out[-2000:]}")
    return [(ver[i + 1][1], ver[i + 1][2]) for i in range(len(traces))]


def _emit(args):
    plan, hsrecs, K, S = args
    r = tlc.run("MC_SSLTransport", mc_cfg(plan, hsrecs, ["Emit"], K=K, S=S, emit=True), workers=1, timeout=7200, heap="2g")
    scs = [norm_sc(sc) for sc in tlc.tagged_json(r.out, "SC")]
    for sc in scs:
        sc["origin"] = plan
    return {"plan": plan, "scs": scs, "distinct": r.distinct, "generated": r.generated, "wall": r.wall}


def _stage1(args):
    name, plan, hsrecs, invs, bug, cov = args
    r = tlc.run("MC_SSLTransport", mc_cfg(plan, hsrecs, invs, bug=bug), workers=max(1, min(2, J // 4)), coverage=cov,
                timeout=7200, heap="3g", expect_fail=True)
    return {"name": name, "plan": plan, "bug": bug, "distinct": r.distinct, "generated": r.generated, "depth": r.depth,
            "wall": r.wall, "violated": r.violated, "error": r.error, "coverage": r.coverage, "tail": r.out[-1500:]}


def _drive(scs):
    return [run_schedule(sc) for sc in scs]


def _validate(args):
    return validate(*args)


def chunks(xs, n):
    step = max(1, -(-len(xs) // max(1, n)))
    return [xs[i:i + step] for i in range(0, len(xs), step)]


def corrupted(scenarios):
    """Monitor self-test: the model's own expected logs, corrupted in one field, must be rejected by TLC with
    exactly the clause the field belongs to."""
    import copy
    out = []

    def pick(pred):
        for sc in scenarios:
            if pred(sc):
                return sc
        raise tlc.MachineryError("monitor self-test: no base schedule among the emitted ones")

    def has(sc, p):
        return any(p(e) for e in sc["log"])

    def mutate(sc, sel, change, clause):
        log = copy.deepcopy(sc["log"])
        change(next(e for e in log if sel(e)))
        out.append(({"cfg": sc["cfg"], "events": log}, clause))

    readret = lambda e: e["ev"] == "ret" and e["fn"] in READS and e["data"]                      # noqa: E731
    rd = pick(lambda sc: has(sc, readret))
    mutate(rd, readret, lambda e: e.update(data=[(x + 1) % 251 for x in e["data"]]), "PlaintextInOrderNoLossNoDup")
    mutate(rd, lambda e: e["ev"] == "ssend", lambda e: e.update(plain=9), "NoPlaintextOnWire")
    snd = pick(lambda sc: has(sc, lambda e: e["ev"] == "srvgot" and e["res"] == "data"))
    mutate(snd, lambda e: e["ev"] == "srvgot" and e["res"] == "data", lambda e: e.update(data=e["data"][:-1], n=e["n"] - 1),
           "PlaintextInOrderNoLossNoDup")
    eof = pick(lambda sc: not sc["cfg"]["suppress"] and has(sc, lambda e: e["ev"] == "ret" and e["exc"] == "SSLEOFError"
                                                              and e["fn"] == "recv"))
    mutate(eof, lambda e: e["ev"] == "ret" and e["exc"] == "SSLEOFError",
           lambda e: e.update(res="ok", exc="", kind="int", n=0), "EOFHandling")
    mutate(eof, lambda e: e["ev"] == "srecv" and e["res"] == "eof", lambda e: e.update(res="data", n=0), "NoBusyLoop")
    cl = pick(lambda sc: has(sc, lambda e: e["ev"] == "sclose"))
    mutate(cl, lambda e: e["ev"] == "sclose", lambda e: e.update(ev="ssettimeout"), "CloseOrder")
    tm = pick(lambda sc: has(sc, lambda e: e["ev"] == "ssettimeout"))
    mutate(tm, lambda e: e["ev"] == "ssettimeout", lambda e: e.update(v=7), "TimeoutPropagates")
    return out


# --------------------------------------------------------------------------------------- the check

def _book(rep, sc, events, results, notes, pos, clause, d):
    rep.traces += 1
    rep.evaluations += 1
    if nontrivial(sc):
        rep.nontrivial.add(sc_key(sc))
    case = {"kind": "schedule", "schedule": {"cfg": sc["cfg"], "steps": sc["steps"], "log": sc.get("log")},
            "recorded": events}
    where = f"schedule {sc_key(sc)} ({sc.get('origin', '?')}: " + \
            " ".join(s["fn"] + (f"({s['n']})" if s["n"] else "") for s in sc["steps"] if s["t"] == "op") + ")"
    if clause != "ok":
        ev = events[pos - 1] if 0 < pos <= len(events) else {}
        what = f"SSLTransport {clause} at event {pos} { {k: v for k, v in ev.items() if v != BLANK.get(k)} } in {where}"
        if clause in HARD:
            rep.violation(clause, what, case)
        else:
            rep.drift.append(what)
            rep.extra.setdefault("ssltransport_rule_breaks", {}).setdefault(clause, 0)
            rep.extra["ssltransport_rule_breaks"][clause] += 1
    elif notes:
        rep.drift.append(f"SSLTransport: {notes[0]} in {where}")
    elif d:
        rep.drift.append(f"SSLTransport: {d} in {where}")


def run(rep):
    quick = rep.tier == "quick"
    rep.extra_module = "vh.ssltransport"      # replay files of this module name it, whichever check wrote them
    world = pn.World.get()
    world.server_ctx("good", HOST)
    rep.rule = (rep.rule + " | " if rep.rule else "") + \
        ("SSLTransport: a schedule is one TLC behaviour of spec/SSLTransport.tla (API calls, peer actions, units per "
         "socket.recv, timeouts) replayed on the real SSLTransport; non-trivial = more than one API call after __init__ "
         "with a peer action, a timeout or a split record")
    plans = ["reads", "writes", "handshake"] if quick else ["reads3", "writes3", "mixed", "handshake"]
    K = 1 if quick else 4
    nproc = min(J, 8 if quick else 16)
    try:
        hsrecs = measure_hsrecs()
        rep.extra["ssltransport_hs_records"] = hsrecs
        with mp.Pool(nproc) as pool:
            emis = pool.map_async(_emit, [(p, hsrecs, K, s) for p in plans for s in range(K)])
            # the whole-log verdict at every finished state is quadratic in the log: only on the smaller plans
            s1jobs = [(f"MC_SSLTransport[{p}]", p, hsrecs,
                       [i for i in INVS if i != "WholeLogVerdictOk" or not p.startswith("reads")], "none", True)
                      for p in plans]
            s1jobs += [(f"MC_SSLTransport[bugs,Bug={b}]", "bugs", hsrecs, [c], b, False) for b, c in BUGS.items()]
            s1 = pool.map_async(_stage1, s1jobs)
            scenarios, seen, emitted = [], set(), 0
            for o in emis.get():
                emitted += len(o["scs"])
                rep.stage1.append({"run": f"SSLTransport emission {o['plan']}", "distinct_states": o["distinct"],
                                   "states_generated": o["generated"], "wall_s": round(o["wall"], 1),
                                   "scenarios": len(o["scs"])})
                for sc in o["scs"]:
                    if sc_key(sc) not in seen:
                        seen.add(sc_key(sc))
                        scenarios.append(sc)
            if emitted < (1000 if quick else 10000):
                raise tlc.MachineryError(f"SSLTransport: only {emitted} schedules emitted")
            runs = [r for part in pool.map(_drive, chunks(scenarios, nproc * 4)) for r in part]
            if len(runs) != len(scenarios):
                raise tlc.MachineryError(f"SSLTransport: replayed {len(runs)} of {len(scenarios)} schedules")
            traces = [{"cfg": sc["cfg"], "events": r[0]} for sc, r in zip(scenarios, runs)]
            probes = corrupted(scenarios)
            parts = chunks(traces + [t for t, _ in probes], min(J, 4 if quick else 12))
            verdicts = [v for part in pool.map(_validate, [(p, hsrecs) for p in parts]) for v in part]
            for (_, want), (pos, clause) in zip(probes, verdicts[len(traces):]):
                if clause != want:
                    raise tlc.MachineryError(f"SSLTransport monitor self-test: a log corrupted to break {want} was judged {clause}")
            rep.extra["ssltransport_monitor_selftest_rejected"] = len(probes)
            for sc, (events, results, notes), (pos, clause) in zip(scenarios, runs, verdicts):
                _book(rep, sc, events, results, notes, pos, clause, diff(sc["log"], events))
            if scenarios:
                sc, (events, _, _) = next(((s, r) for s, r in zip(scenarios, runs) if nontrivial(s)), (scenarios[0], runs[0]))
                rep.sample({"ssltransport_schedule": [{k: v for k, v in s.items() if v not in ("", 0, False)} for s in sc["steps"]],
                            "recorded": [{k: v for k, v in e.items() if v != BLANK[k]} for e in events][:40]}, cap=8)
            rep.extra["ssltransport_schedules"] = len(scenarios)
            cov = {}
            for o in s1.get():
                rep.stage1.append({"run": o["name"], "distinct_states": o["distinct"], "states_generated": o["generated"],
                                   "depth": o["depth"], "wall_s": round(o["wall"], 1), "violated": o["violated"]})
                if o["error"]:
                    raise tlc.MachineryError(f"{o['name']}: {o['error']}\n{o['tail']}")
                if o["bug"] == "none":
                    rep.states += o["distinct"]
                    rep.transitions += o["generated"]
                    if o["violated"]:
                        rep.drift.append(f"SSLTransport design model: TLC reports {o['violated']} in {o['name']}")
                    for a, (_, tot) in o["coverage"].items():
                        cov[a] = cov.get(a, 0) + tot
                elif o["violated"] != [BUGS[o["bug"]]]:
                    raise tlc.MachineryError(f"{o['name']}: the deviation should be refuted with {BUGS[o['bug']]}, TLC "
                                             f"reported {o['violated']} (vacuous or mis-stated clause)")
            dead = [a for a, t in cov.items() if t == 0]
            if dead or len(cov) < 15:
                raise tlc.MachineryError(f"SSLTransport: actions never taken in any plan: {dead} ({len(cov)} actions seen)")
            rep.extra["ssltransport_action_coverage"] = cov
            rep.extra["ssltransport_deviations_refuted"] = sorted(BUGS)
    finally:
        shutil.rmtree(world.dir, ignore_errors=True)
    return rep


def run_stage(rep):
    """Extra stage of C09: the TLS-in-TLS transport under the tunnelled request."""
    rep.extra_module = "vh.ssltransport"
    try:
        keep_rule, keep_samples = rep.rule, list(rep.samples)
        run(rep)
        rep.extra["ssltransport_rule"] = rep.rule
        rep.rule, rep.samples = keep_rule, keep_samples or rep.samples
    finally:
        rep.extra_module = None
    return rep


def replay(rep, path):
    case = json.load(open(path))["case"]
    sc = case["schedule"]
    world = pn.World.get()
    try:
        hsrecs = measure_hsrecs()
        events, results, notes = run_schedule(sc)
        (pos, clause), = validate([{"cfg": sc["cfg"], "events": events}], hsrecs)
        rep.rule = "replay of one recorded schedule"
        rep.nontrivial.update({1, 2})
        rep.states = rep.transitions = 1
        _book(rep, sc, events, results, notes, pos, clause, diff(sc["log"], events) if sc.get("log") else None)
    finally:
        shutil.rmtree(world.dir, ignore_errors=True)
