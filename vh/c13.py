"""C13 -- a cut-off or corrupt response is never presented as complete.

See vh/bodycheck.py for the four stages.  This module holds the C13 plans: every response of C12's generator is
damaged (cut at every wire position, malformed chunk-size lines, single-byte corruption / truncation of the
compressed stream), consumed through every read API (optionally after another call), the response is dropped and
a second request goes through the same pool.  The verdict on every trace is TLC's (Body_Trace.tla):
CutNeverComplete, MalformedChunkRaises, UndecodableRaises, ConnNotReused, OnlyUrllib3Errors, and the C12 clauses
on whatever was delivered before the error.
"""
from __future__ import annotations

import random
from concurrent.futures import ThreadPoolExecutor

from . import bodycheck as bc
from . import bodygen as bg
from . import known, tlc

APIS = [("read", 0), ("readn", 7), ("read1n", 9), ("read1", 0), ("readinto", 11), ("stream", 16), ("chunked", 16),
        ("iter", 0), ("data", 0), ("readn", 1000), ("stream", 0), ("chunked", 0)]
PREFIX = [None, ("readn", 3), ("read1n", 7), ("read1", 0), ("readinto", 2), ("read0", 0)]


def api_run(case, api, prefix=None):
    """One damaged response consumed through one API (after an optional other call)."""
    op, n = api
    framing = case["framing"]
    if op == "chunked" and framing != "chunked":
        return None
    if op == "iter" and not case.get("decode", True):
        return None
    if op == "data":
        return {"case": case, "ops": [], "drain": None, "preload": True}
    if op in ("stream", "chunked", "iter"):
        if prefix and (framing == "chunked" or op == "iter" or n == 0):
            prefix = None                      # generators on chunked bodies / iteration are not mixed with other calls
                                               # (stream(None) after a partial read is C12's D6 probe)
    ops = ([prefix] if prefix else []) + [(op, n)]
    return {"case": case, "ops": ops, "drain": (op, n), "preload": False}


def enumerate_damage(base, quick, rng):
    """All damages of one base response: every cut position; every chunk-size line malformed three ways; the
    compressed stream corrupted (stride) and truncated (stride)."""
    b0 = bg.build(base)
    nw = len(b0["wire"])
    out = [{"kind": "cut", "at": at} for at in range(nw)]
    if base["framing"] == "chunked":
        nsz = len([x for x in b0["layout"] if x[0] == "size"])
        for i in range(nsz if not quick else min(nsz, 3)):
            for byte in ("g", "Z", "@") if not quick else ("g",):
                out.append({"kind": "badsize", "at": i, "digit": rng.randrange(4), "byte": byte})
            out.append({"kind": "negsize", "at": i})
            out.append({"kind": "emptysize", "at": i})
    if base["coding"] != "identity":
        ne = len(b0["enc"])
        stride = 5 if quick else 2
        for at in range(rng.randrange(stride), ne, stride):
            out.append({"kind": "corruptcode", "at": at, "xor": rng.choice([0x55, 0x01, 0x80, 0xff])})
        for at in range(1 + rng.randrange(stride), ne, stride):
            out.append({"kind": "trunccode", "at": at})
    return out


SIZE_BYTES = ["X", 0, 0xff, "-", " ", ";"]


def sizebyte_runs(quick, seed):
    """Single-byte corruption of chunk-size lines: every byte position (digits, extension, CR, LF) of the chosen
    lines -- always the first, a middle one and the terminating zero-size chunk line -- replaced in turn by each of
    X, NUL, 0xff, '-', ' ', ';', consumed through the APIs (both chunk parsers)."""
    rng = random.Random(seed * 7331 + 5)
    runs = []
    codings = ["identity", "gzip"] if quick else ["identity", "gzip", "zstd-mf", "deflate", "gzip,zstd"]
    for coding in codings:
        for variant in range(1 if quick else 3):
            base = {"size": [40, 13, 120][variant], "pseed": seed * 10 + variant + 3, "coding": coding, "framing": "chunked",
                    "chunks": ["rand", "sevens", "big"][variant], "ext": variant != 1, "decode": True,
                    "seg": [None, 7, 100][variant]}
            b0 = bg.build(base)
            lines = [x for x in b0["layout"] if x[0] in ("size", "last")]
            nl = len(lines)
            chosen = sorted({0, nl // 2, nl - 1} | (set() if quick else set(rng.sample(range(nl), min(nl, 4)))))
            for li in chosen:
                for pos in range(lines[li][2] - lines[li][1]):
                    for byte in SIZE_BYTES:
                        rep = byte if isinstance(byte, int) else ord(byte)
                        if b0["wire"][lines[li][1] + pos] == rep:
                            continue
                        case = dict(base, damage={"kind": "sizebyte", "line": li, "pos": pos, "byte": byte})
                        for api in rng.sample(APIS, 2 if quick else 4):
                            r = api_run(case, api, None)
                            if r is not None:
                                runs.append(r)
    return runs


def enumerated_runs(quick, seed):
    rng = random.Random(seed * 104729 + 13)
    codings = ["identity", "gzip", "zstd", "zstd-mf", "gzip,zstd", "deflate"] if quick else bg.CODINGS
    runs = []
    for coding in codings:
        for framing in bg.FRAMINGS:
            for variant in range(1 if quick else 3):
                base = {"size": [40, 13, 120][variant], "pseed": seed * 10 + variant, "coding": coding, "framing": framing,
                        "chunks": ["rand", "sevens", "big"][variant], "ext": variant != 1, "decode": True,
                        "seg": [None, 7, 100][variant]}
                for dmg in enumerate_damage(base, quick, rng):
                    case = dict(base, damage=dmg)
                    apis = rng.sample(APIS, 2 if quick else 6)
                    for api in apis:
                        prefix = rng.choice(PREFIX) if rng.random() < 0.4 else None
                        r = api_run(case, api, prefix)
                        if r is not None:
                            runs.append(r)
    # decode_content=False: only the framing can tell
    for framing in ("cl", "chunked"):
        base = {"size": 30, "pseed": seed, "coding": "gzip", "framing": framing, "chunks": "rand", "ext": True,
                "decode": False, "seg": None}
        for at in range(len(bg.build(base)["wire"])):
            for api in (("read", 0), ("readn", 7), ("read1", 0), ("stream", 16)):
                runs.append(api_run(dict(base, damage={"kind": "cut", "at": at}), api))
    runs += bc.large_runs(True, quick, seed)               # the LARGE size class (> 1 MiB of Content-Length)
    runs += sizebyte_runs(quick, seed)                     # every byte of chunk-size lines x six replacement bytes
    rng.shuffle(runs)
    return runs


def run(rep):
    quick = rep.tier == "quick"
    findings = known.load("C13")
    counters = bc.new_counters()
    rep.rule = ("a case = one damaged real HTTPResponse consumed by a call pattern, followed by a second request on the "
                "same pool, judged by TLC (Body_Trace.tla); every case is non-trivial (damage); distinct by (coding, "
                "framing, size, damage kind and position, seg, first six calls)")
    rep.assumptions = ["zlib / zstandard streaming decoders are the independent judges of 'undecodable' / 'incomplete'",
                       "after the failing call the response object is dropped, then the second request is made",
                       "cuts inside the last-chunk line / trailer, close-delimited bodies without a strict coding, "
                       "truncated gzip/deflate with complete framing, garbage after a complete gzip member are EITHER",
                       "enforce_content_length default; TLC 1.8 and CPython 3.12 http.client are trusted"]
    sc = "ScC13Tiny" if quick else "ScC13"
    need = ["Read", "ReadNOp", "Read1N", "Read1All", "ReadInto", "Stream", "ChunkedOp", "Iter", "Preload", "Dispose",
            "NextRequest"]
    base = dict(sc=sc, dk="AllDamage", amts="A27", amts1="A7", into="A3", gen="A27", maxops=3)
    plans = [("repaired design, damaged responses",
              dict(base, sc="ScC13S1", maxops=3, _workers=max(2, bc.JOBS // 2)) if quick else
              dict(base, sc="ScC13S1", maxops=6, after=2, amts="AFull", amts1="A1237", gen="A1237", _cov=True, _need=need), None)]
    for d in ("JustD11", "JustF1", "JustF2", "JustF3", "JustF4"):
        plans.append((f"deviation {d[4:]} exhibited", dict(base, sc="ScC13Dev" if quick else "ScC13", maxops=3, kd=d),
                      bc.DEFECT_CLAUSES[d]))
    plans.append(("deviation PiecewiseReadHidesCut refuted", dict(base, sc="ScLarge", maxops=3, kd="JustPW"),
                  bc.DEFECT_CLAUSES["JustPW"]))
    plans.append(("deviation SizeLinePrefixAccepted refuted", dict(base, sc="ScC13Dev", maxops=3, kd="JustSLP"),
                  bc.DEFECT_CLAUSES["JustSLP"]))
    plans.append(("liveness: an owed error arrives", dict(spec="LiveSpec", sc="ScC13Tiny", dk="AllDamage", amts="A2", amts1="A2",
                                                          into="A2", gen="A2", maxops=30, after=0, body=bc.LIVE_BODY), None))
    J = bc.JOBS
    eruns = enumerated_runs(quick, rep.seed)
    with bc.make_pool() as pool, ThreadPoolExecutor(2) as tp:
        if J > 4:
            f1 = tp.submit(bc.stage1, plans)
            f2 = tp.submit(bc.emit, base, max(2, J // 2))
            bc.run_all(rep, pool, eruns, findings, counters, "enumerated damage x API", per=max(150, -(-len(eruns) // (2 * J))) if quick else 1500)
            r2, groups, nlines = f2.result()
            bc.account_stage1(rep, f1.result())
        else:
            bc.account_stage1(rep, bc.stage1(plans))
            r2, groups, nlines = bc.emit(base, J)
            bc.run_all(rep, pool, eruns, findings, counters, "enumerated damage x API", per=max(150, -(-len(eruns) // (2 * J))) if quick else 1500)
        rep.stage1.append({"run": "emission " + sc, "distinct_states": r2.distinct, "states_generated": r2.generated,
                           "depth": r2.depth, "wall_s": round(r2.wall, 1), "behaviours_emitted": nlines,
                           "op_sequences": len(groups) - 1})
        rep.extra["api_calls_in_emitted_sequences"] = bc.api_coverage(
            groups, ["read", "readn", "read1n", "read1", "readinto", "stream", "chunked", "iter", "data"])
        variants = [{"scale": 1, "seg": None, "pseed": 1}] if quick else \
            [{"scale": 1, "seg": None, "pseed": 1}, {"scale": 1, "seg": 2, "pseed": 2, "ext": True, "byte": "Z"},
             {"scale": 700, "seg": 4096, "pseed": 3, "inner": "deflate"}]
        mruns, skipped = bc.runs_from_groups(groups, variants, rep.seed)
        if len(mruns) + skipped != (len(groups) - 1) * len(variants) or not mruns:
            raise tlc.MachineryError(f"emitted {len(groups) - 1} op sequences x {len(variants)} variants but built {len(mruns)} + {skipped}")
        done = bc.run_all(rep, pool, mruns, findings, counters, "model op sequences",
                          per=max(200, -(-len(mruns) // (2 * J))) if quick else 1500)
        if done + counters["generr"] < len(mruns):
            raise tlc.MachineryError(f"replayed {done} of {len(mruns)} model op sequences")
    must = counters["cls"].get("must", 0)
    if must == 0 or counters["cls"].get("either", 0) == 0:
        raise tlc.MachineryError(f"no must-raise / either responses were exercised: {counters['cls']}")
    rep.extra["model_op_sequences"] = len(groups) - 1
    rep.extra["model_behaviours"] = nlines
    rep.extra["unrealizable_skipped"] = skipped
    rep.exhaustive = True
    bc.finish(rep, counters)


def replay(rep, path):
    bc.replay_case(rep, "C13", path)
