"""REDIRMETA — growth module of C05: the observable metadata of a redirect chain (spec/RedirectMeta.tla).

What callers rely on but no listed clause names: response.retries (counters and the history of RequestHistory
entries), response.url, MaxRetryError.url/.pool/.reason, HostChangedError.url/.pool/.retries, and the caller's own
Retry objects after the call.

stage 1  TLC checks RedirectMeta (Redirect's Model composed with the history variables) : with the two named
         deviations of the code on, the metadata Rules fail only inside the deviations' input classes
         (MetaOnlyNamedQuirks) and both classes are reachable; with them off every metadata clause holds
stage 2  TLC emits scenarios with the expected metadata (MC_RedirectMeta)
stage 3  vh/redirdrv.py executes them on the real clients; the observer below records what the caller received
stage 4  TLC (RedirectMeta_Trace) prints per trace: hard verdict (C05/C06 Rules), metadata verdict (MetaClause on
         the observed wire log), drift (difference from the Model's expected requests / metadata)
Reporting: hard -> VIOLATION; drift -> MODEL-DRIFT; a metadata clause failing inside a named class with no drift is
the recorded behaviour of the code (counted in the evidence, described in the module docstring of the spec).
"""
from __future__ import annotations

import json
import multiprocessing as mp
import re

from . import redirdrv as D
from . import tlc

AS_IS = '{"HistMethodAfterRewrite", "UrlIsRawLocation"}'
QUIRKS = {"HistoryMatchesWire@method-after-303": "the RequestHistory entry of a hop answered by 303 carries the rewritten method "
                                                 "GET, not the method that was sent (increment runs after the rewrite)",
          "FinalUrlIsLastRequested@relative-location": "response.url is history[-1].redirect_location as received: after a "
                                                       "relative Location it is a relative reference, not the URL fetched"}
_ABS = re.compile(r"^(https?)://([^/:?#]+)(?::(\d+))?(/[^?#]*)?$")
_SREL = re.compile(r"^//([^/:?#]+)(?::(\d+))?(/[^?#]*)?$")
NOLOC = {"form": "none", "scheme": "", "host": "", "port": 0, "path": []}


def enc_loc(s):
    """A URL string as the caller sees it -> [form, scheme, host, port, path segments] (pure re-encoding)."""
    if s is None:
        return dict(NOLOC)
    m = _ABS.match(s)
    if m:
        return {"form": "abs", "scheme": m.group(1), "host": m.group(2), "port": int(m.group(3) or 0),
                "path": (m.group(4) or "/").split("/")[1:]}
    m = _SREL.match(s)
    if m:
        return {"form": "schemerel", "scheme": "", "host": m.group(1), "port": int(m.group(2) or 0),
                "path": (m.group(3) or "/").split("/")[1:]}
    if s.startswith("/"):
        return {"form": "pathabs", "scheme": "", "host": "", "port": 0, "path": s.split("/")[1:]}
    return {"form": "rel", "scheme": "", "host": "", "port": 0, "path": s.split("/")}


def _num(x):
    return D.NONE if x is None else D.FALSE if x is False else int(x)


def _counters(r):
    return {"total": _num(r.total), "redirect": _num(r.redirect), "connect": _num(r.connect), "read": _num(r.read),
            "status": _num(r.status), "other": _num(r.other), "histlen": len(r.history),
            "raise": bool(r.raise_on_redirect), "remove": sorted(r.remove_headers_on_redirect)}


def observer(result, error, rpol, cpol, before):
    """First call (before is None, nothing ran yet): snapshot the caller's Retry objects.  Second call: everything
    the caller received."""
    from urllib3.util.retry import Retry
    mine = [p for p in (rpol, cpol) if isinstance(p, Retry)]
    if before is None:
        return [_counters(p) for p in mine]
    m = {"url": dict(NOLOC), "hasretries": False, "total": D.NONE, "redirect": D.NONE, "connect": D.NONE, "read": D.NONE,
         "status": D.NONE, "other": D.NONE, "hist": [], "eurl": dict(NOLOC), "epool": ["", "", 0], "reason": "",
         "callers": [{"before": b, "after": _counters(p)} for b, p in zip(before, mine)]}
    retries = None
    if result is not None:
        m["url"] = enc_loc(result.url)
        retries = result.retries
    elif error is not None:
        m["eurl"] = enc_loc(getattr(error, "url", None))
        pool = getattr(error, "pool", None)
        if pool is not None:
            m["epool"] = [pool.scheme, pool.host, int(pool.port or 0)]
        reason = getattr(error, "reason", None)
        m["reason"] = str(reason) if reason is not None else ""
        retries = getattr(error, "retries", None)
    if retries is not None:
        c = _counters(retries)
        m.update(hasretries=True, **{k: c[k] for k in ("total", "redirect", "connect", "read", "status", "other")})
        m["hist"] = [{"method": h.method or "", "url": enc_loc(h.url), "error": h.error is not None, "status": int(h.status or 0),
                      "loc": enc_loc(h.redirect_location)} for h in retries.history]
    return m


def meta_cfg(**kw):
    return D.mc_cfg(**kw).replace("SPECIFICATION Spec", "SPECIFICATION MetaSpec").replace("VIEW View", "VIEW MetaView")


TRACE_CFG = D.TRACE_CFG.replace("SPECIFICATION TSpec", "SPECIFICATION MTSpec")
FREE = dict(family="metafree", maxhops=2, codes="{303, 307}", alpha="small")
FREE_T = dict(family="metafree", maxhops=3, codes=D.ALL_CODES, alpha="small")


def stage1_jobs(rep):
    free = FREE if rep.tier == "quick" else FREE_T
    return [("meta as-is: failures only inside the named classes",
             meta_cfg(dev=AS_IS, invs=["MetaOnlyNamedQuirks", "HistoryLength", "ClausesKnown", "WireBound"],
                      props=["HistoryOnlyGrows"], **free), (), None),
            ("meta design (no deviation): every metadata clause holds",
             meta_cfg(dev="{}", invs=["MetaRulesHold", "HistoryLength"], **dict(free, client="pm" if rep.tier == "quick" else "all")),
             (), None),
            ("meta gate: the class method-after-303 is reachable as-is",
             meta_cfg(dev=AS_IS, client="pm", invs=["NoQuirkMethod"], **FREE), (), ["NoQuirkMethod"]),
            ("meta gate: the class relative-location is reachable as-is",
             meta_cfg(dev=AS_IS, client="pm", invs=["NoQuirkUrl"], **FREE), (), ["NoQuirkUrl"])]


def _stage1(args):
    name, cfg_text, extra, expect = args
    r = tlc.run("MC_RedirectMeta", cfg_text, workers=2 if (expect is None and D.JOBS >= 8) else 1, heap="2g", extra=extra,
                expect_fail=expect is not None, timeout=7200)
    return {"run": name, "expect": expect, "violated": sorted(set(r.violated)), "error": r.error, "distinct": r.distinct,
            "generated": r.generated, "depth": r.depth, "wall": r.wall}


def validate(traces):
    if not traces:
        return 0, []
    slim = [{k: v for k, v in t.items() if k != "exc"} for t in traces]
    r = tlc.run("RedirectMeta_Trace", TRACE_CFG, workers=1, files={"traces.json": json.dumps(slim)},
                env={"TRACE_FILE": "traces.json"}, timeout=3600)
    vs = []
    for ln in r.out.splitlines():
        if ln.startswith('"VERDICT|') and ln.endswith('"'):
            f = ln[1:-1].split("|")
            vs.append((int(f[1]), f[2], f[3], f[4]))
    vs.sort()
    if [v[0] for v in vs] != list(range(1, len(traces) + 1)) or any(len(v) != 4 for v in vs):
        raise tlc.MachineryError(f"meta trace validation: {len(vs)} verdicts for {len(traces)} traces\n{r.out[-2000:]}")
    return r.distinct, vs


_SC = '<<"SC", "'


def _emit(args):
    cfg_text, simulate, seed = args
    traces = []

    def on_line(ln):
        if not ln.startswith(_SC):
            return False
        if not ln.endswith('">>'):
            raise tlc.MachineryError("truncated scenario line: " + ln[:200])
        sc = json.loads(D._unq(ln[len(_SC):-3]))
        if sc["bad"] != "ok" or not (sc["metabad"] == "ok" or sc["metabad"] in QUIRKS):
            raise tlc.MachineryError(f"the Model violates its Rules in an emitted scenario: {sc['bad']} {sc['metabad']}")
        traces.append(D.run_scenario(sc, (), observer))
        return True

    if simulate:
        r = tlc.run("MC_RedirectMeta", cfg_text, workers=1, on_line=on_line, simulate=f"num={simulate}", depth=60, seed=seed,
                    timeout=7200, expect_fail=True)
        if r.error or r.violated:
            raise tlc.MachineryError(f"TLC simulation failed: {r.error} {r.violated}\n{r.out[-1500:]}")
    else:
        r = tlc.run("MC_RedirectMeta", cfg_text, workers=1, on_line=on_line, timeout=7200)
        m = D._INIT.search(r.out)
        if r.violated or not m or int(m.group(1)) != len(traces):
            raise tlc.MachineryError(f"meta emission incomplete or failed: {r.violated} {m and m.group(1)} vs {len(traces)}")
    vstates, verdicts = 0, []
    for i in range(0, len(traces), 4000):
        n, vs = validate(traces[i:i + 4000])
        vstates += n
        verdicts += [(tid + i, h, mt, d) for tid, h, mt, d in vs]
    rows = []
    tags = {}
    for tid, hard, mt, drift in verdicts:
        tr = traces[tid - 1]
        for t in (("history>=2",) if len(tr["meta"]["hist"]) >= 2 else ()) + ("out:" + tr["outcome"]["kind"], "client:" + tr["cfg"]["client"]):
            tags[t] = tags.get(t, 0) + 1
        if hard != "ok" or mt != "ok" or drift != "ok":
            rows.append((hard, mt, drift, tr if (hard != "ok" or drift != "ok" or len(rows) < 3) else None))
    keys = [D.scenario_key(t) for t in traces if t["hops"]]
    sample = next(({"cfg": t["cfg"], "hops": t["hops"], "outcome": t["outcome"], "metadata_received": t["meta"]}
                   for t in traces if len(t["meta"]["hist"]) >= 2), None)
    return {"n": len(traces), "rows": rows[:600], "nrows": len(rows), "tags": tags, "keys": keys, "sample": sample,
            "distinct": r.distinct, "generated": r.generated, "vstates": vstates}


def _describe(tr):
    m = tr["meta"]
    return (f"{tr['cfg']['client']} start={D.render_url(tr['cfg']['start'])} answers="
            f"{[(h['code'], D.render_location(h)) for h in tr['hops']]} requests="
            f"{[(D.render_url(w['url']), w['method']) for w in tr['wire']]} outcome={tr['outcome']} received: url={m['url']['form']}:"
            f"{'/'.join(m['url']['path'])} retries(total={m['total']}, redirect={m['redirect']}) history="
            f"{[(h['method'], h['status'], '/'.join(h['url']['path'])) for h in m['hist']]} eurl={m['eurl']['form']}:"
            f"{'/'.join(m['eurl']['path'])} epool={m['epool']} reason={m['reason']!r}")[:900]


def _report(rep, hard, mt, drift, tr, counts):
    case = {"kind": "meta-scenario", "scenario": {k: tr[k2] for k, k2 in (("cfg", "cfg"), ("hops", "hops"))} if tr else None}
    if tr is not None:
        case["scenario"].update(wire=tr["exp"]["wire"], outcome=tr["exp"]["outcome"], meta=tr["expmeta"]) if tr["hasexp"] else None
    if hard != "ok":
        rep.violation(hard, f"clause {hard} of the C05/C06 Rules fails: {_describe(tr)}", case)
    elif drift != "ok":
        rep.drift.append(f"REDIRMETA {drift} (metadata verdict: {mt}) {_describe(tr)}")
    elif mt in QUIRKS:
        counts[mt] = counts.get(mt, 0) + 1
    elif mt != "ok":
        # the Rules and the Model's expectation disagree outside the named classes: the specification is inconsistent
        raise tlc.MachineryError(f"metadata clause {mt} fails on a trace that conforms to the Model: {_describe(tr)}")


def run(rep):
    quick = rep.tier == "quick"
    K = 4 if quick else 16
    plan = dict(skb=101, lb=3, skh=7, lh=1) if quick else dict(skb=13, lb=6, skh=7, lh=1)
    nsim, nsimjobs = (200, 1) if quick else (4000, 4)
    jobs = [(meta_cfg(mode="planned", family="metaplanned", k=K, s=s, seed=rep.seed, view=False, alpha="full", dev=AS_IS,
                      invs=["MetaEmitInv", "MetaOnlyNamedQuirks", "ClausesKnown"], **plan), 0, 0) for s in range(K)]
    jobs += [(meta_cfg(mode="free", maxhops=6, family="sim", view=False, alpha="full", dev=AS_IS, ckh=7, seed=rep.seed, invs=["MetaEmitInv"]),
              nsim // nsimjobs, rep.seed * 100 + 50 + s) for s in range(nsimjobs)]
    s1 = stage1_jobs(rep)
    with mp.Pool(min(D.JOBS, len(jobs) + len(s1))) as pool:
        r1 = [pool.apply_async(_stage1, (j,)) for j in s1]
        r2 = [pool.apply_async(_emit, (j,)) for j in jobs]
        s1outs = [x.get() for x in r1]
        outs = [x.get() for x in r2]
    for o in s1outs:
        rep.stage1.append({"run": o["run"], "distinct_states": o["distinct"], "states_generated": o["generated"], "depth": o["depth"],
                           "wall_s": round(o["wall"], 2), "expected_violations": o["expect"], "reported": o["violated"]})
        if o["expect"] is None:
            rep.states += o["distinct"]
            rep.transitions += o["generated"]
            if o["violated"]:
                rep.drift.append(f"REDIRMETA stage 1 ({o['run']}): TLC reports {o['violated']} on the specification itself")
        elif o["violated"] != sorted(o["expect"]):
            raise tlc.MachineryError(f"REDIRMETA {o['run']}: expected {o['expect']}, TLC reported {o['violated']} {o['error']}")
    counts, tags, n = {}, {}, 0
    for o in outs:
        n += o["n"]
        rep.traces += o["n"]
        rep.evaluations += o["n"]
        rep.nontrivial.update("meta:" + k for k in o["keys"])
        for t, c in o["tags"].items():
            tags[t] = tags.get(t, 0) + c
        if o["sample"]:
            rep.sample(o["sample"], cap=3)
        for hard, mt, drift, tr in o["rows"]:
            if tr is None:
                counts[mt] = counts.get(mt, 0) + 1
            else:
                _report(rep, hard, mt, drift, tr, counts)
        if o["nrows"] > len(o["rows"]):
            rep.extra["redirmeta_rows_not_listed"] = rep.extra.get("redirmeta_rows_not_listed", 0) + o["nrows"] - len(o["rows"])
    need = ["history>=2", "out:resp", "out:MaxRetryError", "out:HostChangedError", "client:pm", "client:proxy", "client:pool"]
    missing = [t for t in need if not tags.get(t)] + [q for q in QUIRKS if not counts.get(q)]
    rep.extra.update({"redirmeta_scenarios": n, "redirmeta_tags": dict(sorted(tags.items())),
                      "redirmeta_recorded_behaviour": {q: {"traces": counts.get(q, 0), "what": QUIRKS[q]} for q in QUIRKS}})
    if n < 300 or (missing and not rep.drift and not rep.violations):
        raise tlc.MachineryError(f"REDIRMETA coverage too thin: {n} scenarios, missing {missing}")
    rep.rule = ("REDIRMETA: every TLC-emitted scenario is executed on the real client; response.url, response.retries "
                "(counters, history), error attributes and the caller's Retry objects are recorded and judged by TLC "
                "(MetaClause on the observed wire log; conformance to the Model's expected metadata); non-trivial = at least "
                "one 3xx answer served")
    rep.assumptions += ["REDIRMETA: redirect chains only (no I/O faults, no status retries: those counters must stay untouched)",
                        "REDIRMETA: URL strings are re-encoded into components by the harness (enc_loc), compared by the spec"]
    return rep


def run_stage(rep):
    """Extra stage of C05: the observable metadata of a redirect chain."""
    rep.extra_module = "vh.redirmeta"
    try:
        keep_rule, keep_samples, keep_assume = rep.rule, list(rep.samples), list(rep.assumptions)
        run(rep)
        rep.extra["redirmeta_rule"] = rep.rule
        rep.rule, rep.samples = keep_rule or rep.rule, keep_samples or rep.samples
    finally:
        rep.extra_module = None
    return rep


def replay(rep, path):
    case = json.load(open(path))["case"]
    rep.rule = "replay of one recorded case"
    rep.nontrivial.update({1})
    rep.states = rep.states or 1
    rep.transitions = rep.transitions or 1
    tr = D.run_scenario(case["scenario"], (), observer)
    if tr["expmeta"] is None:
        raise tlc.MachineryError("replay file carries no expected metadata")
    rep.evaluations += 1
    _, vs = validate([tr])
    rep.traces += 1
    counts = {}
    for tid, hard, mt, drift in vs:
        if hard != "ok" or mt != "ok" or drift != "ok":
            _report(rep, hard, mt, drift, tr, counts)
