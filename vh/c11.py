"""C11 — request bodies are framed exactly and re-sent identically.

stage 1  TLC checks spec/BodyFraming.tla (re-send state machine of HTTPConnectionPool.urlopen and PoolManager.urlopen over the
         framing decision table, Serialize and the paranoid Parse of spec/Wire.tla) over every scenario of spec/MC_BodyFraming.tla:
         body kind x size x start offset x method x chunked flag x caller framing header x client (bare pool / PoolManager) x
         attempt history (one re-send, and two re-sends in a row), in ONE exhaustive run that explores side by side
           D = {}        the design: RulesHold (ExactlyOneFraming, PayloadEqualsBody, UnframedWhenBodyless, BodyIdentical-or-
                         UnrewindableBodyError), FramingTable, RefusedOnlyWhenUnreplayable, DesignResends,
                         ManagerKeepsFirstPosition, PredictIsTheMachine, liveness Terminates
           D = {D3}      the code as recorded (on one-shot bodies, where the deviation's guard can fire): RulesHoldExceptKnown
           D = {ChunkSizeCountsItems}  the code as recorded, second finding (on wide buffers): RulesHoldExceptKnown
           D = {LengthCountsItems}  a variant TLC must refute (Content-Length = len() of a buffer whose items are wider than a byte)
           D = {ShortReadIsEOF}  a variant TLC must refute (chunk_readable stops after a block shorter than the blocksize): it breaks
                         PayloadEqualsBody exactly for streams that hand out short blocks while more data follows
           D = {ZeroPosTreatedAsUnset}  a variant TLC must refute (PoolManager tests the truth value of the recorded position):
                         it breaks BodyIdentical exactly for a seekable body at offset 0 after two manager-level redirects
         the action trail of every behaviour is read back (an action nobody takes is a vacuous model)
stage 2  the same run prints every terminal state: the scenario with the model's expected observations (per attempt: method,
         framing, payload; outcome) and TLC's own Verdict on them
stage 3  every scenario is replayed into the real HTTPConnectionPool.urlopen / PoolManager.urlopen over the in-memory
         network (several concrete body objects per abstract kind); the scripted peer answers along the history
stage 4  every run is recorded (per attempt the raw bytes the peer received, or - for bodies of realistic size around
         the real blocksize - the summary of the peer's framing parser) and judged by TLC (spec/BodyFraming_Trace.tla):
         Verdict = the Rules clauses (the framing/payload of the raw bytes is decided by the spec's own parser),
         Which = the deviation set whose model run equals the recorded run (none => MODEL-DRIFT)
"""
from __future__ import annotations

import array
import errno
import io
import json
import multiprocessing as mp
import os
import random
import re
import tempfile
import warnings

from . import known, net, tlc
from .c10 import syms, text, tokenise, user_agent

HOST = "h"
REAL_BS = 16384
METHODS = ["GET", "POST", "DELETE", "PUT", "PATCH", "HEAD", "OPTIONS", "get"]     # = MethodTable of MC_BodyFraming
ACTIONS = ["ActManagerRecords", "ActManagerKeeps", "ActRecordPosition", "ActTellFails", "ActMarkUnreplayable", "ActNoPosition", "ActRewind", "ActRewindSeekFails",
           "ActRewindRefused", "ActRewindNoSeek", "ActSend", "ActSendBreaks", "ActReturn", "ActRetry", "ActPoolRedirect", "ActManagerRedirect",
           "ActSeeOther"]
NEVER = {"ActRewindNoSeek"}                                  # must stay at zero (an integer position implies seek)
INVARIANTS = ["TypeOK", "RulesHold", "RulesHoldExceptKnown", "FramingTable", "RefusedOnlyWhenUnreplayable", "DesignResends",
              "ManagerKeepsFirstPosition", "PredictIsTheMachine"]
Z0 = "ZeroPosTreatedAsUnset"
SR = "ShortReadIsEOF"
LCI = "LengthCountsItems"
CSI = "ChunkSizeCountsItems"         # recorded finding (known_findings.d/C11.json)
RESEND = ["err", "errsend", "503", "307", "308", "303"]
ALL_KINDS = ["none", "bytes", "str", "buffer", "widebuffer", "file", "textfile", "notell", "badseek", "badtell", "list", "strlist", "gen",
             "shortfile", "shorttextfile", "shortpipe", "shorttextpipe"]
TEXT_KINDS = {"str", "textfile", "strlist", "shorttextfile", "shorttextpipe"}
ONE_SHOT = {"notell", "gen", "shortpipe", "shorttextpipe"}
HAS_TELL = {"file", "textfile", "badseek", "badtell", "shortfile", "shorttextfile"}
SHORT_READERS = {"shortfile", "shorttextfile", "shortpipe", "shorttextpipe"}
SHORT_READ_REAL = 700        # bytes / characters per read of a short-reading stream when the real blocksize is used
WIDE_ITEM = {"array-H": 2, "cast-H": 2, "2d-memoryview": 2, "array-I": array.array("I").itemsize, "array-d": 8}
VARIANTS = {"none": ["None"], "bytes": ["bytes"], "str": ["str"], "buffer": ["bytearray", "memoryview", "array"],
            # buffer objects whose len() is not their size in bytes (items wider than a byte, several dimensions)
            "widebuffer": ["array-H", "cast-H", "2d-memoryview", "array-I", "array-d"],
            "file": ["BytesIO", "realfile"], "textfile": ["StringIO", "realtextfile"], "notell": ["readonly"],
            "badseek": ["badseek"], "badtell": ["badtell"], "list": ["list", "tuple"], "strlist": ["liststr"],
            "gen": ["generator", "iter(list)"],
            # streams whose read(n) returns a non-empty block shorter than n while more data follows
            "shortfile": ["shortseek", "shortseek-raw"], "shorttextfile": ["shortseektext", "shortseektextio"],
            "shortpipe": ["shortpipe"], "shorttextpipe": ["shortpipetext"]}

MC_CFG = """SPECIFICATION Spec
CONSTANTS
  HostValue <- EnvHost
  UAValue <- EnvUA
  MCDefectSets = {defects}
  MCKinds = {kinds}
  MCSizes = {sizes}
  MCMethods = {methods}
  MCHistSizes = {hsizes}
  MCHistMethods = {hmethods}
  MCHist3Sizes = {h3sizes}
  MCShortSizes = {ssizes}
  MCWideSizes = {wsizes}
  MCWideHistSizes = {whsizes}
  MCShortTextMaxHist = {stexthist}
  MCBS = {bs}
  ShardK = {k}
  ShardS = {s}
  EmitOn = {emit}
{checks}
CHECK_DEADLOCK FALSE
"""
TRACE_CFG = """SPECIFICATION TSpec
CONSTANTS
  HostValue <- DocHost
  UAValue <- DocUA
CHECK_DEADLOCK FALSE
"""


def jobs() -> int:
    """size of every process pool (VERIF_JOBS caps it; default: all cores)"""
    return max(1, int(os.environ.get("VERIF_JOBS") or 0) or os.cpu_count() or 4)


def env_doc(hists=(("ok",),)):
    return {"host": syms(HOST), "ua": syms(user_agent()), "hists": [list(h) for h in hists]}


def tla_set(xs):
    return "{" + ", ".join(tlc.tla_str(x) if isinstance(x, str) else str(x) for x in xs) + "}"


# ------------------------------------------------------------------------------ building real bodies

class _ReadOnly:
    """file-like object with read() only: no tell, no seek"""

    def __init__(self, data, start):
        self._b = io.BytesIO(data)
        self._b.seek(start)

    def read(self, n=-1):
        return self._b.read(n)


class _ShortSeek:
    """seekable stream (tell/seek work) whose read() hands out at most `k` units at a time; only an empty block means the end"""

    def __init__(self, inner, k):
        self._f, self._k = inner, k

    def read(self, n=-1):
        return self._f.read(self._k if n is None or n < 0 else min(n, self._k))

    def tell(self):
        return self._f.tell()

    def seek(self, *a):
        return self._f.seek(*a)


class _ShortPipe:
    """the same without tell / seek (a pipe)"""

    def __init__(self, inner, k):
        self._f, self._k = inner, k

    def read(self, n=-1):
        return self._f.read(self._k if n is None or n < 0 else min(n, self._k))


class _ShortRaw(io.RawIOBase):
    """io.RawIOBase flavour: read() is built on readinto(), which fills at most `k` bytes"""

    def __init__(self, data, k):
        super().__init__()
        self._f, self._k = io.BytesIO(data), k

    def readable(self):
        return True

    def seekable(self):
        return True

    def readinto(self, b):
        d = self._f.read(min(len(b), self._k))
        b[:len(d)] = d
        return len(d)

    def tell(self):
        return self._f.tell()

    def seek(self, *a):
        return self._f.seek(*a)


class _ShortTextIO(io.TextIOBase):
    """io.TextIOBase flavour (body_to_chunks encodes its blocks itself)"""

    def __init__(self, data, k):
        super().__init__()
        self._f, self._k = io.StringIO(data), k

    def readable(self):
        return True

    def seekable(self):
        return True

    def read(self, n=-1):
        return self._f.read(self._k if n is None or n < 0 else min(n, self._k))

    def tell(self):
        return self._f.tell()

    def seek(self, *a):
        return self._f.seek(*a)


class _BadSeek(io.BytesIO):
    armed = False

    def seek(self, *a):
        if self.armed:
            raise OSError("seek refused")
        return super().seek(*a)


class _BadTell(io.BytesIO):
    def tell(self):
        raise OSError("tell refused")


def variants_for(sc, mode, total):
    """the concrete body objects that can carry this scenario (a wide buffer needs a whole number of items)"""
    vs = VARIANTS[sc["kind"]]
    if sc["kind"] != "widebuffer":
        return vs
    nbytes = sum(unit_lengths(sc, mode, total)[sc["start"]:])
    return [v for v in vs if nbytes % WIDE_ITEM[v] == 0 and (nbytes > 0 or v.startswith("array"))]


def unit_lengths(sc, mode, total):
    """number of characters each content symbol stands for"""
    n = len(sc["content"])
    if mode == "sym":
        return [1] * n
    if sc["kind"] == "widebuffer":          # every unit a whole number of 8-byte items
        total = max(total, n)
        part = -(-(total // max(n, 1)) // 8) * 8
        return [part] * n
    nbody = n - sc["start"]
    lens = [3] * sc["start"]                       # the junk before the start offset
    if nbody:
        total = max(total, nbody)
        part = total // nbody
        lens += [part] * (nbody - 1) + [total - part * (nbody - 1)]
    return lens


def realise(sc, mode, variant, total, tmpdir):
    """-> (body object, expected payload bytes, unit table for decoding payloads)"""
    kind, start = sc["kind"], sc["start"]
    lens = unit_lengths(sc, mode, total)
    chars = [text([s]) for s in sc["content"]]
    pieces = [c * k for c, k in zip(chars, lens)]
    textual = kind in TEXT_KINDS
    enc = (lambda s: s.encode("utf-8")) if textual else (lambda s: s.encode("latin-1"))
    whole = "".join(pieces)
    body_text = "".join(pieces[start:])
    want = b"" if kind == "none" else enc(body_text)
    table = {}                                     # character -> the block lengths it occurs with
    for c, k in zip(chars, lens):
        table.setdefault(c, set()).add(k)
    cstart = sum(lens[:start])                     # start offset in characters
    if kind == "none":
        body = None
    elif kind == "bytes":
        body = want
    elif kind == "str":
        body = body_text
    elif kind == "buffer":
        body = {"bytearray": bytearray(want), "memoryview": memoryview(want), "array": array.array("B", want)}[variant]
    elif kind == "widebuffer":
        if len(want) % WIDE_ITEM[variant]:
            raise tlc.MachineryError(f"{variant} cannot hold {len(want)} bytes")
        if variant.startswith("array-"):
            body = array.array(variant[-1])
            body.frombytes(want)
        elif variant == "cast-H":
            body = memoryview(want).cast("H")
        else:
            body = memoryview(want).cast("B", shape=[len(want) // 2, 2])
    elif kind == "file":
        if variant == "BytesIO":
            body = io.BytesIO(enc(whole))
        else:
            path = os.path.join(tmpdir, "b.bin")
            with open(path, "wb") as fh:
                fh.write(enc(whole))
            body = open(path, "rb")
        body.seek(cstart)
    elif kind == "textfile":
        if variant == "StringIO":
            body = io.StringIO(whole)
        else:
            path = os.path.join(tmpdir, "t.txt")
            with open(path, "w", encoding="utf-8", newline="") as fh:
                fh.write(whole)
            body = open(path, "r", encoding="utf-8", newline="")
        body.read(cstart)
    elif kind == "notell":
        body = _ReadOnly(enc(whole), cstart)
    elif kind == "badseek":
        body = _BadSeek(enc(whole))
        body.seek(cstart)
        body.armed = True
    elif kind == "badtell":
        body = _BadTell(enc(whole))
        body.seek(cstart)
    elif kind in SHORT_READERS:
        k = (sc["bs"] - 1 if sc["bs"] > 1 else 1) if mode == "sym" else SHORT_READ_REAL      # = ShortRead(sc) of the spec
        if variant == "shortseek-raw":
            body = _ShortRaw(enc(whole), k)
        elif variant == "shortseektextio":
            body = _ShortTextIO(whole, k)
        else:
            inner = io.StringIO(whole) if textual else io.BytesIO(enc(whole))
            body = (_ShortSeek if kind in HAS_TELL else _ShortPipe)(inner, k)
        if kind in HAS_TELL:
            body.seek(cstart)
        else:
            body._f.seek(cstart)
    else:
        d = pieces[start:]
        h = len(d) // 2
        chunks = ["", "".join(d[:h]), "", "".join(d[h:])]        # = ListChunks of the spec
        if kind != "strlist":
            chunks = [enc(c) for c in chunks]
        if kind in ("list", "strlist"):
            body = tuple(chunks) if variant == "tuple" else list(chunks)
        elif variant == "generator":
            body = (c for c in chunks)
        else:
            body = iter(chunks)
    return body, want, table


def units_of(payload: bytes, table, textual):
    """payload bytes -> symbols of the spec: one symbol per unit block (dig mode); garbled runs are kept visible"""
    try:
        s = payload.decode("utf-8" if textual else "latin-1")
    except UnicodeDecodeError:
        return ["?undecodable", str(len(payload))]
    out, i = [], 0
    while i < len(s):
        j = i
        while j < len(s) and s[j] == s[i]:
            j += 1
        if j - i in table.get(s[i], ()):
            out.extend(tokenise(s[i].encode("utf-8" if textual else "latin-1")))
        else:
            out.extend(["?run", s[i] if s[i].isalnum() else "?", str(j - i)])
        i = j
    return out


# ------------------------------------------------------------------------------ stage 3: the real code

_REPLIES = {}


def _reply(o):
    if not _REPLIES:
        _REPLIES["ok"] = net.Reply(net.http_response(200, b""))
        _REPLIES["503"] = net.Reply(net.http_response(503, b"", reason="Unavailable"))
        for c in ("307", "308", "303"):
            _REPLIES[c] = net.Reply(net.http_response(int(c), b"", headers=[("Location", "/again")], reason="Moved"))
        _REPLIES["err"] = net.Reply(b"", close=True)
        _REPLIES["errsend"] = _REPLIES["err"]      # the write that should have failed never happened: plain connection error
        for k in ("ok", "503", "307", "308", "303"):  # the same answers, closing the connection afterwards
            r = _REPLIES[k]
            _REPLIES["close:" + k] = net.Reply(r.data.replace(b"\r\n\r\n", b"\r\nConnection: close\r\n\r\n", 1), close=True)
        _REPLIES["close:err"] = _REPLIES["close:errsend"] = _REPLIES["err"]
    return _REPLIES[o]


def execute(sc, mode="sym", variant=None, total=0) -> dict:
    """Drive one scenario through the real code; return the trace (JSON)."""
    from urllib3.connectionpool import HTTPConnectionPool
    from urllib3.exceptions import HTTPError, UnrewindableBodyError
    from urllib3.poolmanager import PoolManager
    from urllib3.util.retry import Retry
    kind = sc["kind"]
    variant = variant or variants_for(sc, mode, total)[0]
    hist = list(sc["hist"])
    seen = []                                        # (cid, Request) in arrival order
    # a history with a write failure gives every attempt its own connection (attempt j = connection j), so that the
    # failure can be scripted as "the 2nd write on connection j" and a head without body is attributed to its attempt
    per_conn = "errsend" in hist
    pre = "close:" if per_conn else ""

    def responder(peer, request):
        seen.append((peer.cid, request))
        j = peer.cid if per_conn else len(seen)
        if j > len(hist):
            return _reply(pre + "ok")                # more attempts than the history foresees: answered, and visible in the trace
        return _reply(pre + hist[j - 1])

    def scripts(cid, address):
        if per_conn and cid <= len(hist) and hist[cid - 1] == "errsend":
            return {"send": {2: OSError(errno.ENETDOWN, "network is down")}}
        return {}

    tmpdir = tempfile.mkdtemp(prefix="c11-", dir=os.environ.get("VERIF_SCRATCH") or None) if variant.startswith("real") else None
    body = None
    try:
        body, want, table = realise(sc, mode, variant, total, tmpdir)
        method = text(sc["method"])
        headers = None
        if sc["caller"] == "cl":
            headers = {"Content-Length": str(len(want))}
        elif sc["caller"] == "te":
            headers = {"Transfer-Encoding": "chunked"}
        bs = sc["bs"] if mode == "sym" else REAL_BS
        retries = Retry(total=6, status_forcelist=[503], allowed_methods=None, backoff_factor=0)
        n = net.Net(responder, scripts=scripts)
        outcome = "resp"
        with warnings.catch_warnings():
            warnings.simplefilter("ignore")
            with n:
                try:
                    if sc["client"] == "pool":
                        p = HTTPConnectionPool(HOST, 80, timeout=5, blocksize=bs)
                        try:
                            p.urlopen(method, "/a", body=body, headers=headers, chunked=sc["chunked"], retries=retries)
                        finally:
                            p.close()
                    else:
                        m = PoolManager(timeout=5, blocksize=bs)
                        try:
                            kw = {} if headers is None else {"headers": headers}
                            m.urlopen(method, "http://" + HOST + "/a", body=body, chunked=sc["chunked"], retries=retries, **kw)
                        finally:
                            m.clear()
                except UnrewindableBodyError:
                    outcome = "UnrewindableBodyError"
                except HTTPError as ex:
                    outcome = "err:" + type(ex).__name__
                except net.HarnessStall:
                    outcome = "stall"                # the peer never saw the end of a message: the leftover below shows why
                except tlc.MachineryError:
                    raise
                except Exception as ex:
                    outcome = "raw:" + type(ex).__name__
        atts = []
        textual = kind in TEXT_KINDS
        broken = {f[0] for f in n.faults if f[1] == "send"}          # connections on which the scripted write failure fired
        if per_conn:
            for cid in sorted(n.peers):
                for c2, rq in seen:
                    if c2 == cid:
                        atts.append(_attempt(rq.raw, rq, n.peers[cid], mode, table, textual))
                left = bytes(n.peers[cid].inbuf)
                if left:                             # head without (whole) body: incomplete iff the write failure fired here
                    atts.append(_attempt(left, None, n.peers[cid], mode, table, textual, complete=cid not in broken))
        else:
            for cid, rq in seen:
                atts.append(_attempt(rq.raw, rq, n.peers[cid], mode, table, textual))
            for cid in sorted(n.peers):              # bytes that never became a complete message
                left = bytes(n.peers[cid].inbuf)
                if left:
                    atts.append(_attempt(left, None, n.peers[cid], mode, table, textual))
        got, sent = sum(len(n.peers[c].received) for c in n.peers), sum(n.sent_bytes.values())
        if got > sent:
            raise tlc.MachineryError(f"peer saw {got} bytes but the client sockets sent only {sent}")
        if got < sent:      # the peer had answered (and closed) while the client was still writing: bytes outside every message
            atts.append(_attempt(b"", None, None, mode, table, textual, unread=sent - got))
    finally:
        try:
            if hasattr(body, "close"):
                body.close()
        except Exception:
            pass
        if tmpdir:
            for f in os.listdir(tmpdir):
                os.unlink(os.path.join(tmpdir, f))
            os.rmdir(tmpdir)
    return {"sc": sc, "mode": mode, "variant": variant, "total": total, "atts": atts, "outcome": outcome}


def _attempt(raw, rq, peer, mode, table, textual, complete=True, unread=0):
    if unread:              # bytes the client wrote after the peer had stopped reading: no message accounts for them
        if mode == "sym":
            return {"complete": True, "raw": ["?unread", str(unread)]}
        return {"complete": True, "ok": False, "why": "UnreadBytes", "method": [], "nfr": 0, "mode": "none", "declared": 0,
                "payload": ["?unread", str(unread)], "clean": False}
    if mode == "sym":
        return {"complete": complete, "raw": tokenise(raw)}
    if rq is None:          # leftover bytes in dig mode: a message the peer's parser could not finish
        names = [ln.split(b":")[0].strip().lower() for ln in raw.split(b"\r\n\r\n")[0].split(b"\r\n")[1:]]
        te, cl = names.count(b"transfer-encoding"), names.count(b"content-length")
        return {"complete": complete, "ok": False, "why": "LeftoverBytes", "method": [], "nfr": te + cl,
                "mode": "both" if te and cl else "chunked" if te else "cl" if cl else "none", "declared": 0,
                "payload": [] if not complete else ["?leftover", str(len(raw))], "clean": False}
    names = [k.lower() for k, _ in rq.headers]
    cl = [v for k, v in rq.headers if k.lower() == "content-length"]
    return {"complete": True, "ok": peer.parse_error is None, "why": peer.parse_error or "", "method": syms(rq.method),
            "nfr": names.count("content-length") + names.count("transfer-encoding"),
            "mode": {"none": "none", "cl": "cl", "chunked": "chunked", "both": "both"}[rq.framing],
            "declared": int(cl[0]) if cl and cl[0].isdigit() and len(cl[0]) <= 6 else 0,
            "payload": units_of(rq.body, table, textual), "clean": True}


# ------------------------------------------------------------------------------ stage 4: TLC judges

def validate(traces):
    """-> [(attempt index, clause, class, which model run, exact bytes?)] per trace"""
    if not traces:
        return []
    doc = env_doc()
    doc["traces"] = [{"sc": t["sc"], "mode": t["mode"], "atts": t["atts"], "outcome": t["outcome"]} for t in traces]
    r = tlc.run("BodyFraming_Trace", TRACE_CFG, workers=1, files={"traces.json": json.dumps(doc)},
                env={"TRACE_FILE": "traces.json"}, timeout=7200)
    vs = [ln[1:-1].split("|")[1:] for ln in r.out.splitlines() if ln.startswith('"VERDICT|') and ln.endswith('"')]
    if len(vs) != len(traces) or [v[0] for v in vs] != [str(i) for i in range(1, len(traces) + 1)] or any(len(v) != 6 for v in vs):
        raise tlc.MachineryError(f"BodyFraming_Trace produced {len(vs)} verdicts for {len(traces)} traces\n{r.out[-2500:]}")
    return [(int(v[1]), v[2], v[3], v[4], v[5]) for v in vs]


def proj(att, mode):
    if mode == "sym":
        return None
    return {"complete": att["complete"], "method": att["method"], "mode": att["mode"], "payload": att["payload"]}


def sc_key(sc) -> str:
    return json.dumps(sc, sort_keys=True, separators=(",", ":"))


def nontrivial(sc) -> bool:
    return len(sc["hist"]) > 1 or sc["chunked"] or sc["caller"] != "none" or (sc["kind"] != "none" and sc["start"] > 0)


def kind_class(kind):
    return "none" if kind == "none" else "one-shot" if kind in ONE_SHOT else "file-with-tell" if kind in HAS_TELL else "replayable"


def facts_of(sc, at, clause, cls):
    before = [o for o in sc["hist"][: max(at - 1, 0)]]
    return {"clause": clause, "class": cls, "kind": sc["kind"], "kind_class": kind_class(sc["kind"]), "client": sc["client"],
            "resent_after": sorted(set(o for o in before if o in ("err", "errsend", "503", "307", "308"))),
            "manager_redirect_before": sc["client"] == "mgr" and any(o in ("307", "308") for o in before)}


def describe(t, at, clause):
    sc = t["sc"]
    a = t["atts"][at - 1] if 0 < at <= len(t["atts"]) else {}
    shown = text(a["raw"])[:300] if "raw" in a else {k: a.get(k) for k in ("mode", "nfr", "declared", "payload", "ok", "why")}
    return (f"{clause} at attempt {at}: {sc['client']} {text(sc['method'])} body={t['variant']}({sc['kind']}, {len(sc['content']) - sc['start']} units"
            f"{', start offset ' + str(sc['start']) if sc['start'] else ''}, {t['mode']}{'/' + str(t['total']) if t['mode'] == 'dig' else ''}) "
            f"chunked={sc['chunked']} caller={sc['caller']} history={'>'.join(sc['hist'])} outcome={t['outcome']} "
            f"attempts={len(t['atts'])} attempt[{at}]={shown!r}")


def assess(items, origin):
    """items: [(sc, mode, variant, total, expected)] with expected = {"design": obs, "code": obs} or None."""
    traces = [execute(sc, mode, variant, total) for sc, mode, variant, total, _ in items]
    verdicts = validate(traces)
    findings = known.load("C11")
    res = {"n": len(items), "bad": [], "drift": [], "known": [], "tally": {}, "nontrivial": set(), "samples": [], "attempts": 0}
    for (sc, mode, variant, total, expected), t, (at, clause, cls, which, exact) in zip(items, traces, verdicts):
        res["attempts"] += len(t["atts"])
        if any(not a["complete"] for a in t["atts"]):
            res["tally"]["incomplete-attempt"] = res["tally"].get("incomplete-attempt", 0) + 1
        for k in (f"kind:{sc['kind']}", f"variant:{variant}", f"mode:{mode}", f"client:{sc['client']}", f"which:{which}", f"bytes:{exact}",
                  f"outcome:{t['outcome'].split(':')[0]}", f"clause:{clause}", f"hist:{'>'.join(sc['hist'])}",
                  f"first:{sc['caller']}/{'chunked' if sc['chunked'] else 'plain'}/{'body' if sc['kind'] != 'none' else 'nobody'}"):
            res["tally"][k] = res["tally"].get(k, 0) + 1
        if nontrivial(sc):
            res["nontrivial"].add(hash((sc_key(sc), mode, variant, total)))
        if expected is not None and mode == "dig":
            # spec -> code: the observations TLC emitted for this scenario, compared directly (dig mode carries summaries)
            obs = {"outcome": t["outcome"], "atts": [proj(a, mode) for a in t["atts"]]}
            py = "design" if obs == expected["design"] else "code" if obs == expected["code"] else "other"
            if (py == "design") != (which == "design") or (py == "code" and which == "neither"):
                raise tlc.MachineryError(f"emitted expectation says {py} but the trace monitor says {which} for {describe(t, 1, 'n/a')}")
        if clause != "ok":
            f = known.match(findings, facts_of(sc, at, clause, cls))
            if f is not None:
                res["known"].append((f["id"], f["what"]))
                k = f"known:{f['id']}"
                res["tally"][k] = res["tally"].get(k, 0) + 1
            elif len(res["bad"]) < 10:
                res["bad"].append((clause, describe(t, at, clause),
                                   {"sc": sc, "mode": mode, "variant": variant, "total": total, "origin": origin}))
        elif which == "neither" and len(res["drift"]) < 3:
            res["drift"].append("the run satisfies the Rules but is no run of the model (with or without the recorded deviations): "
                                + describe(t, max(len(t["atts"]), 1), "drift"))
        elif exact == "inexact" and len(res["drift"]) < 3:
            res["drift"].append("every attempt is framed correctly but the bytes are not the model's canonical serialisation: "
                                + describe(t, 1, "inexact"))
        if len(res["samples"]) < 2 and len(sc["hist"]) > 1 and sc["kind"] not in ("none", "bytes") and mode == "sym":
            res["samples"].append({"scenario": _short(sc), "variant": variant, "outcome": t["outcome"], "verdict": clause, "model_run": which,
                                   "attempts": [text(a["raw"])[:160] for a in t["atts"]]})
    return res


def _short(sc):
    return {"kind": sc["kind"], "content": text(sc["content"]), "start": sc["start"], "method": text(sc["method"]),
            "chunked": sc["chunked"], "caller": sc["caller"], "bs": sc["bs"], "client": sc["client"], "hist": sc["hist"]}


# ------------------------------------------------------------------------------ shards

_SC = '<<"SC", "'


def _unq(s):
    return s.replace('\\\\', '\x00').replace('\\"', '"').replace('\x00', '\\')


def _model_run(args):
    """One exhaustive TLC run of MC_BodyFraming (invariants + liveness + coverage) that also prints every terminal state.
    -> (result summary, {scenario key: (sc, observations, verdict clause)})"""
    name, cfg, envdoc, expect_fail = args
    out, trail = {}, {}

    def on_line(ln):
        if not ln.startswith(_SC):
            return False
        if not ln.endswith('">>'):
            raise tlc.MachineryError("wrapped emission line: " + ln[:200])
        d = json.loads(_unq(ln[len(_SC):-3]))
        out[(d["dv"], sc_key(d["sc"]))] = (d["sc"], {"outcome": d["outcome"], "atts": d["atts"]}, d["verdict"]["clause"])
        for a in d["trail"]:
            trail[a] = trail.get(a, 0) + 1
        return True

    r = tlc.run("MC_BodyFraming", cfg, workers=jobs(), on_line=on_line, files={"bf_env.json": json.dumps(envdoc)},
                env={"BF_ENV": "bf_env.json"}, timeout=7200, heap="3g", expect_fail=expect_fail)
    m = (re.search(r"Finished computing initial states: (\d+) distinct state", r.out)
         or re.search(r"Finished computing initial states: \d+ states generated, with (\d+) of them distinct", r.out))
    return ({"name": name, "violated": r.violated, "distinct": r.distinct, "generated": r.generated, "depth": r.depth, "wall": r.wall,
             "coverage": trail, "initial": int(m.group(1)) if m else -1, "tail": r.out[-1500:]}, out)


def _replay_shard(args):
    items, origin = args
    return assess(items, origin)


def plan_realisations(sc, idx, quick, rng):
    """Which concrete executions one emitted scenario gets."""
    kind = sc["kind"]
    vs = variants_for(sc, "sym", 0)
    out = [("sym", vs[idx % len(vs)], 0)]
    if not quick and len(vs) > 1:
        out.append(("sym", vs[(idx + 1) % len(vs)], 0))
    n = len(sc["content"]) - sc["start"]
    # bodies of realistic size around the real blocksize; multi-attempt histories only with a few sizes
    # (a read-only stream that broke in the middle of a write is left at a blocksize boundary, not at a unit boundary:
    #  what is left cannot be expressed in units, so that combination is judged on raw bytes only)
    if kind != "none" and n > 0 and (not quick or idx % 4 == 0) and not (kind in ONE_SHOT and kind != "gen" and "errsend" in sc["hist"]):
        sizes = [1, REAL_BS - 1, REAL_BS, REAL_BS + 1, 3 * REAL_BS + 5]
        pick = sizes if (not quick and len(sc["hist"]) == 1) else [sizes[(idx // 4 + rng.randrange(5)) % 5]]
        for tot in pick:
            vd = variants_for(sc, "dig", tot)
            out.append(("dig", vd[(idx + tot) % len(vd)], tot))
    return out


def _hists(quick):
    """attempt histories: every one ends in "ok"; quick keeps every single re-send and every PAIR of consecutive re-sends over
    {connection error, 503, 307, 308} (two re-sends in a row is where a position that was recorded again shows)"""
    one = [(o, "ok") for o in RESEND]
    pair_alphabet = ["err", "503", "307", "308"] if quick else RESEND
    two = [(a, b, "ok") for a in pair_alphabet for b in pair_alphabet]
    return [("ok",)] + one + two


def _params(quick):
    if quick:
        return dict(kinds=ALL_KINDS, sizes=[0, 1, 4], methods=[1, 2, 3], hsizes=[0, 4], hmethods=[2], h3sizes=[4], ssizes=[4], wsizes=[0, 2, 8], whsizes=[8], stexthist=1, bs=3)
    return dict(kinds=ALL_KINDS, sizes=[0, 1, 2, 3, 4, 8], methods=[1, 2, 3, 4, 5, 6, 7, 8], hsizes=[0, 1, 4],
                hmethods=[1, 2, 3, 4, 5, 6, 7, 8], h3sizes=[0, 1, 4], ssizes=[1, 2, 3, 4, 8], wsizes=[0, 2, 4, 8], whsizes=[0, 2, 8], stexthist=3, bs=3)


def _cfg(p, defects, checks, k=1, s=0, emit=False):
    return MC_CFG.format(defects="{" + ", ".join(tla_set(d) for d in defects) + "}", kinds=tla_set(p["kinds"]), sizes=tla_set(p["sizes"]), hsizes=tla_set(p["hsizes"]),
                         methods=tla_set(p["methods"]), hmethods=tla_set(p["hmethods"]), h3sizes=tla_set(p["h3sizes"]), ssizes=tla_set(p["ssizes"]), wsizes=tla_set(p["wsizes"]), whsizes=tla_set(p["whsizes"]), stexthist=p["stexthist"], bs=p["bs"],
                         k=k, s=s, emit="TRUE" if emit else "FALSE", checks=checks)


def run(rep):
    quick = rep.tier == "quick"
    p = _params(quick)
    hists = _hists(quick)
    envdoc = env_doc(hists)
    rng = random.Random(rep.seed)
    rep.rule = ("every terminal state of the re-send model (body kind x size x start offset x method x chunked flag x caller framing header x "
                "bare pool / PoolManager x attempt history over {ok, connection error after / in the middle of the request, 503, 307, 308, 303}) is replayed into the real urlopen with several "
                "concrete body objects per kind, once with a small blocksize (raw bytes judged by the spec's parser) and with bodies around the "
                "real blocksize 16384 (peer's framing parser); a case is non-trivial when the request is sent more than once, chunking is "
                "requested, the caller supplies a framing header or a file body starts at a non-zero offset")
    rep.assumptions = ["the scripted peer answers each attempt along the history; a connection error strikes after the whole request or at its first body write",
                       "body objects are well-behaved (read/tell/seek do what io objects do, except the two scripted failures)",
                       "TLC 1.8, CPython http.client and vh/net.py are trusted; C10 covers header/target injection"]
    K = jobs()
    checks = "\n".join("INVARIANT " + i for i in INVARIANTS + ["EmitInv"]) + "\nPROPERTY Terminates"
    # ---- stage 1 + 2: ONE exhaustive run explores the design (D = {}), the code as recorded (D = {D3}, on one-shot bodies, where
    # the deviation's guard can fire) and the variant that must be refuted (D = {ZeroPosTreatedAsUnset}, on seekable bodies behind a
    # PoolManager) side by side, checks every invariant in every state and prints every terminal state
    r1, emitted = _model_run(("MC_BodyFraming", _cfg(p, [[], ["D3"], [CSI], [Z0], [SR], [LCI]], checks, emit=True), envdoc, False))
    label = f"MC_BodyFraming D in {{{{}}, {{D3}}, {{{CSI}}}, {{{Z0}}}, {{{SR}}}, {{{LCI}}}}} {p} histories={len(hists)} invariants={INVARIANTS}+Terminates"
    rep.states += r1["distinct"]
    rep.transitions += r1["generated"]
    rep.stage1.append({"run": label, "distinct_states": r1["distinct"], "states_generated": r1["generated"], "depth": r1["depth"],
                       "wall_s": round(r1["wall"], 2), "scenarios": r1["initial"]})
    if r1["violated"]:
        rep.violation("SpecInvariant", f"TLC: {r1['violated']} violated in {label}\n{r1['tail']}")
        return
    # per-action counts, from the action trails TLC printed with the terminal states (every behaviour ends in one)
    cov = {a: r1["coverage"].get(a, 0) for a in ACTIONS}
    if set(r1["coverage"]) - set(ACTIONS):
        raise tlc.MachineryError(f"the model took actions the harness does not know: {set(r1['coverage']) - set(ACTIONS)}")
    rep.extra["action_coverage"] = cov
    for a in ACTIONS:
        if a in NEVER:
            if cov[a]:
                rep.violation("SpecInvariant", f"action {a} must never be enabled but TLC took it {cov[a]} times")
        elif not cov[a]:
            raise tlc.MachineryError(f"vacuous model: action {a} never taken (coverage {cov})")
    if len(emitted) != r1["initial"]:
        raise tlc.MachineryError(f"emission incomplete: {len(emitted)} terminal states emitted for {r1['initial']} scenarios")
    design = {k: v for (dv, k), v in emitted.items() if dv == "design"}
    code = {k: v for (dv, k), v in emitted.items() if dv in ("D3", CSI)}     # the code as recorded: both recorded findings
    wide = {k: v for (dv, k), v in emitted.items() if dv == CSI}
    items_len = {k: v for (dv, k), v in emitted.items() if dv == LCI}
    zero = {k: v for (dv, k), v in emitted.items() if dv == Z0}
    short = {k: v for (dv, k), v in emitted.items() if dv == SR}
    if (not design or not set(code) <= set(design) or not set(zero) <= set(design) or not set(short) <= set(design)
            or not set(items_len) <= set(design) or len(design) + len(code) + len(zero) + len(short) + len(items_len) != len(emitted)):
        raise tlc.MachineryError(f"emission mismatch: {len(design)} design / {len(code)} D3 / {len(zero)} {Z0} / {len(short)} {SR} terminal states")
    if {k for k, v in design.items() if v[0]["kind"] in ONE_SHOT} != set(code) - set(wide):
        raise tlc.MachineryError("the run with the recorded deviation D3 did not cover exactly the one-shot scenarios")
    if {k for k, v in design.items() if v[0]["kind"] == "widebuffer" and v[0]["caller"] == "none"} != set(wide):
        raise tlc.MachineryError(f"the run with the recorded deviation {CSI} did not cover exactly the wide-buffer scenarios")
    bad_design = [k for k, v in design.items() if v[2] != "ok"]
    if bad_design:
        raise tlc.MachineryError("emission shows a Rules failure in the design model: " + bad_design[0])
    # TLC must exhibit the recorded deviation and refute the zero-position variant (its own Verdict on its own model run)
    shown = {"D3": sum(1 for v in code.values() if v[2] == "BodyIdentical"), Z0: sum(1 for v in zero.values() if v[2] == "BodyIdentical"),
             SR: sum(1 for v in short.values() if v[2] == "PayloadEqualsBody"),
             CSI: sum(1 for v in wide.values() if v[2] == "PayloadEqualsBody"),
             LCI: sum(1 for v in items_len.values() if v[2] == "PayloadEqualsBody")}
    rep.extra["deviations_exhibited_by_tlc"] = shown
    rep.extra["emitted_scenarios"] = {"design": len(design), "D3": len(code), CSI: len(wide), Z0: len(zero), SR: len(short), LCI: len(items_len)}
    for d, n in shown.items():
        if not n:
            raise tlc.MachineryError(f"the deviation {d} is not reachable in the model: no terminal state violates the expected clause with D = {{{d}}}")
    one_hop = [k for k, v in zero.items() if v[2] != "ok" and sum(o in ("307", "308") for o in v[0]["hist"]) < 2]
    if one_hop:
        raise tlc.MachineryError(f"{Z0} breaks a history with fewer than two redirects in the model: {one_hop[0]}")
    K = jobs()
    with mp.Pool(K) as pool:
        # ---- stage 3/4
        items = []
        for idx, k in enumerate(sorted(design)):
            sc = design[k][0]
            expected = {"design": design[k][1], "code": code.get(k, design[k])[1]}
            for mode, variant, total in plan_realisations(sc, idx, quick, rng):
                items.append((sc, mode, variant, total, expected))
        rng.shuffle(items)
        # traces per TLC batch (one JVM each): not more batches than processes, not fewer than ~500 traces per JVM start
        per = min(3000, max(500, (len(items) + K - 1) // K))
        shards = [(items[i:i + per], "emitted") for i in range(0, len(items), per)]
        results = pool.map(_replay_shard, shards)
    tally = {}
    for o in results:
        rep.evaluations += o["n"]
        rep.traces += o["n"]
        rep.nontrivial.update(o["nontrivial"])
        for k, v in o["tally"].items():
            tally[k] = tally.get(k, 0) + v
        for clause, what, case in o["bad"]:
            rep.violation(clause, what, case)
        rep.known.extend(o["known"])
        rep.drift.extend(o["drift"])
    for o in results[:6]:
        for s in o["samples"][:1]:
            rep.sample(s, cap=6)
    if sum(o["n"] for o in results) != len(items):
        raise tlc.MachineryError("not every planned execution was carried out")
    rep.extra["executions"] = len(items)
    rep.extra["attempts_observed"] = sum(o["attempts"] for o in results)
    rep.extra["tally"] = dict(sorted(tally.items()))
    # vacuity: every kind, every concrete variant, both modes, both clients, every outcome of the history alphabet
    need = [f"kind:{k}" for k in ALL_KINDS] + [f"variant:{v}" for vs in VARIANTS.values() for v in vs] + ["mode:sym", "mode:dig", "client:pool",
            "client:mgr", "outcome:resp", "outcome:UnrewindableBodyError", "first:none/plain/nobody", "first:none/chunked/nobody",
            "first:none/plain/body", "first:none/chunked/body", "first:cl/plain/body", "first:te/plain/body"]
    need += ["hist:" + ">".join(h) for h in hists] + ["incomplete-attempt"]
    for nd in need:
        if not tally.get(nd) and not rep.violations:      # a violation is reported first; vacuity only matters for a green run
            raise tlc.MachineryError(f"vacuous coverage: no execution with {nd} (tally {tally})")
    rep.exhaustive = True


def replay(rep, path):
    with open(path) as fh:
        doc = json.load(fh)
    c = doc["case"]
    res = assess([(c["sc"], c["mode"], c["variant"], c["total"], None)], "replay")
    rep.traces += 1
    rep.evaluations += 1
    for clause, what, case in res["bad"]:
        rep.violation(clause, what, case)
    rep.known.extend(res["known"])
    rep.drift.extend(res["drift"])
    rep.rule = "replay of one recorded case"
    rep.nontrivial.update({1, 2})
    rep.states = rep.states or 1
    rep.transitions = rep.transitions or 1
