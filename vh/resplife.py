"""Life cycle of an HTTPResponse (urllib3/response.py) -- growth of the specification beyond the listed clauses.
Serves C01 (slot conservation, only urllib3 errors, interrupts propagate), C02 (no internal error / no hang under every
interleaving) and C13 (a cut-off body is never presented as complete).

stage 1  TLC checks spec/RespLife.tla exhaustively: the sequential part (one caller, every sequence of calls over
         {read, read(n), read1(n), stream step, release_conn, drain_conn, close, shutdown, drop} x framing x server
         behaviour x preload mode; history hidden by a VIEW) and the two-thread part (reader x disposer x server,
         every interleaving at the grain of the yield points, safety + liveness) -- once for the repaired design
         (every rule must hold), once per known deviation (TLC must refute exactly the expected rule: the rules
         bite), once for the code as found (deviations detected by probing the real tree)
stage 2  TLC emits every call sequence (sequential) / every complete schedule (two threads) with the Model's
         expected observations; each is replayed on a REAL HTTPResponse produced by a REAL HTTPConnectionPool
         over vh/net.py, step by step under a scheduler whose step is exactly the Model's step
stage 3  bounded-preemption DFS and seeded random schedules / call sequences over the real code
stage 4  every recorded trace (observable projection after every step) is validated by TLC against
         spec/RespLife_Trace.tla: Rules (hard) and Model refinement (drift)
"""
from __future__ import annotations

import gc
import inspect
import json
import logging
import os
import queue
import random
import re
import socket
import sys
import threading
import weakref
import _thread

from . import known
from . import net as vnet
from . import tlc

JOBS = int(os.environ.get("VERIF_JOBS") or 0) or (os.cpu_count() or 4)
UNIT = 4
UNITS = [b"abcd", b"efgh"]
TOTAL = sum(len(u) for u in UNITS)
OPS = ("read", "readn", "read1n", "stream", "release", "drain", "close", "shutdown")
READ_OPS = ("read", "readn", "read1n", "stream")
DISP_OPS = ("release", "drain", "close")
PROBE_BODY = b"probe-ok"
SEQ_KINDS = [(fr, sv) for fr in ("cl", "chunked") for sv in ("ka", "close", "cut", "boom")] + [("eof", "close")]


class Hang(BaseException):
    """The code under test asked the socket for data that will never come (single caller, no timeout)."""


class Interrupt(KeyboardInterrupt):
    """The injected interrupt (identity is what is checked)."""


class Abort(BaseException):
    """Unwinds a scheduled thread when a run is torn down."""


def wire(scn):
    """[(bytes, peer closes afterwards)]: the reply is delivered in feeds: the first with the request, the second only
    when the client waits for it (sequential part) or when the scheduler lets the server speak (two-thread part), so
    what has NOT been read is really not there yet."""
    fr, sv = scn["fr"], scn["sv"]
    head = b"HTTP/1.1 200 OK\r\n"
    if fr == "cl":
        head += b"Content-Length: %d\r\n" % TOTAL
    elif fr == "chunked":
        head += b"Transfer-Encoding: chunked\r\n"
    if sv == "close" or fr == "eof":
        head += b"Connection: close\r\n"
    head += b"\r\n"
    closes = sv == "close" or fr == "eof"
    if fr == "chunked":
        u = [b"%x\r\n%s\r\n" % (len(x), x) for x in UNITS]
        first = head + u[0]
        second = (u[1] + b"0\r\n\r\n", closes)
        if sv == "cut":
            second = (b"%x\r\n" % len(UNITS[1]), True)      # cut inside the second chunk, right after its size line
    else:
        first = head + UNITS[0]
        second = (UNITS[1], closes)
        if sv == "cut":
            second = (b"", True)
    if sv == "boom":
        second = ("BOOM", False)
    if sv == "never":
        return [(first, False)]
    return [(first, False), second]


# ------------------------------------------------------------------------------------------ yield points
TOOL = 3          # sys.monitoring tool id (0-2 and 5 have reserved names, vh/lrusched.py uses 4)
LABELS = [
    ("_raw_read", r"fp_closed\s*=\s*getattr\(\s*self\._fp", "ChkFp"),
    ("_raw_read", r"self\._fp_bytes_read\s*\+=", "Book"),
    ("_error_catcher", r"^\s*if self\._original_response:\s*$", "CatClose"),
    ("_error_catcher", r"if self\._original_response and self\._original_response\.isclosed\(\)", "CatRel"),
    ("release_conn", r"if not self\._pool or not self\._connection", "RelTest"),
    ("release_conn", r"self\._pool\._put_conn\(", "RelPut"),
    ("release_conn", r"self\._connection\s*=\s*None", "RelClear"),
    ("close", r"self\._sock_shutdown\s*=\s*None", "ClsBegin"),
    ("close", r"^\s*if self\._connection:\s*$", "ClsConn"),
    ("shutdown", r"if not self\._sock_shutdown", "ShTest"),
]
_POINTS = {}       # code object -> {line: label}
_MISSING = []      # labels whose pattern no longer resolves in the tree under test
_ACTIVE = [None]   # the recorder / scheduler that receives yield points
_INSTALLED = [False]


def _on_line(code, line):
    d = _POINTS.get(code)
    lab = d.get(line) if d is not None else None
    if lab is None:
        return sys.monitoring.DISABLE
    a = _ACTIVE[0]
    if a is not None:
        a.yield_point(lab)
    return None


def install_points():
    if _INSTALLED[0]:
        return
    import urllib3.response as R
    mon = sys.monitoring
    if mon.get_tool(TOOL) is None:
        mon.use_tool_id(TOOL, "vh.resplife")
    mon.register_callback(TOOL, mon.events.LINE, _on_line)
    for fname in sorted({f for f, _, _ in LABELS}):
        fn = inspect.unwrap(getattr(R.HTTPResponse, fname))
        code = fn.__code__
        lines, start = inspect.getsourcelines(fn)
        d = {}
        for f, pat, lab in LABELS:
            if f != fname:
                continue
            hit = [start + i for i, ln in enumerate(lines) if re.search(pat, ln)]
            if len(hit) != 1:
                _MISSING.append(lab)
            for h in hit[:1]:
                d[h] = lab
        _POINTS[code] = d
        mon.set_local_events(TOOL, code, mon.events.LINE)
    _INSTALLED[0] = True


# ------------------------------------------------------------------------------------------------ network
class RSocket(vnet.VSocket):
    """Client end: ground truth about shutdown / close, feeds, cooperative blocking in recv."""

    def __init__(self, *a):
        super().__init__(*a)
        self._feeds = []
        self._shut = False

    def feed_next(self):
        """The server sends the next part of its reply (or the scripted interrupt hits the client)."""
        if not self._feeds:
            return False
        data, close = self._feeds.pop(0)
        p = self._peer
        if data == "BOOM":
            exc = Interrupt("recv")
            self._net.log.append(("FEED", self._cid, "boom"))
            self._net.injected.append(exc)
            raise exc
        self._net.log.append(("FEED", self._cid, len(data), close))
        if not p.closed:
            if data:
                try:
                    p.sock.send(data)
                except OSError:
                    pass                      # the client has shut its read side down / closed: the bytes are lost
            if close:
                p.close()
        return True

    def makefile(self, *a, **kw):
        f = super().makefile(*a, **kw)
        s = self._net.sched
        return CoopFile(f, self._net) if (s is not None and s.concurrent) else f

    def _pending_data(self):
        import fcntl
        import struct
        import termios
        try:
            return struct.unpack("i", fcntl.ioctl(self.fileno(), termios.FIONREAD, b"\0\0\0\0"))[0] > 0
        except OSError:
            return False

    def shutdown(self, how):
        s = self._net.sched
        if s is not None:
            s.yield_point("SockShut")
        try:
            super().shutdown(how)
        except OSError:
            self._net.log.append(("SHUTFAIL", self._cid))
            raise
        self._shut = True
        self._net.log.append(("SHUTDOWN", self._cid, how))

    def recv_into(self, buffer, nbytes=0, *flags):
        s = self._net.sched
        conc = s is not None and s.concurrent
        if conc:
            s.block_recv(self)
        self._peer.pump()
        if not conc:
            while not self._readable():
                if not self.feed_next():
                    self._net.log.append(("HANG", self._cid))
                    raise Hang()
        mv = memoryview(buffer).cast("B")
        n = nbytes or len(mv)
        got = socket.socket.recv_into(self, mv[:n], n)
        self._net.log.append(("RECV", self._cid, got))
        return got


class CoopFile:
    """The buffered file http.client reads from, with its internal lock made cooperative: a thread that would block on
    the BufferedReader's lock (close / flush while another thread is inside a read that waits for the socket) parks in
    the scheduler instead.  Same semantics otherwise."""

    def __init__(self, real, net):
        self._r, self._net, self.owner = real, net, None

    def _wait(self):
        s = self._net.sched
        if s is not None and s.concurrent:
            me = s.me()
            if me is not None and self.owner is not None and self.owner != me:
                s.block_buf(self)
            return me
        return None

    def _hold(self, fn, *a):
        me = self._wait()
        prev, self.owner = self.owner, me
        try:
            return fn(*a)
        finally:
            self.owner = prev

    def read(self, *a):
        return self._hold(self._r.read, *a)

    def read1(self, *a):
        return self._hold(self._r.read1, *a)

    def readinto(self, *a):
        return self._hold(self._r.readinto, *a)

    def readinto1(self, *a):
        return self._hold(self._r.readinto1, *a)

    def readline(self, *a):
        return self._hold(self._r.readline, *a)

    def peek(self, *a):
        return self._hold(self._r.peek, *a)

    def flush(self):
        return self._r.flush()           # BufferedReader.flush() does not take the lock (measured on CPython 3.12)

    def close(self):
        self._wait()
        return self._r.close()

    @property
    def closed(self):
        return self._r.closed

    def __getattr__(self, name):
        return getattr(self._r, name)


class RNet(vnet.Net):
    def __init__(self, scn):
        super().__init__(self._respond)
        self.scn = scn
        self.sched = None
        self.injected = []

    def _respond(self, peer, req):
        vs = self.socks[peer.cid]()
        pending, close = b"", False
        if vs is not None:
            # a server that still owes part of an earlier reply has sent it long before it sees the next request
            while vs._feeds:
                d, c = vs._feeds.pop(0)
                if d != "BOOM":
                    pending += d
                    close = close or c
        if close:
            return vnet.Reply(pending, close=True)
        if req.target == "/probe":
            return vnet.Reply(pending + b"HTTP/1.1 200 OK\r\nContent-Length: %d\r\n\r\n%s" % (len(PROBE_BODY), PROBE_BODY))
        feeds = wire(self.scn)
        if vs is not None:
            vs._feeds = feeds[1:]
        return vnet.Reply(pending + feeds[0][0], close=feeds[0][1])

    def create_connection(self, address, timeout=None, source_address=None, socket_options=None):
        with self._lock:
            cid = len(self.dials) + 1
            self.dials.append((cid, address, timeout, source_address, socket_options))
        a, b = socket.socketpair()
        peer = vnet.Peer(self, cid, b, self.responder)
        self.peers[cid] = peer
        vs = RSocket(a.detach(), self, cid, peer, {})
        self.socks[cid] = weakref.ref(vs)
        self.log.append(("DIAL", cid))
        vs.settimeout(timeout if isinstance(timeout, (int, float)) else None)
        for opt in socket_options or ():
            vs.setsockopt(*opt)
        return vs

    def sock_state(self, cid):
        ref = self.socks.get(cid)
        vs = ref() if ref is not None else None
        if vs is None or vs.fileno() == -1:
            return "closed"
        return "shutrd" if vs._shut else "open"


class RecQueue(queue.LifoQueue):
    net = None

    def put(self, item, block=True, timeout=None):
        s = self.net.sched
        if s is not None:
            s.yield_point("QPut")
        try:
            super().put(item, block, timeout)
        except queue.Full:
            self.net.log.append(("QPUT", 1 if item is not None else 0, "full"))
            raise
        self.net.log.append(("QPUT", 1 if item is not None else 0, "ok"))

    def get(self, block=True, timeout=None):
        item = super().get(block, timeout)
        self.net.log.append(("QGET", 1 if item is not None else 0))
        return item


def make_pool(net):
    import urllib3
    from urllib3.connection import HTTPConnection
    made = []

    class RecConn(HTTPConnection):
        def __init__(self, *a, **kw):
            super().__init__(*a, **kw)
            made.append(weakref.ref(self))

    q = type("RecQ", (RecQueue,), {"net": net})
    pcls = type("RecPool", (urllib3.HTTPConnectionPool,), {"QueueCls": q, "ConnectionCls": RecConn})
    pool = pcls("h.test", 80, maxsize=1, block=False, timeout=None, retries=False)
    pool._made = made
    return pool


def _cap(n, c):
    return n if n < c else c


class Ctx:
    """One response under test and everything needed to observe it from outside (nothing in here decides anything)."""

    def __init__(self, scn):
        self.scn = scn
        self.net = RNet(scn)
        self.pool = None
        self.resp = None
        self.rref = self.oref = None
        self.gen = None
        self.genstate = "none"
        self.deliv = 0
        self.nrerr = self.ndisp = self.nshok = self.nint = 0
        self.mark = 0
        self.t = {n: {"pc": "Done", "op": "none", "res": "none", "errk": "none", "nops": 0} for n in ("a", "b")}
        self.lock = threading.Lock()

    # ---- the request
    def request(self):
        mode = self.scn["mode"]
        kw = {"preload_content": mode != "stream"}
        if mode == "preload_norel":
            kw["release_conn"] = False
        try:
            r = self.pool.urlopen("GET", "/", **kw)
        except BaseException as ex:
            if any(ex is x for x in self.net.injected):
                self.nint = 1
            elif not self._u3(ex):
                raise tlc.MachineryError(f"request failed with {ex!r} in scenario {self.scn}")
            ex.__traceback__ = None
            del ex
            self.mark = len(self.net.log)
            return
        self.resp = r
        self.rref = weakref.ref(r)
        self.oref = weakref.ref(r._original_response)
        if mode != "stream":
            self.deliv = len(r.data or b"") // UNIT
        self.t["a"]["pc"] = "Idle"
        self.mark = len(self.net.log)

    @staticmethod
    def _u3(ex):
        from urllib3.exceptions import HTTPError
        return isinstance(ex, HTTPError)

    def errkind(self, ex):
        if any(ex is x for x in self.net.injected):
            return "interrupt"
        if self._u3(ex):
            return "urllib3"
        if isinstance(ex, Hang):
            return "hang"
        if isinstance(ex, ValueError):
            return "value"
        return "raw" if isinstance(ex, Exception) else "base"

    # ---- one API call by thread `who`
    def call(self, who, op):
        t = self.t[who]
        t["op"], t["res"], t["errk"] = op, "none", "none"
        r = self.resp
        res, errk = "ok", "none"
        try:
            if op == "read":
                d = r.read()
            elif op == "readn":
                d = r.read(UNIT)
            elif op == "read1n":
                d = r.read1(UNIT)
            elif op == "stream":
                if self.gen is None:
                    self.gen = r.stream(UNIT)
                try:
                    d = next(self.gen)
                    self.genstate = "chunk" if self.scn["fr"] == "chunked" else "plain"
                except StopIteration:
                    d = "end"
                    self.gen = None
                    self.genstate = "none"
            elif op == "release":
                r.release_conn()
                d = "ok"
            elif op == "drain":
                r.drain_conn()
                d = "ok"
            elif op == "close":
                r.close()
                d = "ok"
            elif op == "shutdown":
                r.shutdown()
                d = "ok"
            elif op == "drop":
                g, self.gen = self.gen, None
                del g                      # finalises a suspended generator (GeneratorExit inside _error_catcher)
                self.genstate = "none"
                self.resp = r = None
                gc.collect()
                d = "ok"
            else:
                raise tlc.MachineryError("unknown call " + op)
            if isinstance(d, bytes):
                if len(d) % UNIT:
                    res = "data?%d" % len(d)
                else:
                    res = "data%d" % (len(d) // UNIT)
                    with self.lock:
                        self.deliv += len(d) // UNIT
            elif d is None:
                res = "None"
            else:
                res = d
        except Abort:
            raise
        except tlc.MachineryError:
            raise
        except BaseException as ex:
            res, errk = "err:" + type(ex).__name__, self.errkind(ex)
            if op == "stream":
                self.gen = None
                self.genstate = "none"
            ex.__traceback__ = None
            del ex
        with self.lock:
            if op in READ_OPS and errk != "none":
                self.nrerr = 1
            if op in DISP_OPS:
                self.ndisp = 1
            if op == "shutdown" and errk == "none":
                self.nshok = _cap(self.nshok + 1, 2)
            if errk == "interrupt":
                self.nint = 1
        t["res"], t["errk"] = res, errk
        t["nops"] += 1

    # ---- the observable projection (order = Fields of spec/RespLife_Trace.tla)
    def project(self):
        net, pool = self.net, self.pool
        r = self.rref() if self.rref is not None else None
        o = self.oref() if self.oref is not None else None
        new = net.log[self.mark:]
        self.mark = len(net.log)
        items = list(pool.pool.queue) if pool.pool is not None else []
        conn = pool._made[0]() if pool._made else None
        lr = r.length_remaining if r is not None else None
        io = "none"
        for e in new:
            if e[0] == "RECV" or e[0] == "HANG" or (e[0] == "FEED" and e[2] == "boom"):
                io = "recv"
            elif e[0] in ("SHUTDOWN", "SHUTFAIL") and io == "none":
                io = "shut" if e[0] == "SHUTDOWN" else io
        peer = net.peers.get(1)
        fed = 1 + sum(1 for e in net.log if e[0] == "FEED" and e[1] == 1)
        qget = max([i for i, e in enumerate(net.log) if e[0] == "QGET"][:1] or [0])
        kern = 0
        if self.net.sched is not None and self.net.sched.concurrent:
            ref = net.socks.get(1)
            vs = ref() if ref is not None else None
            kern = 1 if (vs is not None and vs.fileno() != -1 and vs._pending_data()) else 0
        a, b = self.t["a"], self.t["b"]
        return [r is not None,
                bool(r is not None and r._connection is not None),
                bool(r is not None and r._sock_shutdown is not None),
                0 if lr is None else lr // UNIT,
                self.genstate,
                bool(r is not None and o is not None and o.fp is not None),
                bool(r is None or o is None or o.closed),
                bool(conn is not None and conn.sock is not None),
                net.sock_state(1),
                fed, kern, bool(peer is not None and peer.closed),
                len(items), any(it is not None for it in items),
                _cap(sum(1 for e in net.log[qget:] if e[0] == "QPUT"), 3),
                self.deliv, self.nrerr, self.ndisp, self.nshok, self.nint,
                1 if any(e[0] == "FEED" and e[2] == "boom" for e in net.log) else 0,
                io,
                a["pc"], a["op"], a["res"], a["errk"], a["nops"],
                b["pc"], b["op"], b["res"], b["errk"], b["nops"]]


FIELDS = ["have", "own", "shutset", "ulen", "gen", "hfp", "hflag", "csock", "sock", "fedn", "kern", "pclosed", "slots", "pooled",
          "puts", "deliv", "nrerr", "ndisp", "nshok", "nint", "nboom", "io", "pc_a", "op_a", "res_a", "errk_a", "nops_a",
          "pc_b", "op_b", "res_b", "errk_b", "nops_b"]


def as_dict(obs):
    return dict(zip(FIELDS, obs))


class SeqRecorder:
    """Sequential part: the only thread is the caller; a yield point just logs the projection (no switching)."""
    concurrent = False

    def __init__(self, ctx):
        self.ctx = ctx
        self.obs = []
        self.steps = []
        self.on = False
        self.cur = "none"

    def yield_point(self, label):
        if not self.on:
            return
        self.ctx.t["a"]["pc"] = label
        self.snap()

    def snap(self):
        self.obs.append(self.ctx.project())
        self.steps.append(["a", self.cur])
        self.cur = "none"


def _probe(ctx):
    pr = "ok"
    try:
        r2 = ctx.pool.urlopen("GET", "/probe")
        if r2.data != PROBE_BODY or r2.status != 200:
            pr = "bad"
    except BaseException as ex:
        pr = "bad"
        ex.__traceback__ = None
        del ex
    return pr


def run_seq(scn, ops, probe=True):
    """One caller: the request, then the calls one after another on the REAL response, then the final drop.
    Returns the trace for RespLife_Trace (observation after every step of the Model's grain)."""
    logging.getLogger("urllib3").setLevel(logging.ERROR)
    install_points()
    ctx = Ctx(scn)
    rec = SeqRecorder(ctx)
    with ctx.net:
        ctx.pool = make_pool(ctx.net)
        ctx.net.sched = rec
        _ACTIVE[0] = rec
        try:
            ctx.request()
            rec.obs.append(ctx.project())
            done = []
            if ctx.resp is not None:
                for op in list(ops) + ["drop"]:
                    rec.on, rec.cur = True, op
                    ctx.call("a", op)
                    rec.on = False
                    ctx.t["a"]["pc"] = "Done" if op == "drop" else "Idle"
                    rec.snap()
                    done.append(op)
                    if op == "drop":
                        break
        finally:
            _ACTIVE[0] = None
            ctx.net.sched = None
        out = {"fr": scn["fr"], "sv": scn["sv"], "mode": scn["mode"], "pa": [], "pb": [], "ops": done,
               "steps": rec.steps, "obs": rec.obs, "stuck": False, "probe": "none"}
        if probe:
            ctx.gen = ctx.resp = None
            gc.collect()
            out["probe"] = _probe(ctx)
            out["dials"] = len(ctx.net.dials)
        ctx.pool.close()
    return out


# ------------------------------------------------------------------------------------------- TLC validation
def _last_res(tr, k):
    """Result of the k-th completed call of thread a in a sequential trace."""
    done = [o for i, o in enumerate(tr["obs"][1:]) if o[22] in ("Idle", "Done")]
    return done[k][24] if k < len(done) else None


_DETECTED = {}


def detect_fixes():
    """Which of the Model's named repairs does the tree under test already contain?  Probed on the real code, so that the
    Model of the code as found follows /repo when a deviation is repaired there."""
    if "v" in _DETECTED:
        return _DETECTED["v"]
    fixes = []
    t1 = run_seq({"fr": "cl", "sv": "ka", "mode": "stream"}, ["read", "shutdown"], probe=False)
    t2 = run_seq({"fr": "cl", "sv": "ka", "mode": "stream"}, ["readn", "release", "shutdown"], probe=False)
    if _last_res(t1, 1) == "err:ValueError" and _last_res(t2, 2) == "err:ValueError":
        fixes.append("shutdown")
    t3 = run_seq({"fr": "chunked", "sv": "ka", "mode": "stream"}, ["stream", "close", "stream"], probe=False)
    if _last_res(t3, 2) == "err:ProtocolError":
        fixes.append("chunkresume")

    # two threads inside release_conn: the reader (at end of body) has put the connection back but not yet cleared the
    # back-reference when the other thread calls release_conn()
    def directed(en, n, last, pcs):
        if "e" in en:
            return "e"
        if pcs["a"] != "RelClear" and "a" in en and pcs["b"] == "Idle":
            return "a"
        return "b" if "b" in en else en[0]

    t4 = run_conc({"fr": "cl", "sv": "ka", "mode": "stream"}, ["read"], ["release"], directed, probe=False)
    if t4["obs"][-1][14] <= 1:
        fixes.append("atomicrelease")
    _DETECTED["v"] = sorted(fixes)
    return _DETECTED["v"]


def _fixes_name(fixes):
    return {(): "NoFixes", ("shutdown",): "FixShutdown", ("chunkresume",): "FixChunk", ("atomicrelease",): "FixAtomic",
            ("chunkresume", "shutdown"): "FixShutdownChunk", ("atomicrelease", "shutdown"): "FixShutdownAtomic",
            ("atomicrelease", "chunkresume"): "FixChunkAtomic",
            ("atomicrelease", "chunkresume", "shutdown"): "AllFixes"}[tuple(sorted(fixes))]


def validate(traces, eager, fixes=()):
    """{id: ([(clause, position), ...], driftpos, field)} from TLC for a batch of traces."""
    if not traces:
        return {}
    cfg = ("SPECIFICATION TSpec\nCONSTANTS Eager = %s\n MaxOps = 99\n Fixes <- %s\nCHECK_DEADLOCK FALSE\n"
           % ("TRUE" if eager else "FALSE", "Tr" + _fixes_name(fixes)))
    mod = ("---- MODULE RespLife_TraceRun ----\nEXTENDS RespLife_Trace\n"
           + "\n".join('Tr%s == %s' % (_fixes_name(f), tlc.tla_val(set(f))) for f in
                       [(), ("shutdown",), ("chunkresume",), ("atomicrelease",), ("chunkresume", "shutdown"),
                        ("atomicrelease", "shutdown"), ("atomicrelease", "chunkresume"), ("atomicrelease", "chunkresume", "shutdown")])
           + "\n====\n")
    keep = [{k: t[k] for k in ("id", "fr", "sv", "mode", "pa", "pb", "steps", "obs", "stuck", "probe")} for t in traces]
    r = tlc.run("RespLife_TraceRun", cfg, workers=1, deadlock=False, heap="2g", timeout=1800,
                files={"RespLife_TraceRun.tla": mod, "traces.json": json.dumps(keep, separators=(",", ":"))},
                env={"TRACE_FILE": "traces.json"}, expect_fail=True)
    out, done = {}, None
    for ln in r.out.splitlines():
        ln = ln.strip().strip('"')
        if ln.startswith("VERDICT|"):
            p = ln.split("|")
            fails = [] if p[2] == "ok" else [(c.split("@")[0], int(c.split("@")[1])) for c in p[2].split(",")]
            out[p[1]] = (fails, int(p[3]), p[4])
        elif ln.startswith("DONE|"):
            done = int(ln.split("|")[1])
    if done != len(traces) or len(out) != len(traces):
        raise tlc.MachineryError(f"RespLife_Trace returned {len(out)} verdicts (DONE={done}) for {len(traces)} traces:\n{r.out[-3000:]}")
    return out


# ------------------------------------------------------------------------------------------ sequential part
_FROZEN = [False]


def _freeze():
    """Full collections are part of every run (drop + gc); make them scan only what the run created."""
    if not _FROZEN[0]:
        run_seq({"fr": "cl", "sv": "ka", "mode": "stream"}, [])
        gc.collect()
        gc.freeze()
        _FROZEN[0] = True


SNAP_KEYS = {"own": 1, "shutset": 2, "hfp": 5, "csock": 7, "sock": 8, "slots": 12, "pooled": 13, "puts": 14, "deliv": 15}


def _compare_expected(tr, exp):
    """TLC's expected observation at every call boundary against the real run: None or a text (drift)."""
    bounds = [i for i, st in enumerate(tr["steps"]) if tr["obs"][i + 1][22] in ("Idle", "Done")]
    if len(bounds) != len(exp):
        return f"{len(bounds)} calls completed, the model expected {len(exp)}"
    for k, (i, e) in enumerate(zip(bounds, exp)):
        o = tr["obs"][i + 1]
        got = {"op": o[23], "res": o[24], "errk": o[25]}
        got.update({key: o[idx] for key, idx in SNAP_KEYS.items()})
        for key in e:
            if got.get(key) != e[key]:
                return f"call {k + 1} ({e['op']}): {key} = {got.get(key)!r}, the model expected {e[key]!r}"
    return None


def _seq_worker(arg):
    """Replay a chunk of call sequences on the real code, have TLC judge the traces; returns per sequence
    (id, scn, ops, verdict, expected-mismatch)."""
    chunk, fixes = arg
    _freeze()
    traces, out = [], []
    for sid, scn, ops, exp in chunk:
        tr = run_seq(scn, ops)
        tr["id"] = sid
        mism = _compare_expected(tr, exp) if exp is not None else None
        out.append([sid, scn, list(ops), None, mism, len(tr["obs"]), tr["probe"]])
        traces.append(tr)
    v = validate(traces, True, fixes)
    for rec in out:
        rec[3] = v[rec[0]]
    return out


# ------------------------------------------------------------------------------------------ two-thread part
class Sched:
    """Cooperative scheduler over REAL threads: exactly one runs at a time; a thread parks at every yield point and is
    resumed only when the step it is about to take can complete (socket readable / buffered file free)."""
    concurrent = True

    def __init__(self, ctx):
        self.ctx = ctx
        self.main = _thread.allocate_lock()
        self.main.acquire()
        self.gate = {}
        self.names = {}
        self.pending = {}
        self.wait = {}
        self.done = set()
        self.errors = {}
        self.aborting = False

    def me(self):
        return self.names.get(threading.get_ident())

    def yield_point(self, label):
        n = self.me()
        if n is None or self.aborting:
            return
        self.ctx.t[n]["pc"] = label
        self.pending[n] = label
        self.main.release()
        self.gate[n].acquire()
        if self.aborting:
            raise Abort()

    def block_recv(self, sock):
        n = self.me()
        if n is None:
            return
        self.wait[n] = ("recv", sock)
        try:
            self.yield_point("Recv")
        finally:
            self.wait.pop(n, None)

    def block_buf(self, f):
        n = self.me()
        self.wait[n] = ("buf", f)
        try:
            self.yield_point("BufWait")
        finally:
            self.wait.pop(n, None)

    def enabled(self, n):
        w = self.wait.get(n)
        if w is None:
            return True
        if w[0] == "recv":
            return w[1]._readable()
        return w[1].owner is None


class _Worker:
    """A long-lived thread that runs one job at a time (creating threads per schedule costs ~10 ms each)."""

    def __init__(self):
        self.go = _thread.allocate_lock()
        self.go.acquire()
        self.idle = _thread.allocate_lock()
        self.idle.acquire()
        self.job = None
        self.thread = threading.Thread(target=self._loop, daemon=True)
        self.thread.start()

    def _loop(self):
        while True:
            self.go.acquire()
            fn, self.job = self.job, None
            try:
                fn()
            except BaseException:
                pass
            finally:
                fn = None
                self.idle.release()

    def submit(self, fn):
        self.job = fn
        self.go.release()

    def join(self, timeout):
        return self.idle.acquire(True, timeout)


_WORKERS = {}


def _workers():
    if os.getpid() != _WORKERS.get("pid"):
        _WORKERS.clear()
        _WORKERS["pid"] = os.getpid()
        _WORKERS["a"], _WORKERS["b"] = _Worker(), _Worker()
    return _WORKERS


def run_conc(scn, pa, pb, chooser, max_steps=400, probe=True):
    """Reader thread a (program pa) and disposer thread b (program pb) on one REAL response, the server as third party
    "e".  chooser(enabled, nstep, last, pcs) -> name (pcs: where every thread is parked).  Returns the trace for
    RespLife_Trace."""
    logging.getLogger("urllib3").setLevel(logging.ERROR)
    install_points()
    ctx = Ctx(scn)
    s = Sched(ctx)
    progs = {"a": list(pa), "b": list(pb)}
    with ctx.net:
        ctx.pool = make_pool(ctx.net)
        ctx.net.sched = s
        _ACTIVE[0] = s
        threads = {}
        try:
            ctx.request()
            if ctx.resp is None:
                raise tlc.MachineryError(f"two-thread scenario {scn}: the request failed")
            for n in ("a", "b"):
                ctx.t[n]["pc"] = "Idle" if progs[n] else "Done"

            def body(n):
                try:
                    for op in progs[n]:
                        s.yield_point("Idle")
                        ctx.call(n, op)
                        ctx.t[n]["pc"] = "Idle"
                    ctx.t[n]["pc"] = "Done"
                except Abort:
                    pass
                except BaseException as ex:          # harness failure: ctx.call records every exception of the code under test
                    s.errors[n] = repr(ex)
                finally:
                    s.done.add(n)
                    if not s.aborting:
                        s.main.release()

            for n in ("a", "b"):
                if not progs[n]:
                    s.done.add(n)
                    continue
                s.gate[n] = _thread.allocate_lock()
                s.gate[n].acquire()
                w = _workers()[n]
                s.names[w.thread.ident] = n
                threads[n] = w
                w.submit(lambda n=n: body(n))  # runs up to the park before the first call
                if not s.main.acquire(timeout=30):
                    raise tlc.MachineryError("scheduler: thread did not reach its first yield point")
            nextop = {n: 0 for n in progs}
            obs, steps = [ctx.project()], []
            last, stuck = None, False
            unreal = None
            while len(steps) < max_steps:
                live = [n for n in ("a", "b") if n not in s.done]
                if not live:
                    break
                en = [n for n in live if s.enabled(n)]
                vs = ctx.net.socks[1]() if 1 in ctx.net.socks else None
                if vs is not None and vs._feeds and vs._feeds[0][0] != "BOOM":
                    en.append("e")
                if not en:
                    stuck = True
                    break
                pick = chooser(sorted(en), len(steps), last, {n: ctx.t[n]["pc"] for n in ("a", "b")})
                if pick not in en:
                    unreal = (len(steps), pick, sorted(en))
                    break
                if pick == "e":
                    vs.feed_next()
                    steps.append(["e", "none"])
                else:
                    at = s.pending.get(pick)
                    op = "none"
                    if at == "Idle":
                        op = progs[pick][nextop[pick]]
                        nextop[pick] += 1
                    steps.append([pick, op])
                    s.gate[pick].release()
                    if not s.main.acquire(timeout=30):
                        raise tlc.MachineryError(f"scheduler: thread {pick} did not come back (parked at {at}, scenario {scn}, {pa}, {pb})")
                obs.append(ctx.project())
                last = pick
            else:
                raise tlc.MachineryError(f"scheduler: more than {max_steps} steps ({scn}, {pa}, {pb})")
        finally:
            s.aborting = True
            _ACTIVE[0] = None
            for n, w in threads.items():
                if n not in s.done:
                    try:
                        s.gate[n].release()
                    except RuntimeError:
                        pass
            for n, w in threads.items():
                if not w.join(10):
                    _WORKERS.clear()
                    raise tlc.MachineryError(f"scheduler: thread {n} could not be torn down ({scn}, {pa}, {pb})")
            ctx.net.sched = None
        if s.errors:
            raise tlc.MachineryError(f"scheduler: thread leaked {s.errors}")
        out = {"fr": scn["fr"], "sv": scn["sv"], "mode": "stream", "pa": list(pa), "pb": list(pb), "steps": steps, "obs": obs,
               "stuck": stuck, "probe": "none", "unrealised": unreal}
        if probe and not stuck:
            ctx.gen = ctx.resp = None
            gc.collect()
            out["probe"] = _probe(ctx)
        ctx.pool.close()
    return out


def dfs_schedules(scn, pa, pb, bound, cap):
    """Stateless bounded-preemption DFS over the REAL code: yields traces.  A preemption = switching away from the
    thread that ran last while it is still enabled (the server "e" counts as a thread)."""
    stack = [[]]
    seen = 0
    while stack and seen < cap:
        prefix = stack.pop()
        record = []

        def chooser(en, n, last, pcs, prefix=prefix, record=record):
            if n < len(prefix):
                c = prefix[n]
            else:
                c = last if last in en else en[0]
            record.append((tuple(en), c, last))
            return c

        tr = run_conc(scn, pa, pb, chooser)
        seen += 1
        yield tr
        pre = 0
        for i, (en, c, last) in enumerate(record):
            if i >= len(prefix):
                for alt in en:
                    if alt == c:
                        continue
                    cost = pre + (1 if (last in en and alt != last) else 0)
                    if cost <= bound:
                        stack.append([r[1] for r in record[:i]] + [alt])
            if last in en and c != last:
                pre += 1
