"""Life cycle of an HTTPResponse (urllib3/response.py) and of the connection it borrows from its pool -- growth of the
specification beyond the listed clauses (DESIGN.md section 8, item 4 and more).  Serves C01 (slot conservation, only urllib3
errors, interrupts propagate, no orphan socket), C02 (no internal error, no hang under every interleaving) and C13 (a cut-off
body is never presented as complete; its connection is never handed to another request).

spec/RespLife.tla is implementation-shaped: one action = the code one thread runs between two YIELD POINTS -- ten source lines
of response.py selected by pattern (LABELS below: _raw_read's fp check and length bookkeeping, the two decisions of
_error_catcher's finally, the three statements of release_conn, the two halves of close(), shutdown()'s test), the pool
queue's put, the socket's recv / shutdown and the lock of the BufferedReader http.client reads from.  This module installs
exactly those yield points over the REAL code (sys.monitoring LINE events, QueueCls, a socket subclass of vh/net.py), so a
behaviour of the spec is a schedule of the real code and vice versa.

stage 1  TLC checks the Rules exhaustively on the Model: sequential part (one caller, every sequence of calls over
         {read, read(n), read1(n), stream step, release_conn, drain_conn, close, shutdown} + drop, x framing x server
         behaviour x preload mode; history hidden by a VIEW) and two-thread part (reader x disposer x server, every
         interleaving; safety, and liveness under weak fairness) -- for the repaired design (all rules hold), for the
         repaired design minus one repair / plus one design-level mutant (TLC must refute the expected rule: the rules
         bite) and for the code as found (the repairs present in the tree are detected by probing the real code)
stage 2  TLC emits every call sequence / every complete schedule of pinned scenarios with the Model's expected
         observations; each is replayed step by step on a REAL HTTPResponse produced by a REAL HTTPConnectionPool
stage 3  bounded-preemption DFS and seeded random schedules over the real threads; seeded random longer call sequences
stage 4  every recorded trace (observable projection after every step) is judged by TLC with spec/RespLife_Trace.tla:
         the Rules (hard: violation unless the failing step matches a recorded finding of known_findings.d/RESPLIFE.json)
         and refinement of the Model run alongside (drift)
"""
from __future__ import annotations

import gc
import inspect
import json
import logging
import os
import queue
import random
import re
import socket
import sys
import threading
import weakref
import _thread

from . import known
from . import net as vnet
from . import tlc

JOBS = int(os.environ.get("VERIF_JOBS") or 0) or (os.cpu_count() or 4)
UNIT = 4
UNITS = [b"abcd", b"efgh"]
TOTAL = sum(len(u) for u in UNITS)
OPS = ("read", "readn", "read1n", "stream", "release", "drain", "close", "shutdown")
READ_OPS = ("read", "readn", "read1n", "stream")
DISP_OPS = ("release", "drain", "close")
PROBE_BODY = b"probe-ok"
SEQ_KINDS = [(fr, sv) for fr in ("cl", "chunked") for sv in ("ka", "close", "cut", "boom")] + [("eof", "close"), ("cl", "reset")]


class Hang(BaseException):
    """The code under test asked the socket for data that will never come (single caller, no timeout)."""


class Interrupt(KeyboardInterrupt):
    """The injected interrupt (identity is what is checked)."""


class Abort(BaseException):
    """Unwinds a scheduled thread when a run is torn down."""


def wire(scn):
    """[(bytes, peer closes afterwards)]: the reply is delivered in feeds: the first with the request, the second only
    when the client waits for it (sequential part) or when the scheduler lets the server speak (two-thread part), so
    what has NOT been read is really not there yet."""
    fr, sv = scn["fr"], scn["sv"]
    head = b"HTTP/1.1 200 OK\r\n"
    if fr == "cl":
        head += b"Content-Length: %d\r\n" % TOTAL
    elif fr == "chunked":
        head += b"Transfer-Encoding: chunked\r\n"
    if sv == "close" or fr == "eof":
        head += b"Connection: close\r\n"
    head += b"\r\n"
    closes = sv == "close" or fr == "eof"
    if fr == "chunked":
        u = [b"%x\r\n%s\r\n" % (len(x), x) for x in UNITS]
        first = head + u[0]
        second = (u[1] + b"0\r\n\r\n", closes)
        if sv == "cut":
            second = (b"%x\r\n" % len(UNITS[1]), True)      # cut inside the second chunk, right after its size line
    else:
        first = head + UNITS[0]
        second = (UNITS[1], closes)
        if sv == "cut":
            second = (b"", True)
    if sv == "boom":
        second = ("BOOM", False)
    if sv == "reset":
        second = ("RESET", False)
    if sv == "never":
        return [(first, False)]
    return [(first, False), second]


# ------------------------------------------------------------------------------------------ yield points
TOOL = 3          # sys.monitoring tool id (0-2 and 5 have reserved names, vh/lrusched.py uses 4)
LABELS = [
    ("_raw_read", r"fp_closed\s*=\s*getattr\(\s*self\._fp", "ChkFp"),
    ("_raw_read", r"self\._fp_bytes_read\s*\+=", "Book"),
    ("_error_catcher", r"^\s*if self\._original_response:\s*$", "CatClose"),
    ("_error_catcher", r"if self\._original_response and self\._original_response\.isclosed\(\)", "CatRel"),
    ("release_conn", r"if not self\._pool or not self\._connection", "RelTest"),
    ("release_conn", r"self\._pool\._put_conn\(", "RelPut"),
    ("release_conn", r"self\._connection\s*=\s*None", "RelClear"),
    ("close", r"self\._sock_shutdown\s*=\s*None", "ClsBegin"),
    ("close", r"^\s*if self\._connection:\s*$", "ClsConn"),
    ("shutdown", r"if not self\._sock_shutdown", "ShTest"),
]
_POINTS = {}       # code object -> {line: label}
_MISSING = []      # labels whose pattern no longer resolves in the tree under test
_ACTIVE = [None]   # the recorder / scheduler that receives yield points
_INSTALLED = [False]


def _on_line(code, line):
    d = _POINTS.get(code)
    lab = d.get(line) if d is not None else None
    if lab is None:
        return sys.monitoring.DISABLE
    a = _ACTIVE[0]
    if a is not None:
        a.yield_point(lab)
    return None


def install_points():
    if _INSTALLED[0]:
        return
    import urllib3.response as R
    mon = sys.monitoring
    if mon.get_tool(TOOL) is None:
        mon.use_tool_id(TOOL, "vh.resplife")
    mon.register_callback(TOOL, mon.events.LINE, _on_line)
    for fname in sorted({f for f, _, _ in LABELS}):
        fn = inspect.unwrap(getattr(R.HTTPResponse, fname))
        code = fn.__code__
        lines, start = inspect.getsourcelines(fn)
        d = {}
        for f, pat, lab in LABELS:
            if f != fname:
                continue
            hit = [start + i for i, ln in enumerate(lines) if re.search(pat, ln)]
            if len(hit) != 1:
                _MISSING.append(lab)
            for h in hit[:1]:
                d[h] = lab
        _POINTS[code] = d
        mon.set_local_events(TOOL, code, mon.events.LINE)
    _INSTALLED[0] = True


# ------------------------------------------------------------------------------------------------ network
class RSocket(vnet.VSocket):
    """Client end: ground truth about shutdown / close, feeds, cooperative blocking in recv."""

    def __init__(self, *a):
        super().__init__(*a)
        self._feeds = []
        self._shut = False

    def feed_next(self):
        """The server sends the next part of its reply (or the scripted interrupt hits the client)."""
        if not self._feeds:
            return False
        data, close = self._feeds.pop(0)
        p = self._peer
        if data == "BOOM":
            exc = Interrupt("recv")
            self._net.log.append(("FEED", self._cid, "boom"))
            self._net.injected.append(exc)
            raise exc
        if data == "RESET":
            self._net.log.append(("FEED", self._cid, "reset"))
            raise ConnectionResetError(104, "Connection reset by peer")
        self._net.log.append(("FEED", self._cid, len(data), close))
        if not p.closed:
            if data:
                try:
                    p.sock.send(data)
                except OSError:
                    pass                      # the client has shut its read side down / closed: the bytes are lost
            if close:
                p.close()
        return True

    def makefile(self, *a, **kw):
        f = super().makefile(*a, **kw)
        s = self._net.sched
        return CoopFile(f, self._net) if (s is not None and s.concurrent) else f

    def _pending_data(self):
        import fcntl
        import struct
        import termios
        try:
            return struct.unpack("i", fcntl.ioctl(self.fileno(), termios.FIONREAD, b"\0\0\0\0"))[0] > 0
        except OSError:
            return False

    def shutdown(self, how):
        s = self._net.sched
        if s is not None:
            s.yield_point("SockShut")
        try:
            super().shutdown(how)
        except OSError:
            self._net.log.append(("SHUTFAIL", self._cid))
            raise
        self._shut = True
        self._net.log.append(("SHUTDOWN", self._cid, how))

    def recv_into(self, buffer, nbytes=0, *flags):
        s = self._net.sched
        conc = s is not None and s.concurrent
        if conc:
            s.block_recv(self)
        self._peer.pump()
        if not conc:
            while not self._readable():
                if not self.feed_next():
                    self._net.log.append(("HANG", self._cid))
                    raise Hang()
        mv = memoryview(buffer).cast("B")
        n = nbytes or len(mv)
        got = socket.socket.recv_into(self, mv[:n], n)
        self._net.log.append(("RECV", self._cid, got))
        return got


class CoopFile:
    """The buffered file http.client reads from, with its internal lock made cooperative: a thread that would block on
    the BufferedReader's lock (close / flush while another thread is inside a read that waits for the socket) parks in
    the scheduler instead.  Same semantics otherwise."""

    def __init__(self, real, net):
        self._r, self._net, self.owner = real, net, None

    def _wait(self):
        s = self._net.sched
        if s is not None and s.concurrent:
            me = s.me()
            if me is not None and self.owner is not None and self.owner != me:
                s.block_buf(self)
            return me
        return None

    def _hold(self, fn, *a):
        me = self._wait()
        prev, self.owner = self.owner, me
        try:
            return fn(*a)
        finally:
            self.owner = prev

    def read(self, *a):
        return self._hold(self._r.read, *a)

    def read1(self, *a):
        return self._hold(self._r.read1, *a)

    def readinto(self, *a):
        return self._hold(self._r.readinto, *a)

    def readinto1(self, *a):
        return self._hold(self._r.readinto1, *a)

    def readline(self, *a):
        return self._hold(self._r.readline, *a)

    def peek(self, *a):
        return self._hold(self._r.peek, *a)

    def flush(self):
        return self._r.flush()           # BufferedReader.flush() does not take the lock (measured on CPython 3.12)

    def close(self):
        self._wait()
        return self._r.close()

    @property
    def closed(self):
        return self._r.closed

    def __getattr__(self, name):
        return getattr(self._r, name)


class RNet(vnet.Net):
    def __init__(self, scn):
        super().__init__(self._respond)
        self.scn = scn
        self.sched = None
        self.injected = []

    def _respond(self, peer, req):
        vs = self.socks[peer.cid]()
        pending, close = b"", False
        if vs is not None:
            # a server that still owes part of an earlier reply has sent it long before it sees the next request
            while vs._feeds:
                d, c = vs._feeds.pop(0)
                if d not in ("BOOM", "RESET"):
                    pending += d
                    close = close or c
        if close:
            return vnet.Reply(pending, close=True)
        if req.target == "/probe":
            return vnet.Reply(pending + b"HTTP/1.1 200 OK\r\nContent-Length: %d\r\n\r\n%s" % (len(PROBE_BODY), PROBE_BODY))
        feeds = wire(self.scn)
        if vs is not None:
            vs._feeds = feeds[1:]
        return vnet.Reply(pending + feeds[0][0], close=feeds[0][1])

    def create_connection(self, address, timeout=None, source_address=None, socket_options=None):
        with self._lock:
            cid = len(self.dials) + 1
            self.dials.append((cid, address, timeout, source_address, socket_options))
        a, b = socket.socketpair()
        peer = vnet.Peer(self, cid, b, self.responder)
        self.peers[cid] = peer
        vs = RSocket(a.detach(), self, cid, peer, {})
        self.socks[cid] = weakref.ref(vs)
        self.log.append(("DIAL", cid))
        vs.settimeout(timeout if isinstance(timeout, (int, float)) else None)
        for opt in socket_options or ():
            vs.setsockopt(*opt)
        return vs

    def sock_state(self, cid):
        ref = self.socks.get(cid)
        vs = ref() if ref is not None else None
        if vs is None or vs.fileno() == -1:
            return "closed"
        return "shutrd" if vs._shut else "open"


class RecQueue(queue.LifoQueue):
    net = None

    def put(self, item, block=True, timeout=None):
        s = self.net.sched
        if s is not None:
            s.yield_point("QPut")
        try:
            super().put(item, block, timeout)
        except queue.Full:
            self.net.log.append(("QPUT", 1 if item is not None else 0, "full"))
            raise
        self.net.log.append(("QPUT", 1 if item is not None else 0, "ok"))

    def get(self, block=True, timeout=None):
        item = super().get(block, timeout)
        self.net.log.append(("QGET", 1 if item is not None else 0))
        return item


def make_pool(net):
    import urllib3
    from urllib3.connection import HTTPConnection
    made = []

    class RecConn(HTTPConnection):
        def __init__(self, *a, **kw):
            super().__init__(*a, **kw)
            made.append(weakref.ref(self))

    q = type("RecQ", (RecQueue,), {"net": net})
    pcls = type("RecPool", (urllib3.HTTPConnectionPool,), {"QueueCls": q, "ConnectionCls": RecConn})
    pool = pcls("h.test", 80, maxsize=1, block=False, timeout=None, retries=False)
    pool._made = made
    return pool


def _cap(n, c):
    return n if n < c else c


class Ctx:
    """One response under test and everything needed to observe it from outside (nothing in here decides anything)."""

    def __init__(self, scn):
        self.scn = scn
        self.net = RNet(scn)
        self.pool = None
        self.resp = None
        self.rref = self.oref = None
        self.gen = None
        self.genstate = "none"
        self.deliv = 0
        self.nrerr = self.ndisp = self.nshok = self.nint = 0
        self.mark = 0
        self.t = {n: {"pc": "Done", "op": "none", "res": "none", "errk": "none", "nops": 0} for n in ("a", "b")}
        self.lock = threading.Lock()

    # ---- the request
    def request(self):
        mode = self.scn["mode"]
        kw = {"preload_content": mode != "stream"}
        if mode == "preload_norel":
            kw["release_conn"] = False
        try:
            r = self.pool.urlopen("GET", "/", **kw)
        except BaseException as ex:
            if any(ex is x for x in self.net.injected):
                self.nint = 1
            elif not self._u3(ex):
                raise tlc.MachineryError(f"request failed with {ex!r} in scenario {self.scn}")
            ex.__traceback__ = None
            del ex
            self.mark = len(self.net.log)
            return
        self.resp = r
        self.rref = weakref.ref(r)
        self.oref = weakref.ref(r._original_response)
        if mode != "stream":
            self.deliv = len(r.data or b"") // UNIT
        self.t["a"]["pc"] = "Idle"
        self.mark = len(self.net.log)

    @staticmethod
    def _u3(ex):
        from urllib3.exceptions import HTTPError
        return isinstance(ex, HTTPError)

    def errkind(self, ex):
        if any(ex is x for x in self.net.injected):
            return "interrupt"
        if self._u3(ex):
            return "urllib3"
        if isinstance(ex, Hang):
            return "hang"
        if isinstance(ex, ValueError):
            return "value"
        return "raw" if isinstance(ex, Exception) else "base"

    # ---- one API call by thread `who`
    def call(self, who, op):
        t = self.t[who]
        t["op"], t["res"], t["errk"] = op, "none", "none"
        r = self.resp
        res, errk = "ok", "none"
        try:
            if op == "read":
                d = r.read()
            elif op == "readn":
                d = r.read(UNIT)
            elif op == "read1n":
                d = r.read1(UNIT)
            elif op == "stream":
                if self.gen is None:
                    self.gen = r.stream(UNIT)
                try:
                    d = next(self.gen)
                    self.genstate = "chunk" if self.scn["fr"] == "chunked" else "plain"
                except StopIteration:
                    d = "end"
                    self.gen = None
                    self.genstate = "none"
            elif op == "release":
                r.release_conn()
                d = "ok"
            elif op == "drain":
                r.drain_conn()
                d = "ok"
            elif op == "close":
                r.close()
                d = "ok"
            elif op == "shutdown":
                r.shutdown()
                d = "ok"
            elif op == "drop":
                g, self.gen = self.gen, None
                del g                      # finalises a suspended generator (GeneratorExit inside _error_catcher)
                self.genstate = "none"
                self.resp = r = None
                gc.collect()
                d = "ok"
            else:
                raise tlc.MachineryError("unknown call " + op)
            if isinstance(d, bytes):
                if len(d) % UNIT:
                    res = "data?%d" % len(d)
                else:
                    res = "data%d" % (len(d) // UNIT)
                    with self.lock:
                        self.deliv += len(d) // UNIT
            elif d is None:
                res = "None"
            else:
                res = d
        except Abort:
            raise
        except tlc.MachineryError:
            raise
        except BaseException as ex:
            res, errk = "err:" + type(ex).__name__, self.errkind(ex)
            if op == "stream":
                self.gen = None
                self.genstate = "none"
            ex.__traceback__ = None
            del ex
        with self.lock:
            if op in READ_OPS and errk != "none":
                self.nrerr = 1
            if op in DISP_OPS:
                self.ndisp = 1
            if op == "shutdown" and errk == "none":
                self.nshok = _cap(self.nshok + 1, 2)
            if errk == "interrupt":
                self.nint = 1
        t["res"], t["errk"] = res, errk
        t["nops"] += 1

    # ---- the observable projection (order = Fields of spec/RespLife_Trace.tla)
    def project(self):
        net, pool = self.net, self.pool
        r = self.rref() if self.rref is not None else None
        o = self.oref() if self.oref is not None else None
        new = net.log[self.mark:]
        self.mark = len(net.log)
        items = list(pool.pool.queue) if pool.pool is not None else []
        conn = pool._made[0]() if pool._made else None
        lr = r.length_remaining if r is not None else None
        io = "none"
        for e in new:
            if e[0] == "RECV" or e[0] == "HANG" or (e[0] == "FEED" and e[2] in ("boom", "reset")):
                io = "recv"
            elif e[0] in ("SHUTDOWN", "SHUTFAIL") and io == "none":
                io = "shut" if e[0] == "SHUTDOWN" else io
        peer = net.peers.get(1)
        fed = 1 + sum(1 for e in net.log if e[0] == "FEED" and e[1] == 1)
        qget = max([i for i, e in enumerate(net.log) if e[0] == "QGET"][:1] or [0])
        kern = 0
        if self.net.sched is not None and self.net.sched.concurrent:
            ref = net.socks.get(1)
            vs = ref() if ref is not None else None
            kern = 1 if (vs is not None and vs.fileno() != -1 and vs._pending_data()) else 0
        a, b = self.t["a"], self.t["b"]
        return [r is not None,
                bool(r is not None and r._connection is not None),
                bool(r is not None and r._sock_shutdown is not None),
                0 if lr is None else lr // UNIT,
                self.genstate,
                bool(r is not None and o is not None and o.fp is not None),
                bool(r is None or o is None or o.closed),
                bool(conn is not None and conn.sock is not None),
                net.sock_state(1),
                fed, kern, bool(peer is not None and peer.closed),
                len(items), any(it is not None for it in items),
                _cap(sum(1 for e in net.log[qget:] if e[0] == "QPUT"), 3),
                self.deliv, self.nrerr, self.ndisp, self.nshok, self.nint,
                1 if any(e[0] == "FEED" and e[2] == "boom" for e in net.log) else 0,
                io,
                a["pc"], a["op"], a["res"], a["errk"], a["nops"],
                b["pc"], b["op"], b["res"], b["errk"], b["nops"]]


FIELDS = ["have", "own", "shutset", "ulen", "gen", "hfp", "hflag", "csock", "sock", "fedn", "kern", "pclosed", "slots", "pooled",
          "puts", "deliv", "nrerr", "ndisp", "nshok", "nint", "nboom", "io", "pc_a", "op_a", "res_a", "errk_a", "nops_a",
          "pc_b", "op_b", "res_b", "errk_b", "nops_b"]


def as_dict(obs):
    return dict(zip(FIELDS, obs))


class SeqRecorder:
    """Sequential part: the only thread is the caller; a yield point just logs the projection (no switching)."""
    concurrent = False

    def __init__(self, ctx):
        self.ctx = ctx
        self.obs = []
        self.steps = []
        self.on = False
        self.cur = "none"

    def yield_point(self, label):
        if not self.on:
            return
        self.ctx.t["a"]["pc"] = label
        self.snap()

    def snap(self):
        self.obs.append(self.ctx.project())
        self.steps.append(["a", self.cur])
        self.cur = "none"


def _probe(ctx):
    pr = "ok"
    try:
        r2 = ctx.pool.urlopen("GET", "/probe")
        if r2.data != PROBE_BODY or r2.status != 200:
            pr = "bad"
    except BaseException as ex:
        pr = "bad"
        ex.__traceback__ = None
        del ex
    return pr


def run_seq(scn, ops, probe=True):
    """One caller: the request, then the calls one after another on the REAL response, then the final drop.
    Returns the trace for RespLife_Trace (observation after every step of the Model's grain)."""
    logging.getLogger("urllib3").setLevel(logging.ERROR)
    install_points()
    ctx = Ctx(scn)
    rec = SeqRecorder(ctx)
    with ctx.net:
        ctx.pool = make_pool(ctx.net)
        ctx.net.sched = rec
        _ACTIVE[0] = rec
        try:
            ctx.request()
            rec.obs.append(ctx.project())
            done = []
            if ctx.resp is not None:
                for op in list(ops) + ["drop"]:
                    rec.on, rec.cur = True, op
                    ctx.call("a", op)
                    rec.on = False
                    ctx.t["a"]["pc"] = "Done" if op == "drop" else "Idle"
                    rec.snap()
                    done.append(op)
                    if op == "drop":
                        break
        finally:
            _ACTIVE[0] = None
            ctx.net.sched = None
        out = {"fr": scn["fr"], "sv": scn["sv"], "mode": scn["mode"], "pa": [], "pb": [], "ops": done,
               "steps": rec.steps, "obs": rec.obs, "stuck": False, "probe": "none"}
        if probe:
            ctx.gen = ctx.resp = None
            gc.collect()
            out["probe"] = _probe(ctx)
            out["dials"] = len(ctx.net.dials)
        ctx.pool.close()
    return out


# ------------------------------------------------------------------------------------------- TLC validation
def _last_res(tr, k):
    """Result of the k-th completed call of thread a in a sequential trace."""
    done = [o for i, o in enumerate(tr["obs"][1:]) if o[22] in ("Idle", "Done")]
    return done[k][24] if k < len(done) else None


_DETECTED = {}


def detect_fixes():
    """Which of the Model's named repairs does the tree under test already contain?  Probed on the real code, so that the
    Model of the code as found follows /repo when a deviation is repaired there."""
    if "v" in _DETECTED:
        return _DETECTED["v"]
    fixes = []
    t1 = run_seq({"fr": "cl", "sv": "ka", "mode": "stream"}, ["read", "shutdown"], probe=False)
    t2 = run_seq({"fr": "cl", "sv": "ka", "mode": "stream"}, ["readn", "release", "shutdown"], probe=False)
    if _last_res(t1, 1) == "err:ValueError" and _last_res(t2, 2) == "err:ValueError":
        fixes.append("shutdown")
    t3 = run_seq({"fr": "chunked", "sv": "ka", "mode": "stream"}, ["stream", "close", "stream"], probe=False)
    if _last_res(t3, 2) == "err:ProtocolError":
        fixes.append("chunkresume")

    # two threads inside release_conn: the reader (at end of body) has put the connection back but not yet cleared the
    # back-reference when the other thread calls release_conn()
    def directed(en, n, last, pcs):
        if "e" in en:
            return "e"
        if pcs["a"] != "RelClear" and "a" in en and pcs["b"] == "Idle":
            return "a"
        return "b" if "b" in en else en[0]

    t4 = run_conc({"fr": "cl", "sv": "ka", "mode": "stream"}, ["read"], ["release"], directed, probe=False)
    if t4["obs"][-1][14] <= 1:
        fixes.append("atomicrelease")
    # close() while the reader waits for the socket, then the data arrives
    t5 = run_conc({"fr": "cl", "sv": "ka", "mode": "stream"}, ["read"], ["close"], lambda en, n, last, pcs: last if last in en else en[0],
                  probe=False)
    if t5["obs"][-1][24] != "err:AttributeError":
        fixes.append("closeunder")
    # close() has closed the http.client response but not yet the connection when the reader's read() finds the file closed
    order = "abbaaaaaab"
    t6 = run_conc({"fr": "cl", "sv": "ka", "mode": "stream"}, ["read"], ["close"],
                  lambda en, n, last, pcs: order[n] if n < len(order) and order[n] in en else (last if last in en else en[0]), probe=False)
    fin = as_dict(t6["obs"][-1])
    if not (fin["pooled"] and fin["csock"] and fin["fedn"] < 2):
        fixes.append("releaseunread")
    _DETECTED["v"] = sorted(fixes)
    return _DETECTED["v"]


def _fixset(fixes):
    return "FixSet == " + tlc.tla_val(set(fixes)) + "\n"


def validate(traces, eager, fixes=()):
    """{id: ([(clause, position), ...], driftpos, field)} from TLC for a batch of traces."""
    if not traces:
        return {}
    cfg = ("SPECIFICATION TSpec\nCONSTANTS Eager = %s\n MaxOps = 99\n Fixes <- FixSet\nCHECK_DEADLOCK FALSE\n"
           % ("TRUE" if eager else "FALSE"))
    mod = "---- MODULE RespLife_TraceRun ----\nEXTENDS RespLife_Trace\n" + _fixset(fixes) + "====\n"
    keep = [{k: t[k] for k in ("id", "fr", "sv", "mode", "pa", "pb", "steps", "obs", "stuck", "probe")} for t in traces]
    r = tlc.run("RespLife_TraceRun", cfg, workers=1, deadlock=False, heap="2g", timeout=1800,
                files={"RespLife_TraceRun.tla": mod, "traces.json": json.dumps(keep, separators=(",", ":"))},
                env={"TRACE_FILE": "traces.json"}, expect_fail=True)
    out, done = {}, None
    for ln in r.out.splitlines():
        ln = ln.strip().strip('"')
        if ln.startswith("VERDICT|"):
            p = ln.split("|")
            fails = [] if p[2] == "ok" else [(c.split("@")[0], int(c.split("@")[1])) for c in p[2].split(",")]
            out[p[1]] = (fails, int(p[3]), p[4])
        elif ln.startswith("DONE|"):
            done = int(ln.split("|")[1])
    if done != len(traces) or len(out) != len(traces):
        raise tlc.MachineryError(f"RespLife_Trace returned {len(out)} verdicts (DONE={done}) for {len(traces)} traces:\n{r.out[-3000:]}")
    return out


# ------------------------------------------------------------------------------------------ sequential part
_FROZEN = [False]


def _freeze():
    """Full collections are part of every run (drop + gc); make them scan only what the run created."""
    if not _FROZEN[0]:
        run_seq({"fr": "cl", "sv": "ka", "mode": "stream"}, [])
        gc.collect()
        gc.freeze()
        _FROZEN[0] = True


SNAP_KEYS = {"own": 1, "shutset": 2, "hfp": 5, "csock": 7, "sock": 8, "slots": 12, "pooled": 13, "puts": 14, "deliv": 15}


def _compare_expected(tr, exp):
    """TLC's expected observation at every call boundary against the real run: None or a text (drift)."""
    bounds = [i for i, st in enumerate(tr["steps"]) if tr["obs"][i + 1][22] in ("Idle", "Done")]
    if len(bounds) != len(exp):
        return f"{len(bounds)} calls completed, the model expected {len(exp)}"
    for k, (i, e) in enumerate(zip(bounds, exp)):
        o = tr["obs"][i + 1]
        got = {"op": o[23], "res": o[24], "errk": o[25]}
        got.update({key: o[idx] for key, idx in SNAP_KEYS.items()})
        for key in e:
            if got.get(key) != e[key]:
                return f"call {k + 1} ({e['op']}): {key} = {got.get(key)!r}, the model expected {e[key]!r}"
    return None


def _seq_worker(arg):
    """Replay a chunk of call sequences on the real code, have TLC judge the traces; returns per sequence
    (id, scn, ops, verdict, expected-mismatch)."""
    chunk, fixes = arg
    _freeze()
    traces, out = [], []
    for sid, scn, ops, exp in chunk:
        tr = run_seq(scn, ops)
        tr["id"] = sid
        mism = _compare_expected(tr, exp) if exp is not None else None
        out.append([sid, scn, list(ops), None, mism, len(tr["obs"]), tr["probe"]])
        traces.append(tr)
    v = validate(traces, True, fixes)
    for rec, tr in zip(out, traces):
        rec[3] = v[rec[0]]
        rec.append(tr if (rec[3][0] or rec[3][1]) else None)      # the full trace is only needed for failing / drifting runs
    if out:
        out[0].append(sorted({o[22] for tr in traces for o in tr["obs"]}))
    return out


# ------------------------------------------------------------------------------------------ two-thread part
class Sched:
    """Cooperative scheduler over REAL threads: exactly one runs at a time; a thread parks at every yield point and is
    resumed only when the step it is about to take can complete (socket readable / buffered file free)."""
    concurrent = True

    def __init__(self, ctx):
        self.ctx = ctx
        self.main = _thread.allocate_lock()
        self.main.acquire()
        self.gate = {}
        self.names = {}
        self.pending = {}
        self.wait = {}
        self.done = set()
        self.errors = {}
        self.aborting = False

    def me(self):
        return self.names.get(threading.get_ident())

    def yield_point(self, label):
        n = self.me()
        if n is None or self.aborting:
            return
        self.ctx.t[n]["pc"] = label
        self.pending[n] = label
        self.main.release()
        self.gate[n].acquire()
        if self.aborting:
            raise Abort()

    def block_recv(self, sock):
        n = self.me()
        if n is None:
            return
        self.wait[n] = ("recv", sock)
        try:
            self.yield_point("Recv")
        finally:
            self.wait.pop(n, None)

    def block_buf(self, f):
        n = self.me()
        self.wait[n] = ("buf", f)
        try:
            self.yield_point("BufWait")
        finally:
            self.wait.pop(n, None)

    def enabled(self, n):
        w = self.wait.get(n)
        if w is None:
            return True
        if w[0] == "recv":
            return w[1]._readable()
        return w[1].owner is None


class _Worker:
    """A long-lived thread that runs one job at a time (creating threads per schedule costs ~10 ms each)."""

    def __init__(self):
        self.go = _thread.allocate_lock()
        self.go.acquire()
        self.idle = _thread.allocate_lock()
        self.idle.acquire()
        self.job = None
        self.thread = threading.Thread(target=self._loop, daemon=True)
        self.thread.start()

    def _loop(self):
        while True:
            self.go.acquire()
            fn, self.job = self.job, None
            try:
                fn()
            except BaseException:
                pass
            finally:
                fn = None
                self.idle.release()

    def submit(self, fn):
        self.job = fn
        self.go.release()

    def join(self, timeout):
        return self.idle.acquire(True, timeout)


_WORKERS = {}


def _workers():
    if os.getpid() != _WORKERS.get("pid"):
        _WORKERS.clear()
        _WORKERS["pid"] = os.getpid()
        _WORKERS["a"], _WORKERS["b"] = _Worker(), _Worker()
    return _WORKERS


def run_conc(scn, pa, pb, chooser, max_steps=400, probe=True):
    """Reader thread a (program pa) and disposer thread b (program pb) on one REAL response, the server as third party
    "e".  chooser(enabled, nstep, last, pcs) -> name (pcs: where every thread is parked).  Returns the trace for
    RespLife_Trace."""
    logging.getLogger("urllib3").setLevel(logging.ERROR)
    install_points()
    ctx = Ctx(scn)
    s = Sched(ctx)
    progs = {"a": list(pa), "b": list(pb)}
    with ctx.net:
        ctx.pool = make_pool(ctx.net)
        ctx.net.sched = s
        _ACTIVE[0] = s
        threads = {}
        try:
            ctx.request()
            if ctx.resp is None:
                raise tlc.MachineryError(f"two-thread scenario {scn}: the request failed")
            for n in ("a", "b"):
                ctx.t[n]["pc"] = "Idle" if progs[n] else "Done"

            def body(n):
                try:
                    for op in progs[n]:
                        s.yield_point("Idle")
                        ctx.call(n, op)
                        ctx.t[n]["pc"] = "Idle"
                    ctx.t[n]["pc"] = "Done"
                except Abort:
                    pass
                except BaseException as ex:          # harness failure: ctx.call records every exception of the code under test
                    s.errors[n] = repr(ex)
                finally:
                    s.done.add(n)
                    if not s.aborting:
                        s.main.release()

            for n in ("a", "b"):
                if not progs[n]:
                    s.done.add(n)
                    continue
                s.gate[n] = _thread.allocate_lock()
                s.gate[n].acquire()
                w = _workers()[n]
                s.names[w.thread.ident] = n
                threads[n] = w
                w.submit(lambda n=n: body(n))  # runs up to the park before the first call
                if not s.main.acquire(timeout=30):
                    raise tlc.MachineryError("scheduler: thread did not reach its first yield point")
            nextop = {n: 0 for n in progs}
            obs, steps = [ctx.project()], []
            last, stuck = None, False
            unreal = None
            while len(steps) < max_steps:
                live = [n for n in ("a", "b") if n not in s.done]
                if not live:
                    break
                en = [n for n in live if s.enabled(n)]
                vs = ctx.net.socks[1]() if 1 in ctx.net.socks else None
                if vs is not None and vs._feeds and vs._feeds[0][0] not in ("BOOM", "RESET"):
                    en.append("e")
                if not en:
                    stuck = True
                    break
                pick = chooser(sorted(en), len(steps), last, {n: ctx.t[n]["pc"] for n in ("a", "b")})
                if pick not in en:
                    unreal = (len(steps), pick, sorted(en))
                    break
                if pick == "e":
                    vs.feed_next()
                    steps.append(["e", "none"])
                else:
                    at = s.pending.get(pick)
                    op = "none"
                    if at == "Idle":
                        op = progs[pick][nextop[pick]]
                        nextop[pick] += 1
                    steps.append([pick, op])
                    s.gate[pick].release()
                    if not s.main.acquire(timeout=30):
                        raise tlc.MachineryError(f"scheduler: thread {pick} did not come back (parked at {at}, scenario {scn}, {pa}, {pb})")
                obs.append(ctx.project())
                last = pick
            else:
                raise tlc.MachineryError(f"scheduler: more than {max_steps} steps ({scn}, {pa}, {pb})")
        finally:
            s.aborting = True
            _ACTIVE[0] = None
            for n, w in threads.items():
                if n not in s.done:
                    try:
                        s.gate[n].release()
                    except RuntimeError:
                        pass
            for n, w in threads.items():
                if not w.join(10):
                    _WORKERS.clear()
                    raise tlc.MachineryError(f"scheduler: thread {n} could not be torn down ({scn}, {pa}, {pb})")
            ctx.net.sched = None
        if s.errors:
            raise tlc.MachineryError(f"scheduler: thread leaked {s.errors}")
        out = {"fr": scn["fr"], "sv": scn["sv"], "mode": "stream", "pa": list(pa), "pb": list(pb), "steps": steps, "obs": obs,
               "stuck": stuck, "probe": "none", "unrealised": unreal}
        if probe and not stuck:
            ctx.gen = ctx.resp = None
            gc.collect()
            out["probe"] = _probe(ctx)
        ctx.pool.close()
    return out


def dfs_schedules(scn, pa, pb, bound, cap):
    """Stateless bounded-preemption DFS over the REAL code: yields traces.  A preemption = switching away from the
    thread that ran last while it is still enabled (the server "e" counts as a thread)."""
    stack = [[]]
    seen = 0
    while stack and seen < cap:
        prefix = stack.pop()
        record = []

        def chooser(en, n, last, pcs, prefix=prefix, record=record):
            if n < len(prefix):
                c = prefix[n]
            else:
                c = last if last in en else en[0]
            record.append((tuple(en), c, last))
            return c

        tr = run_conc(scn, pa, pb, chooser)
        seen += 1
        yield tr
        pre = 0
        for i, (en, c, last) in enumerate(record):
            if i >= len(prefix):
                for alt in en:
                    if alt == c:
                        continue
                    cost = pre + (1 if (last in en and alt != last) else 0)
                    if cost <= bound:
                        stack.append([r[1] for r in record[:i]] + [alt])
            if last in en and c != last:
                pre += 1


# ------------------------------------------------------------------------------------------ judging a trace
CLAUSES = ["SlotReturnedExactlyOnce", "SlotNotLost", "NotPooledWhileOpen", "CleanWhenPooled", "NeverHangs", "OnlyUrllib3Errors",
           "InterruptsPropagate", "NoOrphanSocket", "NoUseAfterRelease", "ShutdownActs", "CutNeverComplete",
           "DisposalIdempotent", "ClosedIsStable", "CloseIsFinal", "ShutdownUnblocksReader", "NoDeadlock", "EveryoneFinishes", "ProbeServed"]
SERVES = {"SlotReturnedExactlyOnce": "C01", "SlotNotLost": "C01", "NotPooledWhileOpen": "C02", "CleanWhenPooled": "C13", "NeverHangs": "C02",
          "OnlyUrllib3Errors": "C01", "InterruptsPropagate": "C01", "NoOrphanSocket": "C01", "NoUseAfterRelease": "C02",
          "ShutdownActs": "C02", "CutNeverComplete": "C13", "DisposalIdempotent": "C01", "ClosedIsStable": "C01", "CloseIsFinal": "C01",
          "ShutdownUnblocksReader": "C02", "NoDeadlock": "C02", "EveryoneFinishes": "C02", "ProbeServed": "C13"}


def _findings():
    return [f for f in known.load("C01") + known.load("RESPLIFE") if f["id"].startswith("RESPLIFE-")]


def facts_of(tr, part, clause, pos):
    """Facts about the failing step of a trace (pos: 1-based index of the observation at which the clause failed)."""
    obs, steps = tr["obs"], tr["steps"]
    i = min(max(pos - 1, 0), len(obs) - 1)
    o = as_dict(obs[i])
    who = steps[i - 1][0] if i >= 1 else "a"
    f = {"area": "resplife", "part": part, "clause": clause, "fr": tr["fr"], "sv": tr["sv"], "mode": tr["mode"], "io": o["io"]}
    t = who if who in ("a", "b") else "a"
    if clause == "OnlyUrllib3Errors":
        for n in ("a", "b"):
            if o["errk_" + n] not in ("none", "urllib3") and not (o["errk_" + n] == "value" and o["op_" + n] == "shutdown"):
                t = n
    f["op"], f["res"] = o["op_" + t], o["res_" + t]
    # did a disposal call or an error complete before this call began (sequential part)?
    before = [as_dict(x) for x in obs[:i]]
    f["after_dispose"] = any(b["ndisp"] >= 1 or b["nrerr"] >= 1 for b in before)
    # was this call the resumption of a suspended read_chunked generator whose http.client response had been closed meanwhile?
    starts = [k for k in range(1, i + 1) if steps[k - 1][0] == t and steps[k - 1][1] != "none"]
    at = as_dict(obs[starts[-1] - 1]) if starts else o
    f["resumed_closed_generator"] = bool(at["gen"] == "chunk" and not at["hfp"])
    # two threads: did the OTHER thread take the http.client response away (fp = None) while this one was parked in recv?
    other = "b" if t == "a" else "a"
    cu = False
    for k in range(1, i + 1):
        prev, cur = as_dict(obs[k - 1]), as_dict(obs[k])
        if steps[k - 1][0] == other and prev["pc_" + t] == "Recv" and prev["hfp"] and not cur["hfp"]:
            cu = True
    f["closed_under"] = cu
    # a thread put the connection back after a step of the OTHER thread had closed the http.client response (an explicit
    # close(), or http.client giving up at an unexpected end of file): isclosed() then says nothing about the body
    pafc = False
    for k in range(len(steps)):
        p = steps[k][0]
        if p in ("a", "b") and as_dict(obs[k])["pc_" + p] == "QPut":
            for j in range(1, k + 1):
                if steps[j - 1][0] not in (p, "e") and as_dict(obs[j - 1])["hfp"] and not as_dict(obs[j])["hfp"]:
                    pafc = True
    f["put_after_foreign_close"] = pafc
    f["two_readers"] = "drain" in (tr.get("pb") or [])
    putters = {steps[k][0] for k in range(len(steps)) if steps[k][0] in ("a", "b") and as_dict(obs[k])["pc_" + steps[k][0]] == "QPut"}
    f["puts_by"] = "two-threads" if len(putters) >= 2 else "one-thread"
    return f


def judge(rep, tr, verdict, part, case, stats):
    """Turn TLC's verdict on one trace into known findings / violations / drift."""
    fails, driftpos, dfield = verdict
    for clause, pos in fails:
        facts = facts_of(tr, part, clause, pos)
        stats["fail"][clause] = stats["fail"].get(clause, 0) + 1
        kf = known.match(_FIND[0], facts)
        if kf is not None:
            rep.known.append((kf["id"], kf["what"]))
            stats["known"][kf["id"]] = stats["known"].get(kf["id"], 0) + 1
            continue
        sig = (clause, part, facts["op"], facts["res"], tr["fr"], tr["sv"] if part == "seq" else "")
        if sig in stats["sigs"] and len(stats["sigs"]) >= 6:
            stats["more"] += 1
            continue
        stats["sigs"].add(sig)
        rep.violation(clause, f"response life cycle ({part}, {tr['fr']}/{tr['sv']}/{tr['mode']}): {_describe(case)} violates {clause} "
                              f"[serves {SERVES.get(clause, '?')}] at step {pos} (call {facts['op']} -> {facts['res']}, socket I/O {facts['io']})",
                      dict(case, clause=clause))
    if driftpos and not fails:
        stats["drift"] += 1
        if len(rep.drift) < 10:
            rep.drift.append(f"{tr['id']}: step {driftpos} of {_describe(case)} is not a step of the Model (first differing field: {dfield})")


def _describe(case):
    if case["part"] == "seq":
        return "calls " + " ".join(case["ops"]) + " drop"
    return f"reader {case['pa']} / disposer {case['pb']} schedule {''.join(case['steps'])}"


_FIND = [None]


# --------------------------------------------------------------------------------------------------- stage 1
SEQ_INV = ["TypeOK", "InvSlotAtMostOnce", "InvSlotNotLost", "InvNotPooledWhileOpen", "InvCleanWhenPooled", "InvNeverHangs", "InvOnlyUrllib3Errors",
           "InvInterruptsPropagate", "InvNoOrphanSocket"]
SEQ_PROP = ["PropNoUseAfterRelease", "PropShutdownActs", "PropCutNeverComplete", "PropDisposalIdempotent", "PropClosedIsStable",
            "PropCloseIsFinal"]
CONC_INV = ["TypeOK", "InvSlotAtMostOnce", "InvSlotNotLost", "InvNotPooledWhileOpen", "InvCleanWhenPooled", "InvNeverHangs", "InvOnlyUrllib3Errors",
            "InvShutdownUnblocksReader", "InvNoDeadlock"]
CONC_PROP = SEQ_PROP + ["ShutdownLeadsToDone"]
ALLFIX = ["atomicrelease", "chunkresume", "closeunder", "releaseunread", "shutdown"]


def _cfg(part, fixes, extra="", view=True, check=True):
    seq = part == "seq"
    c = "SPECIFICATION %s\nCONSTANTS Eager = %s\n MaxOps = 99\n Fixes <- FixSet\nCHECK_DEADLOCK FALSE\n" % (
        ("SeqCheckSpec" if check else "SeqSpec") if seq else ("ConcCheckSpec" if check else "ConcSpec"), "TRUE" if seq else "FALSE")
    if view:
        c += "VIEW %s\n" % ("SeqView" if seq else "ConcView")
    if check:
        c += "\n".join("INVARIANT " + i for i in (SEQ_INV if seq else CONC_INV)) + "\n"
        c += "\n".join("PROPERTY " + i for i in (SEQ_PROP if seq else CONC_PROP)) + "\n"
    return c + extra


def stage1_jobs(fixes, quick):
    """(name, part, fixes, expectation, pins): repaired design must satisfy every rule; each named deviation alone must be
    refuted with the expected rule on a pinned scenario (the rules bite); the Model of the code as found is checked with the
    deviations detected on the tree."""
    wo = lambda x: [f for f in ALLFIX if f != x]
    jobs = [("conc-repaired", "conc", ALLFIX, None, dict(pb1=quick)),
            ("seq-repaired", "seq", ALLFIX, None, {}),
            ("conc-without-atomicrelease-repair", "conc", wo("atomicrelease"), {"InvSlotAtMostOnce"},
             dict(kinds=[("cl", "ka")], pa=[["read"]], pb=[["release"]])),
            ("conc-without-closeunder-repair", "conc", wo("closeunder"), {"InvOnlyUrllib3Errors"},
             dict(kinds=[("cl", "ka")], pa=[["read"]], pb=[["close"]])),
            ("conc-without-releaseunread-repair", "conc", wo("releaseunread"), {"InvCleanWhenPooled"},
             dict(kinds=[("cl", "ka")], pa=[["read"]], pb=[["close"]])),
            ("conc-without-shutdown-repair", "conc", wo("shutdown"), {"PropNoUseAfterRelease", "InvOnlyUrllib3Errors"},
             dict(kinds=[("cl", "ka"), ("cl", "close")], pa=[["read"]], pb=[["shutdown"]])),
            ("seq-without-shutdown-repair", "seq", wo("shutdown"), {"PropNoUseAfterRelease", "InvOnlyUrllib3Errors"},
             dict(kinds=[("cl", "ka")], modes=["stream"])),
            ("seq-without-chunkresume-repair", "seq", wo("chunkresume"), {"InvOnlyUrllib3Errors"},
             dict(kinds=[("chunked", "ka")], modes=["stream"]))]
    if True:
        # design-level mutants of the repaired design: every remaining rule must bite as well
        for brk, clause, kinds in (("drainswallow", {"InvInterruptsPropagate"}, [("cl", "boom")]),
                                   ("noincomplete", {"PropCutNeverComplete"}, [("cl", "cut")]),
                                   ("releaseearly", {"InvNotPooledWhileOpen", "PropNoUseAfterRelease", "PropCutNeverComplete"}, [("cl", "ka")]),
                                   ("closenorelease", {"InvSlotNotLost", "PropDisposalIdempotent", "PropCloseIsFinal"}, [("cl", "ka")]),
                                   ("closekeepsfp", {"PropCloseIsFinal"}, [("cl", "close")]),
                                   ("shutdownnoop", {"PropShutdownActs"}, [("cl", "ka")])):
            jobs.append((f"seq-mutant-{brk}", "seq", ALLFIX + ["break:" + brk], clause, dict(kinds=kinds, modes=["stream"])))
    if sorted(fixes) != ALLFIX:
        jobs += [("conc-code-as-found", "conc", fixes, "any", {}), ("seq-code-as-found", "seq", fixes, "any", {})]
    return jobs


def run_stage1_job(job, workers):
    name, part, fx, expect, pins = job
    extra = ""
    if pins.get("kinds"):
        extra += "CONSTANTS %s <- PinScn\n" % ("SeqScenario" if part == "seq" else "ConcScenario")
    if pins.get("pa"):
        extra += "CONSTANTS ProgsA <- PinA\n ProgsB <- PinB\n"
    elif pins.get("pb1"):
        extra += "CONSTANTS ProgsB <- ProgsB1\n"
    return tlc.run("MC_RespLifePin", _cfg(part, fx, extra), workers=workers, heap="3g", expect_fail=True, timeout=3000,
                   files={"MC_RespLifePin.tla": _pin_module(pins.get("kinds"), pins.get("modes"), pins.get("pa"), pins.get("pb"), fixes=fx)})


def stage1_digest(rep, results):
    info = {}
    for (name, part, fx, expect, pins), r in results:
        if r.error and not r.violated:
            raise tlc.MachineryError(f"RespLife stage 1 ({name}): {r.error}\n{r.out[-2000:]}")
        viol = sorted(set(r.violated))
        info[name] = {"fixes": fx, "violated": viol, "distinct": r.distinct, "generated": r.generated, "wall_s": round(r.wall, 1)}
        if expect is None:
            rep.add_tlc(f"RespLife {name}: every rule, all repairs", r)
            if viol:
                raise tlc.MachineryError(f"RespLife stage 1: the repaired design ({name}) violates {viol} -- the specification is wrong")
        elif expect == "any":
            rep.add_tlc(f"RespLife {name}: Model of the code as found (repairs present = {fx})", r)
            if not viol:
                raise tlc.MachineryError(f"RespLife stage 1: the Model of the code as found ({name}, repairs={fx}) violates nothing although "
                                         f"the probes found deviations")
        else:
            rep.add_tlc(f"RespLife canary {name}", r)
            if not (set(viol) & expect):
                raise tlc.MachineryError(f"RespLife stage 1 canary {name}: TLC reported {viol}, expected one of {sorted(expect)}")
    rep.extra["resplife_stage1"] = info


# ------------------------------------------------------------------------------------- emission and replay
def _pin_module(kinds=None, modes=None, pa=None, pb=None, fixes=()):
    lines = ["---- MODULE MC_RespLifePin ----", "EXTENDS MC_RespLife", _fixset(fixes).strip()]
    ks = " \\/ ".join('(x.fr = "%s" /\\ x.sv = "%s")' % k for k in (kinds or [])) or "TRUE"
    ms = "x.mode \\in " + tlc.tla_val(set(modes)) if modes else "TRUE"
    lines.append(f"PinScn(x) == ({ks}) /\\ {ms}")
    if pa is not None:
        lines.append("PinA == {" + ", ".join(tlc.tla_val(list(p)) for p in pa) + "}")
        lines.append("PinB == {" + ", ".join(tlc.tla_val(list(p)) for p in pb) + "}")
    lines.append("====")
    return "\n".join(lines) + "\n"


def emit_sequences(fixes, maxops, kinds, modes, workers):
    extra = "INVARIANT EmitSeq\nCONSTANTS SeqScenario <- PinScn\n"
    cfg = _cfg("seq", fixes, extra, view=False, check=False).replace("MaxOps = 99", f"MaxOps = {maxops}")
    r = tlc.run("MC_RespLifePin", cfg, workers=workers, heap="4g", files={"MC_RespLifePin.tla": _pin_module(kinds, modes, fixes=fixes)},
                expect_fail=True, timeout=6000)
    seqs = tlc.tagged_json(r.out, "SEQ")
    if r.error or r.violated or not seqs:
        raise tlc.MachineryError(f"TLC emitted no call sequences: {r.error} {r.violated}\n{r.out[-2000:]}")
    return seqs, r


def emit_schedules(fixes, kinds, pa, pb, workers):
    extra = "INVARIANT EmitSched\nCONSTANTS ConcScenario <- PinScn\n ProgsA <- PinA\n ProgsB <- PinB\n"
    cfg = _cfg("conc", fixes, extra, view=False, check=False)
    r = tlc.run("MC_RespLifePin", cfg, workers=workers, heap="4g", files={"MC_RespLifePin.tla": _pin_module(kinds, None, pa, pb, fixes=fixes)},
                expect_fail=True, timeout=6000)
    scheds = tlc.tagged_json(r.out, "SCHED")
    if r.error or r.violated or not scheds:
        raise tlc.MachineryError(f"TLC emitted no schedules: {r.error} {r.violated}\n{r.out[-2000:]}")
    return scheds, r


def _conc_worker(arg):
    """Run a chunk of two-thread jobs on the real code and have TLC judge the traces.
    job = ("sched", id, scn, pa, pb, steps, expected-final-obs) | ("dfs", idprefix, scn, pa, pb, bound, cap)
          | ("rnd", idprefix, scn, pa, pb, seed, count)"""
    chunk, fixes = arg
    _freeze()
    traces, meta = [], []

    def keep(tr, tid, kind, mism=None):
        tr["id"] = tid
        traces.append(tr)
        meta.append([tid, {"fr": tr["fr"], "sv": tr["sv"], "mode": "stream"}, tr["pa"], tr["pb"], [x[0] for x in tr["steps"]], kind, None, mism,
                     tr["stuck"], tr["unrealised"]])

    for job in chunk:
        if job[0] == "sched":
            _, tid, scn, pa, pb, steps, fin = job
            tr = run_conc(scn, pa, pb, lambda en, n, last, pcs, steps=steps: steps[n] if n < len(steps) else None)
            mism = None
            if tr["unrealised"]:
                mism = f"the code cannot take step {tr['unrealised'][0] + 1} ({tr['unrealised'][1]}); enabled: {tr['unrealised'][2]}"
            elif len(tr["steps"]) != len(steps) or tr["stuck"] != fin["stuck"]:
                mism = f"real run took {len(tr['steps'])} steps (stuck={tr['stuck']}), the model {len(steps)} (stuck={fin['stuck']})"
            else:
                o = as_dict(tr["obs"][-1])
                for k, v in fin["obs"].items():
                    got = {"pc": {"a": o["pc_a"], "b": o["pc_b"]}, "res": {"a": o["res_a"], "b": o["res_b"]}}.get(k, o.get(k))
                    if k in ("op", "errk", "nops", "fr", "sv"):
                        continue
                    if got != v:
                        mism = f"final {k} = {got!r}, the model expected {v!r}"
                        break
            keep(tr, tid, "tlc-schedule", mism)
        elif job[0] == "dfs":
            _, pre, scn, pa, pb, bound, cap = job
            for k, tr in enumerate(dfs_schedules(scn, pa, pb, bound, cap)):
                keep(tr, f"{pre}-{k}", "dfs")
        else:
            _, pre, scn, pa, pb, seed, count = job
            rng = random.Random(seed)
            for k in range(count):
                tr = run_conc(scn, pa, pb, lambda en, n, last, pcs: rng.choice(en))
                keep(tr, f"{pre}-{k}", "random")
    v = {}
    for i in range(0, len(traces), 1500):
        v.update(validate(traces[i:i + 1500], False, fixes))
    out = []
    for m, tr in zip(meta, traces):
        m[6] = v[m[0]]
        # the full trace is only needed for failing / drifting runs
        out.append((m, tr if (m[6][0] or m[6][1]) else None))
    if out:
        out[0][0].append(sorted({o[k] for tr in traces for o in tr["obs"] for k in (22, 27)}))
    return out


def _chunks(items, n):
    return [items[i:i + n] for i in range(0, len(items), n)]


def _pool_map(fn, args):
    import multiprocessing as mp
    if not args:
        return []
    if JOBS <= 1 or len(args) == 1:
        return [fn(a) for a in args]
    with mp.get_context("fork").Pool(min(JOBS, len(args))) as p:
        return list(p.imap_unordered(fn, args))


def run(rep):
    quick = rep.tier == "quick"
    install_points()
    if _MISSING:
        rep.drift.append("yield points of the Model that no longer resolve in urllib3/response.py: " + ", ".join(sorted(set(_MISSING))))
    _FIND[0] = _findings()
    fixes = detect_fixes()
    rep.extra["resplife_repairs_present_in_tree"] = fixes
    import time as _t
    from concurrent.futures import ThreadPoolExecutor
    t0 = _t.time()
    tm = rep.extra.setdefault("resplife_wall_s", {})
    stats = {"fail": {}, "known": {}, "sigs": set(), "more": 0, "drift": 0}
    labels_seen = set()
    # ---- all TLC work that does not depend on the real code: stage 1, emission of call sequences and of schedules
    plans = ([(2, SEQ_KINDS, ["stream"]), (1, SEQ_KINDS, ["preload", "preload_norel"])] if quick else
             [(4, [k], ["stream"]) for k in SEQ_KINDS] + [(2, SEQ_KINDS, ["preload", "preload_norel"])])
    pins = ([([("cl", "ka"), ("cl", "never")], [["read"]], [["shutdown"]]), ([("eof", "close")], [["read"]], [["release"]]),
             ([("cl", "never")], [["read"]], [["close"]])] if quick else
            [([("cl", "ka"), ("cl", "never"), ("cl", "cut"), ("chunked", "ka")], [["read"]], [["shutdown"], ["release"], ["drain"]]),
             ([("eof", "close"), ("cl", "close")], [["read"]], [["shutdown"], ["release"], ["close"]]),
             ([("cl", "ka")], [["read"]], [["close"], ["shutdown", "close"]])])
    w1 = 1 if quick else max(1, min(4, JOBS // 2))
    with ThreadPoolExecutor(max(1, JOBS // w1)) as ex:
        big = lambda job: max(w1, JOBS // 2) if job[0] == "seq-repaired" else w1       # the longest job of the phase
        f1 = [(job, ex.submit(run_stage1_job, job, big(job))) for job in
              sorted(stage1_jobs(fixes, quick), key=lambda j: j[0] != "seq-repaired")]
        f2 = [(pl, ex.submit(emit_sequences, fixes, pl[0], pl[1], pl[2], w1 if quick else max(w1, JOBS // 2))) for pl in plans]
        f3 = [(pn, ex.submit(emit_schedules, fixes, pn[0], pn[1], pn[2], w1 if quick else max(w1, JOBS // 2))) for pn in pins]
        stage1_digest(rep, [(job, f.result()) for job, f in f1])
        seq_emitted = [(pl, f.result()) for pl, f in f2]
        sched_emitted = [(pn, f.result()) for pn, f in f3]
    tm["tlc_stage1_and_emission"] = round(_t.time() - t0, 1)
    # ---- stage 2a: TLC-emitted call sequences, replayed and validated
    items, emitted = [], 0
    for (maxops, kinds, modes), (seqs, r) in seq_emitted:
        rep.add_tlc(f"RespLife emission of call sequences (<= {maxops} calls, {kinds if len(kinds) == 1 else 'all kinds'}, modes {modes})", r)
        for sq in seqs:
            emitted += 1
            ops = [h["op"] for h in sq["hist"]]
            if ops and ops[-1] == "drop":
                ops = ops[:-1]
            items.append((f"s{emitted}", {"fr": sq["fr"], "sv": sq["sv"], "mode": sq["mode"]}, ops, sq["hist"]))
    # seeded random longer sequences (no expected observations: judged by TLC only)
    rng = random.Random(rep.seed * 7919 + 17)
    nrand = 300 if quick else 8000
    for k in range(nrand):
        fr, sv = rng.choice(SEQ_KINDS)
        mode = "stream" if rng.random() < 0.85 else rng.choice(["preload", "preload_norel"])
        ops = [rng.choice(OPS) for _ in range(rng.randint(3, 6))]
        items.append((f"r{k}", {"fr": fr, "sv": sv, "mode": mode}, ops, None))
    rep.extra["resplife_tlc_sequences_emitted"] = emitted
    rng.shuffle(items)
    res = [x for c in _pool_map(_seq_worker, [(c, fixes) for c in _chunks(items, max(200, min(1500, len(items) // JOBS + 1)))]) for x in c]
    if len(res) != len(items):
        raise tlc.MachineryError(f"RespLife: {len(items)} call sequences planned, {len(res)} replayed")
    replayed_tlc = 0
    for rec in res:
        if len(rec) > 8:
            labels_seen.update(rec.pop())
    for sid, scn, ops, verdict, mism, nobs, probe, tr in res:
        rep.evaluations += 1
        rep.traces += 1
        if sid.startswith("s"):
            replayed_tlc += 1
        if any(o in READ_OPS for o in ops) and any(o in DISP_OPS + ("shutdown",) for o in ops):
            rep.nontrivial.add(("seq", scn["fr"], scn["sv"], scn["mode"], tuple(ops)))
        case = {"part": "seq", "scn": scn, "ops": ops}
        if verdict[0] or verdict[1]:
            judge(rep, tr, verdict, "seq", case, stats)
        elif mism:
            stats["drift"] += 1
            if len(rep.drift) < 10:
                rep.drift.append(f"{sid}: calls {ops} on {scn}: {mism}")
    if replayed_tlc != emitted:
        raise tlc.MachineryError(f"RespLife: TLC emitted {emitted} call sequences, {replayed_tlc} were replayed")
    rep.extra["resplife_sequences_replayed"] = len(res)
    tm["replay_seq"] = round(_t.time() - t0, 1)
    # ---- stage 2b / 3: two threads
    dops = ["shutdown", "close", "release", "drain"]
    if quick:
        ckinds = [("cl", "ka"), ("cl", "close"), ("cl", "never"), ("chunked", "ka"), ("chunked", "cut"), ("eof", "close")]
        progs_b = [[x] for x in dops] + [["shutdown", "close"], ["close", "release"], ["drain", "close"]]
    else:
        ckinds = [("cl", "ka"), ("cl", "close"), ("cl", "cut"), ("cl", "never"), ("chunked", "ka"), ("chunked", "cut"), ("chunked", "never"),
                  ("chunked", "close"), ("eof", "close")]
        progs_b = [[x] for x in dops] + [[x, y] for x in dops for y in dops]
    progs_a = [["read"], ["readn", "readn", "readn"]]
    jobs, nsched = [], 0
    cap = 200 if quick else 3000
    for (kinds, pa, pb), (scheds, r) in sched_emitted:
        rep.add_tlc(f"RespLife emission of complete schedules ({kinds}, reader {pa}, disposer {pb})", r)
        srng = random.Random(rep.seed * 104729 + len(jobs))
        if len(scheds) > cap:
            scheds = srng.sample(scheds, cap)
        for sc in scheds:
            nsched += 1
            jobs.append(("sched", f"t{nsched}", {"fr": sc["fr"], "sv": sc["sv"], "mode": "stream"}, sc["pa"], sc["pb"], sc["steps"],
                         {"stuck": sc["stuck"], "obs": sc["fin"]}))
    rep.extra["resplife_tlc_schedules_emitted"] = nsched
    bound = 1 if quick else 2
    dcap = 20 if quick else 150
    k = 0
    for fr, sv in ckinds:
        for pa in progs_a:
            for pb in progs_b:
                k += 1
                scn = {"fr": fr, "sv": sv, "mode": "stream"}
                jobs.append(("dfs", f"d{k}", scn, pa, pb, bound, dcap))
                jobs.append(("rnd", f"x{k}", scn, pa, pb, rep.seed * 1000003 + k, 4 if quick else 40))
    srng = random.Random(rep.seed + 5)
    srng.shuffle(jobs)
    per = max(1, len(jobs) // (JOBS * (1 if quick else 6)) + 1)
    cres = [x for c in _pool_map(_conc_worker, [(c, fixes) for c in _chunks(jobs, per)]) for x in c]
    got_sched = 0
    for m, tr in cres:
        if len(m) > 10:
            labels_seen.update(m.pop())
        tid, scn, pa, pb, steps, kind, verdict, mism, stuck, unreal = m
        rep.evaluations += 1
        rep.traces += 1
        if kind == "tlc-schedule":
            got_sched += 1
        if len({x for x in steps if x in ("a", "b")}) == 2 and any(steps[i] != steps[i + 1] for i in range(len(steps) - 1)):
            rep.nontrivial.add(("conc", scn["fr"], scn["sv"], tuple(pa), tuple(pb), "".join(steps)))
        case = {"part": "conc", "scn": scn, "pa": pa, "pb": pb, "steps": steps}
        if verdict[0] or verdict[1]:
            judge(rep, tr, verdict, "conc", case, stats)
        elif mism:
            stats["drift"] += 1
            if len(rep.drift) < 10:
                rep.drift.append(f"{tid}: TLC schedule {''.join(steps)} ({scn}, {pa}, {pb}): {mism}")
    if got_sched != nsched:
        raise tlc.MachineryError(f"RespLife: TLC emitted {nsched} schedules (after sampling), {got_sched} were replayed")
    rep.extra["resplife_schedules_run"] = len(cres)
    tm["conc"] = round(_t.time() - t0, 1)
    want = {"Idle", "Done", "ChkFp", "CatClose", "CatRel", "RelTest", "RelPut", "QPut", "RelClear", "Book", "ClsBegin", "ClsConn", "ShTest",
            "SockShut", "Recv", "BufWait"}
    rep.extra["resplife_yield_points_reached"] = sorted(labels_seen)
    if want - labels_seen and not rep.violations and not _MISSING:
        raise tlc.MachineryError(f"RespLife: yield points never reached by any validated trace: {sorted(want - labels_seen)}")
    rep.extra["resplife_rule_failures_by_clause"] = stats["fail"]
    rep.extra["resplife_known_findings_by_id"] = stats["known"]
    rep.extra["resplife_model_drift_traces"] = stats["drift"]
    rep.extra["resplife_violations_not_listed"] = stats["more"]
    rep.rule = ("sequential: every call sequence TLC emits (<= %d calls over read/read(n)/read1(n)/stream/release_conn/drain_conn/close/"
                "shutdown, then drop+gc, x framing x server x preload mode) plus seeded random longer ones; two threads: every complete "
                "schedule TLC emits for the pinned scenarios, bounded-preemption DFS (bound %d) and seeded random schedules of reader x "
                "disposer x server for every scenario; non-trivial = a sequence with at least one read call and one disposal call, or a "
                "schedule in which both threads take steps and control switches at least once; distinct by (scenario, calls / schedule)"
                % (plans[0][0], bound))
    rep.assumptions += ["the yield points of the scheduler (10 source lines of response.py selected by pattern, the pool queue's put, the "
                        "socket's recv / shutdown and the BufferedReader's lock) are the only preemption points explored",
                        "body of two 4-byte units, maxsize=1, block=False, no read timeout, no content encoding",
                        "CPython 3.12 http.client / io.BufferedReader semantics (the cooperative buffered-file wrapper reproduces the "
                        "lock of BufferedReader: close() blocks behind a read in progress, flush() does not -- measured)"]
    for tid in [x for x in res[:2]]:
        rep.sample({"id": tid[0], "scenario": tid[1], "calls": tid[2], "verdict": tid[3][0] or "ok"})
    for m, tr in cres[:2]:
        rep.sample({"id": m[0], "scenario": m[1], "reader": m[2], "disposer": m[3], "schedule": "".join(m[4]), "verdict": m[6][0] or "ok"})
    return rep


def run_stage(rep):
    """Extra stage of C01: the life cycle of the responses a pool hands out."""
    rep.extra_module = "vh.resplife"
    try:
        keep_rule, keep_samples = rep.rule, list(rep.samples)
        run(rep)
        rep.extra["resplife_rule"] = rep.rule
        rep.rule, rep.samples = keep_rule, keep_samples or rep.samples
    finally:
        rep.extra_module = None
    return rep


def replay(rep, path):
    case = json.load(open(path))["case"]
    _FIND[0] = _findings()
    fixes = detect_fixes()
    stats = {"fail": {}, "known": {}, "sigs": set(), "more": 0, "drift": 0}
    if case["part"] == "seq":
        tr = run_seq(case["scn"], case["ops"])
        tr["id"] = "replay"
        v = validate([tr], True, fixes)["replay"]
    else:
        steps = case["steps"]
        tr = run_conc(case["scn"], case["pa"], case["pb"], lambda en, n, last, pcs: steps[n] if n < len(steps) and steps[n] in en else
                      (last if last in en else en[0]))
        tr["id"] = "replay"
        v = validate([tr], False, fixes)["replay"]
    rep.evaluations += 1
    rep.traces += 1
    rep.nontrivial.update({1, 2})
    want = case.get("clause")
    v = ([f for f in v[0] if want is None or f[0] == want], 0, "none")
    judge(rep, tr, v, case["part"], {k: case[k] for k in case if k != "clause"}, stats)
