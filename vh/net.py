"""In-memory network for driving the real urllib3 without touching it.

`urllib3.util.connection.create_connection` (the seam every HTTPConnection._new_conn goes through)
is replaced by a factory returning one end of a socketpair re-wrapped as VSocket (a real
socket.socket subclass with a real fd, so makefile / select.poll / ssl.wrap_socket all work).
The other end is owned by an *inline peer*: a scripted HTTP/1.1 server whose logic runs inside the
client's own thread whenever the client sends or is about to receive, so plain-HTTP scenarios are
fully deterministic and thread-free.  Faults are injected at "the k-th call of kind X" and the
ground truth about what happened (which party saw which bytes, whether the client closed the
socket) is recorded at the peer, independently of urllib3's own objects.
"""
from __future__ import annotations

import errno
import select
import socket
import threading
import weakref


class HarnessStall(BaseException):
    """The harness would block forever (its own bug, never urllib3's): machinery failure."""


class Reply:
    """What the scripted server does for one request."""

    def __init__(self, data=b"", close=False, silent=False, stray=b"", eof_after=None):
        self.data = data          # bytes written in reply
        self.close = close        # close the connection after writing
        self.silent = silent      # write nothing more and never close: client read times out
        self.stray = stray        # unsolicited bytes written right after the reply
        self.eof_after = eof_after  # write only data[:eof_after] then close (cut)


class Request:
    def __init__(self, raw_head, method, target, version, headers, body, framing):
        self.raw_head, self.method, self.target, self.version = raw_head, method, target, version
        self.headers = headers    # list of (name, value) str pairs in wire order
        self.body = body          # transfer-decoded payload
        self.framing = framing    # "none" | "cl" | "chunked" | "both"
        self.raw = b""            # full raw bytes of this request as received

    def header(self, name, default=None):
        for k, v in self.headers:
            if k.lower() == name.lower():
                return v
        return default


class Peer:
    """Server end of one connection.  `responder(peer, request) -> Reply`."""

    def __init__(self, net, cid, sock, responder):
        self.net, self.cid, self.sock, self.responder = net, cid, sock, responder
        self.sock.setblocking(False)
        self.inbuf = bytearray()
        self.received = bytearray()   # everything the client ever wrote on this connection
        self.outbuf = bytearray()
        self.requests = []            # parsed Request objects
        self.saw_eof = False          # client closed (ground truth)
        self.closed = False           # we closed our end
        self.close_when_flushed = False
        self.silent = False
        self.parse_error = None

    # -- low level
    def _read_available(self):
        while not self.closed:
            try:
                d = self.sock.recv(1 << 16)
            except (BlockingIOError, InterruptedError):
                return
            except OSError:
                self.saw_eof = True
                return
            if not d:
                self.saw_eof = True
                return
            self.inbuf += d
            self.received += d

    def _flush(self):
        while self.outbuf and not self.closed:
            try:
                n = self.sock.send(self.outbuf[: 1 << 16])
            except (BlockingIOError, InterruptedError):
                return
            except OSError:
                self.outbuf.clear()
                return
            del self.outbuf[:n]
        if not self.outbuf and self.close_when_flushed and not self.closed:
            self.close()

    def close(self):
        if not self.closed:
            self.closed = True
            try:
                self.sock.close()
            except OSError:
                pass

    def client_closed(self):
        """Ground truth: has the client side closed this connection?"""
        if not self.closed:
            self._read_available()
        return self.saw_eof

    # -- request parsing (strict enough for a test server; violations are recorded, not hidden)
    def _try_parse(self):
        buf = self.inbuf
        end = buf.find(b"\r\n\r\n")
        if end < 0:
            return None
        head = bytes(buf[: end + 4])
        lines = head[:-4].split(b"\r\n")
        try:
            method, target, version = lines[0].decode("latin-1").split(" ", 2)
        except ValueError:
            method, target, version = lines[0].decode("latin-1"), "", ""
        headers = []
        for ln in lines[1:]:
            k, _, v = ln.decode("latin-1").partition(":")
            headers.append((k, v.strip()))
        cl = [v for k, v in headers if k.lower() == "content-length"]
        te = [v for k, v in headers if k.lower() == "transfer-encoding"]
        pos = end + 4
        if te and "chunked" in te[-1].lower():
            body = bytearray()
            while True:
                le = buf.find(b"\r\n", pos)
                if le < 0:
                    return None
                try:
                    size = int(bytes(buf[pos:le]).split(b";")[0].strip() or b"x", 16)
                except ValueError:
                    self.parse_error = "bad chunk size"
                    size = 0
                pos = le + 2
                if size == 0:
                    te_end = buf.find(b"\r\n", pos)
                    if te_end < 0:
                        return None
                    # no trailers are produced by urllib3
                    pos = te_end + 2
                    break
                if len(buf) < pos + size + 2:
                    return None
                body += buf[pos: pos + size]
                pos += size + 2
            framing = "both" if cl else "chunked"
        elif cl:
            try:
                n = int(cl[0])
            except ValueError:
                n = 0
                self.parse_error = "bad content-length"
            if len(buf) < pos + n:
                return None
            body = bytearray(buf[pos: pos + n])
            pos += n
            framing = "cl"
        else:
            body = bytearray()
            framing = "none"
        req = Request(head, method, target, version, headers, bytes(body), framing)
        req.raw = bytes(buf[:pos])
        del buf[:pos]
        return req

    def pump(self):
        """Process whatever the client has written; write scripted replies."""
        if self.closed:
            return
        self._read_available()
        while not self.closed and not self.silent:
            req = self._try_parse()
            if req is None:
                break
            self.requests.append(req)
            self.net.log.append(("REQ", self.cid, len(self.requests), req.method, req.target))
            rep = self.responder(self, req)
            if rep is None:
                rep = Reply(silent=True)
            if rep.silent:
                self.outbuf += rep.data
                self.silent = True
                break
            data = rep.data if rep.eof_after is None else rep.data[: rep.eof_after]
            self.outbuf += data + rep.stray
            if rep.close or rep.eof_after is not None:
                self.close_when_flushed = True
                self._flush()
                break
        self._flush()


class VSocket(socket.socket):
    """Client end.  Logs and injects faults; otherwise an ordinary connected socket."""

    def __init__(self, fileno, net, cid, peer, script):
        super().__init__(socket.AF_UNIX, socket.SOCK_STREAM, 0, fileno=fileno)
        self._net, self._cid, self._peer, self._script = net, cid, peer, script
        self._nsend = 0
        self._nrecv = 0
        self._vclosed = False
        self._timeout_v = None
        self.recv_limit = script.get("seg")  # max bytes returned per recv_into call (segmentation)

    # urllib3 calls settimeout often; record each applied value (C19 uses these)
    def settimeout(self, value):
        self._timeout_v = value
        self._net.log.append(("SETTIMEOUT", self._cid, value))
        # the real fd stays blocking: the inline peer never makes us wait, timeouts are virtual

    def gettimeout(self):
        return self._timeout_v

    def setsockopt(self, *a):
        self._net.log.append(("SETSOCKOPT", self._cid, a))
        try:
            return super().setsockopt(*a)
        except OSError:
            return None  # TCP options do not exist on AF_UNIX; recorded, not applied

    def _fault(self, kind, k):
        f = self._script.get(kind, {}).get(k)
        if f is None:
            f = self._script.get(kind, {}).get("*")
        if f is not None:
            self._net.log.append(("FAULT", self._cid, kind, k, type(f).__name__))
            self._net.faults.append((self._cid, kind, k, f))
            raise f

    def sendall(self, data, *flags):
        self._nsend += 1
        self._fault("send", self._nsend)
        mv = memoryview(data).cast("B")
        self._net.log.append(("SEND", self._cid, len(mv)))
        self._net.sent_bytes[self._cid] = self._net.sent_bytes.get(self._cid, 0) + len(mv)
        # the fd is switched to blocking for the duration of the write; the peer drains in between
        pos = 0
        while pos < len(mv):
            chunk = mv[pos: pos + 32768]
            super().sendall(chunk)
            pos += len(chunk)
            self._peer.pump()
        self._peer.pump()

    def send(self, data, *flags):
        self.sendall(data)
        return len(memoryview(data).cast("B"))

    def _readable(self):
        try:
            r, _, _ = select.select([self.fileno()], [], [], 0)
        except (OSError, ValueError):
            return True
        return bool(r)

    def recv_into(self, buffer, nbytes=0, *flags):
        self._nrecv += 1
        self._fault("recv", self._nrecv)
        self._peer.pump()
        if not self._readable():
            if self._peer.silent or self._script.get("never_answers"):
                self._net.log.append(("TIMEOUT", self._cid, self._timeout_v))
                if self._timeout_v is None:
                    raise HarnessStall(f"conn {self._cid}: read would block forever (no timeout set)")
                self._net.clock_advance(self._timeout_v)
                raise socket.timeout("timed out")
            raise HarnessStall(f"conn {self._cid}: client reads but the scripted peer has nothing to say")
        mv = memoryview(buffer).cast("B")
        n = nbytes or len(mv)
        if self.recv_limit:
            n = min(n, self.recv_limit)
        got = super().recv_into(mv[:n], n)
        self._net.log.append(("RECV", self._cid, got))
        return got

    def recv(self, bufsize, *flags):
        if flags and flags[0] & socket.MSG_PEEK:
            # a peek consumes nothing and is not an I/O step of the scenario: no fault, no RECV event
            self._peer.pump()
            try:
                return super().recv(bufsize, flags[0] | socket.MSG_DONTWAIT)
            except (BlockingIOError, InterruptedError):
                raise socket.timeout("timed out") from None
        b = bytearray(bufsize)
        n = self.recv_into(b, bufsize)
        return bytes(b[:n])

    def close(self):
        if not self._vclosed:
            self._vclosed = True
            self._net.log.append(("CLOSE", self._cid))
        super().close()

    # SocketIO (makefile) keeps the fd alive via _io_refs; real close happens in _real_close
    def _real_close(self, *a, **k):
        self._net.log.append(("REALCLOSE", self._cid))
        super()._real_close(*a, **k)

    def detach(self):
        self._net.log.append(("DETACH", self._cid))
        return super().detach()


class Net:
    """The network: a connection factory + per-connection scripts + ground-truth log.

    responder(peer, request) -> Reply                  how servers answer
    scripts: list (by connection ordinal, 1-based) or callable(cid, address) -> dict with keys
        "connect": exception to raise instead of connecting
        "send"/"recv": {k: exception} raised at the k-th sendall / recv_into of that connection
        "seg": max bytes per recv, "never_answers": True
    """

    def __init__(self, responder, scripts=None, connect_cost=None):
        self.responder = responder
        self.scripts = scripts or {}
        self.connect_cost = connect_cost  # callable(cid) -> seconds of virtual time spent connecting
        self.log = []
        self.faults = []
        self.peers = {}       # cid -> Peer
        self.dials = []       # (cid, address, timeout, source_address, socket_options)
        self.sent_bytes = {}
        self.now = 0.0
        self._lock = threading.Lock()
        self._orig = None
        self.socks = {}

    # virtual clock
    def clock_advance(self, dt):
        if dt:
            self.now += float(dt)

    def monotonic(self):
        return self.now

    def _script_for(self, cid, address):
        if callable(self.scripts):
            return self.scripts(cid, address) or {}
        if isinstance(self.scripts, dict):
            return self.scripts.get(cid, {})
        return self.scripts[cid - 1] if cid - 1 < len(self.scripts) else {}

    def create_connection(self, address, timeout=None, source_address=None, socket_options=None):
        with self._lock:
            cid = len(self.dials) + 1
            self.dials.append((cid, address, timeout, source_address, socket_options))
        script = self._script_for(cid, address)
        self.log.append(("DIAL", cid, address, timeout if isinstance(timeout, (int, float, type(None))) else "default"))
        if self.connect_cost is not None:
            self.clock_advance(self.connect_cost(cid))
        f = script.get("connect")
        if f is not None:
            self.log.append(("FAULT", cid, "connect", 1, type(f).__name__))
            self.faults.append((cid, "connect", 1, f))
            raise f
        a, b = socket.socketpair()
        peer = Peer(self, cid, b, script.get("responder") or self.responder)
        self.peers[cid] = peer
        vs = VSocket(a.detach(), self, cid, peer, script)
        self.socks[cid] = weakref.ref(vs)
        if isinstance(timeout, (int, float)) or timeout is None:
            vs.settimeout(timeout)
        for opt in socket_options or ():
            vs.setsockopt(*opt)
        if script.get("greeting"):
            peer.outbuf += script["greeting"]
            peer._flush()
        return vs

    def __enter__(self):
        import urllib3.util.connection as uc
        self._uc = uc
        self._orig = uc.create_connection
        uc.create_connection = self.create_connection
        return self

    def __exit__(self, *a):
        self._uc.create_connection = self._orig
        for p in self.peers.values():
            p.close()
        return False

    # ground truth helpers
    def open_conns(self):
        """cids whose client-side OS socket is still open.  Ground truth: the peer has not seen EOF;
        when the peer closed its own end first it cannot see the client's close any more, so the
        client fd itself is inspected (our VSocket object, not any urllib3 object)."""
        out = []
        for cid, p in self.peers.items():
            if not p.closed:
                if not p.client_closed():
                    out.append(cid)
            else:
                vs = self.socks[cid]()
                if vs is not None and vs.fileno() != -1:
                    out.append(cid)
        return out

    def requests(self):
        """All requests in arrival order per connection: [(cid, Request)]"""
        out = []
        for cid in sorted(self.peers):
            for r in self.peers[cid].requests:
                out.append((cid, r))
        return out


def http_response(status=200, body=b"", headers=(), reason="OK", chunked=False, keepalive=True, version="HTTP/1.1",
                  content_length=True):
    """Build a response byte string."""
    lines = [f"{version} {status} {reason}"]
    hs = list(headers)
    if chunked:
        hs.append(("Transfer-Encoding", "chunked"))
    elif content_length:
        hs.append(("Content-Length", str(len(body))))
    if not keepalive:
        hs.append(("Connection", "close"))
    for k, v in hs:
        lines.append(f"{k}: {v}")
    head = ("\r\n".join(lines) + "\r\n\r\n").encode("latin-1")
    if chunked:
        payload = b"".join(b"%x\r\n%s\r\n" % (len(body[i:i + 7]), body[i:i + 7]) for i in range(0, len(body), 7)) + b"0\r\n\r\n"
    else:
        payload = body
    return head + payload
