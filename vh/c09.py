"""C09 — proxied traffic follows the documented routing and never leaks outside it.

stage 1  TLC checks spec/Proxy.tla exhaustively (MC_Proxy.tla constants): the implementation-shaped
         model (ProxyManager.urlopen -> pool urlopen -> _get_conn -> _prepare_proxy -> connect: TLS to
         proxy, CONNECT, TLS(-in-TLS) to origin -> request -> ManagerRedirect re-entering with the same
         header carrier; environment = CONNECT reply, peer closing the connection between exchanges,
         3xx redirect to the other scheme of the destination, i.e. forwarded -> tunnel and back) satisfies every Rules clause; the coverage is read back
         (an action that never fired is a machinery failure); and every named design-level deviation
         (constant Bug) must make TLC report the clause that is meant to catch it (non-vacuity).
stage 2  TLC emits every finished behaviour of the model as a scenario: configuration, the
         environment's choices and the event log the model expects the two parties + caller to record
         (exhaustive plans, sharded; plus `-simulate` behaviours over the full constants, VERIF_SEED).
stage 3  every scenario is replayed against the real ProxyManager over vh/proxynet.py (recording
         proxy party on the create_connection seam: plain/TLS front, scripted CONNECT reply, origin
         inside the tunnel incl. TLS-in-TLS), which records what each party really received.
stage 4  every recorded log is judged by TLC (spec/Proxy_Trace.tla: the same Rules operators, total
         monitor naming the failing clause -> VIOLATION) and compared with the log the model expected
         (any difference that breaks no clause -> MODEL-DRIFT).
"""
from __future__ import annotations

import hashlib
import json
import multiprocessing as mp
import os
import shutil
import warnings

from . import known, tlc
from . import proxynet as pn

HARD = ["HttpsOnlyViaTunnelUnlessOptedIn", "ConnectTargetExact", "OriginNameVerifiedInsideTunnel", "FormByRoute",
        "ProxyHeadersOnlyToProxy", "NoRequestAfterRefusal", "RefusalRaises", "Retunnelled"]
EXTRA = ["TypeOK", "StateAgrees", "RouteTableAgrees", "RequestHeadersNotOnConnect", "DeliveredWithinBudget",
         "OutcomePerRequest", "WholeLogVerdictOk"]
# design-level deviation -> the clause that must catch it (checked alone, so TLC names exactly it)
BUGS = {"no_tunnel_https_proxy": "HttpsOnlyViaTunnelUnlessOptedIn", "merge_always": "ProxyHeadersOnlyToProxy",
        "prepare_first_only": "Retunnelled", "proxy_sni": "OriginNameVerifiedInsideTunnel",
        "strip_brackets": "ConnectTargetExact", "ignore_refusal": "NoRequestAfterRefusal",
        "origin_form_to_proxy": "FormByRoute", "carrier_mutated": "ProxyHeadersOnlyToProxy",
        "setproxyhdr_https": None}   # None: harmless, nothing may fire
DEVIATION_ONLY_ACTIONS = {"TlsDirectAtPlainProxy"}

MC_CFG = """SPECIFICATION MCSpec
CONSTANTS
  ProxySchemes = {{"http", "https"}}
  DestSchemes = {{"http", "https"}}
  Fwds = {{TRUE, FALSE}}
  HostKinds = {hk}
  PortKinds = {port}
  PCerts = {pc}
  OCerts = {oc}
  PHdrSets <- {ph}
  RHdrSets <- {rh}
  RetrySet = {rs}
  MaxReq = {maxreq}
  MaxBad = {maxbad}
  Replies = {{"200", "403", "407", "502", "garbage"}}
  MaxRedir = {maxredir}
  RedirCodes = {codes}
  Bug = "{bug}"
  ShardK = {K}
  ShardS = {S}
  EmitOn = {emit}
{invs}
CHECK_DEADLOCK FALSE
"""
TRACE_CFG = """SPECIFICATION TSpec
CONSTANTS
  ProxySchemes = {"http", "https"}
  DestSchemes = {"http", "https"}
  Fwds = {TRUE, FALSE}
  HostKinds = {"name"}
  PortKinds = {"default"}
  PCerts = {"ok"}
  OCerts = {"ok"}
  PHdrSets <- PH_Trace
  RHdrSets <- PH_Trace
  RetrySet = {0}
  MaxReq = 1
  MaxBad = 0
  Replies = {"200"}
  MaxRedir = 0
  RedirCodes = {}
  Bug = "none"
CHECK_DEADLOCK FALSE
"""
ALL_CODES = '{"301", "302", "303", "307", "308"}'
ALL_HK, ALL_PORT = '{"name", "ipv4", "ipv6"}', '{"default", "explicit"}'
PLANS = {
    # route x reply x certificates x retries x sequences, richest headers, one host form
    "core": dict(hk='{"name"}', port='{"default"}', pc='{"ok", "untrusted", "wrongname"}',
                 oc='{"ok", "untrusted", "proxyname"}', ph="PH_Full", rh="RH_Full", rs="{0, 1}", maxreq=2, maxbad=1),
    # host forms x ports x header sets on every route, good certificates
    "forms": dict(hk=ALL_HK, port=ALL_PORT, pc='{"ok"}', oc='{"ok"}', ph="PH_All", rh="RH_All", rs="{0}",
                  maxreq=1, maxbad=1),
    "core3": dict(hk='{"name"}', port='{"default"}', pc='{"ok", "untrusted", "wrongname"}',
                  oc='{"ok", "untrusted", "wrongname", "proxyname"}', ph="PH_Full", rh="RH_Full", rs="{0, 1}",
                  maxreq=3, maxbad=2),
    "forms2": dict(hk=ALL_HK, port=ALL_PORT, pc='{"ok"}', oc='{"ok", "proxyname"}', ph="PH_All", rh="RH_All",
                   rs="{0, 1}", maxreq=2, maxbad=1),
    # redirected histories: http:// (forwarded) -> https:// (tunnel) and back, every 3xx code, on every route
    "redir": dict(hk='{"name"}', port=ALL_PORT, pc='{"ok"}', oc='{"ok"}', ph="PH_Full", rh="RH_Full", rs="{1}",
                  maxreq=1, maxbad=1, maxredir=1, codes=ALL_CODES),
    "redir2": dict(hk='{"name", "ipv6"}', port=ALL_PORT, pc='{"ok"}', oc='{"ok", "untrusted"}',
                   ph="PH_Full", rh="RH_Full", rs="{1}", maxreq=2, maxbad=1, maxredir=1,
                   codes='{"301", "303", "307"}'),
    "full": dict(hk=ALL_HK, port=ALL_PORT, pc='{"ok", "untrusted", "wrongname"}',
                 oc='{"ok", "untrusted", "wrongname", "proxyname"}', ph="PH_All", rh="RH_All", rs="{0, 1}",
                 maxreq=3, maxbad=6, maxredir=1, codes=ALL_CODES),
    "bugs": dict(hk='{"name", "ipv6"}', port='{"default"}', pc='{"ok"}', oc='{"ok", "proxyname"}', ph="PH_Full",
                 rh="RH_Full", rs="{0, 1}", maxreq=2, maxbad=1, maxredir=1, codes='{"302"}'),
}


def mc_cfg(plan, invs, bug="none", K=1, S=0, emit=False):
    d = dict(maxredir=0, codes="{}")
    d.update(PLANS[plan])
    return MC_CFG.format(bug=bug, K=K, S=S, emit="TRUE" if emit else "FALSE",
                         invs="\n".join("INVARIANT " + i for i in invs), **d)


# ------------------------------------------------------------------------------ driving the real code

HEADER_VALUES = {"pauth": ("Proxy-Authorization", "Basic cHJveHk6c2VjcmV0"), "ptag": ("X-Proxy-Tag", "via-proxy"),
                 "rauth": ("Authorization", "Bearer origin-token"), "rtag": ("X-Req", "1")}
CLIENT_TIMEOUT = 10.0
J = max(1, int(os.environ.get("VERIF_JOBS") or 0) or os.cpu_count() or 4)   # size of every pool / TLC worker set


def exc_chain(ex):
    """Class names along the documented wrapping: MaxRetryError.reason, ProxyError.original_error,
    SSLError/ProtocolError's wrapped exception."""
    from urllib3.exceptions import MaxRetryError, ProtocolError, ProxyError, SSLError
    out = []
    while ex is not None and len(out) < 5:
        out.append(type(ex).__name__)
        if isinstance(ex, MaxRetryError):
            ex = ex.reason
        elif isinstance(ex, ProxyError):
            ex = ex.original_error
        elif isinstance(ex, (SSLError, ProtocolError)):
            ex = next((a for a in reversed(ex.args) if isinstance(a, BaseException)), None)
        else:
            ex = None
    return out


def url_of(cfg, k):
    port = "" if cfg["port"] == "default" else ":" + ("8443" if cfg["ds"] == "https" else "8080")
    return f"{cfg['ds']}://{pn.HOSTS[cfg['hk']]}{port}/r{k}"


def run_scenario(sc):
    """Drive the real ProxyManager through one scenario.  Returns (events, harness_errors, raw)."""
    import urllib3
    from urllib3.util.retry import Retry
    cfg = sc["cfg"]
    world = pn.World.get()
    pcfg = {"ps": cfg["ps"], "pcert": cfg["pcert"], "ocert": cfg["ocert"], "dest": pn.HOSTS[cfg["hk"]]}
    ph = dict(HEADER_VALUES[x] for x in sorted(cfg["ph"])) or None
    rh = dict(HEADER_VALUES[x] for x in sorted(cfg["rh"])) or None
    redirs = {r["path"]: (r["code"], r["loc"]) for r in sc.get("redirs", [])}
    with pn.ProxyNet(pcfg, sc["replies"], sc["closes"], redirs) as nw, warnings.catch_warnings():
        warnings.simplefilter("ignore")
        pm = urllib3.ProxyManager(f"{cfg['ps']}://{pn.PROXY_HOST}:{pn.PROXY_PORT}", proxy_headers=ph,
                                  ca_certs=world.ca_path, maxsize=1,
                                  timeout=urllib3.Timeout(connect=CLIENT_TIMEOUT, read=CLIENT_TIMEOUT),
                                  retries=Retry(total=cfg["retries"]) if cfg["retries"] else False,
                                  use_forwarding_for_https=cfg["fwd"])
        try:
            for k in range(1, sc["nreq"] + 1):
                nw.cur_k = k
                nw.log(ev="start", k=k)
                try:
                    kw = {"headers": rh} if rh is not None else {}
                    r = pm.request("GET", url_of(cfg, k), **kw)
                    data, status = r.data, r.status
                    del r
                    nw.settle()
                    nw.log(ev="end", k=k, kind="response", status=status, by=data.split(b" ")[0].decode("latin-1"))
                except Exception as ex:  # noqa: BLE001 - any exception is an outcome to be judged
                    nw.settle()
                    nw.log(ev="end", k=k, kind="error", exc=exc_chain(ex))
        finally:
            pm.clear()
    return canonical(nw.events), nw.errors, nw.raw


def canonical(events):
    """A party thread logs a FAILED handshake only after the client has already seen the alert and
    may have dialled its next connection.  Nothing else ever happens on such a connection, so the
    event is moved back to right after the last earlier event of its own connection (its causal
    place).  Every other event is logged by the party before it answers, i.e. already in causal order."""
    out = []
    for e in events:
        if e["ev"] == "tls" and not e["done"]:
            pos = max((i for i, x in enumerate(out) if x["cid"] == e["cid"]), default=len(out) - 1) + 1
            out.insert(pos, e)
        else:
            out.append(e)
    return out


def norm_expected(log):
    for e in log:
        e["hdr"] = sorted(e["hdr"])
    return log


def diff(expected, got):
    """First difference between the model's expected log and the recorded one ('*' = unspecified)."""
    for i, (a, b) in enumerate(zip(expected, got)):
        for f in a:
            if a[f] != b.get(f) and not (f == "host" and a[f] == "*"):
                return f"event {i + 1} ({a['ev']}): field {f}: model {a[f]!r}, real {b.get(f)!r}"
    if len(expected) != len(got):
        longer = expected if len(expected) > len(got) else got
        e = longer[min(len(expected), len(got))]
        return (f"model expects {len(expected)} events, real run recorded {len(got)}; first extra: "
                f"{ {k: v for k, v in e.items() if v != pn.BLANK.get(k)} }")
    return None


def validate(traces):
    """TLC judges every recorded log with the Rules of Proxy.tla.  -> [(pos, clause, soft)] per trace"""
    if not traces:
        return []
    r = tlc.run("Proxy_Trace", TRACE_CFG, workers=1, files={"traces.json": json.dumps(traces)},
                env={"TRACE_FILE": "traces.json"}, timeout=3600, heap="2g")
    ver = {t[0]: t for t in tlc.tagged_tuples(r.out, "VERDICT")}
    soft = {t[0]: t for t in tlc.tagged_tuples(r.out, "SOFT")}
    if len(ver) != len(traces) or len(soft) != len(traces):
        raise tlc.MachineryError(f"trace validation: {len(ver)} verdicts / {len(soft)} soft verdicts for "
                                 f"{len(traces)} traces\n{r.out[-2000:]}")
    return [(ver[i + 1][1], ver[i + 1][2], soft[i + 1][1]) for i in range(len(traces))]


def corrupted_traces(scenarios):
    """Monitor self-test: the model's expected log of one healthy tunnel scenario and of one refused
    CONNECT, each corrupted in a single field, must be rejected by TLC with exactly the clause that
    field belongs to (independent of how the real code behaves)."""
    import copy
    base = refused = redirected = None
    for sc in scenarios:
        c, ev = sc["cfg"], sc["log"]
        if sc.get("redirs"):
            if redirected is None and c["ds"] == "http" and not c["fwd"] and sc["nreq"] == 1 and \
                    all(r == "200" for r in sc["replies"]) and any(e["party"] == "origin" for e in ev):
                redirected = (sc, ev)
            continue
        if c["ds"] == "https" and not c["fwd"] and c["hk"] == "name" and c["port"] == "default":
            if base is None and sc["nreq"] == 1 and sc["replies"] == ["200"] and c["ocert"] == "ok" and \
                    c["pcert"] == "ok" and c["ph"] and any(e["party"] == "origin" for e in ev):
                base = (sc, ev)
            if refused is None and sc["nreq"] == 1 and sc["replies"] == ["407"] and c["pcert"] == "ok" and \
                    c["retries"] == 0:
                refused = (sc, ev)
    if base is None or refused is None or redirected is None:
        raise tlc.MachineryError("no base traces for the monitor self-test among the emitted scenarios")
    out = []

    def mutate(src, pick, change, clause):
        sc, ev = src
        ev = copy.deepcopy(ev)
        e = next(x for x in ev if pick(x))
        change(e)
        out.append(({"cfg": sc["cfg"], "events": ev}, clause))

    is_origin = lambda e: e["ev"] == "msg" and e["party"] == "origin"           # noqa: E731
    is_connect = lambda e: e["ev"] == "msg" and e["form"] == "CONNECT"          # noqa: E731
    mutate(base, is_origin, lambda e: e.update(hdr=sorted(e["hdr"] + ["pauth"])), "ProxyHeadersOnlyToProxy")
    mutate(base, is_connect, lambda e: e.update(target="origin.test:444"), "ConnectTargetExact")
    mutate(base, is_origin, lambda e: e.update(inner="untrusted"), "OriginNameVerifiedInsideTunnel")
    mutate(base, is_origin, lambda e: e.update(sni="proxy.test"), "OriginNameVerifiedInsideTunnel")
    mutate(base, is_origin, lambda e: e.update(form="absolute", target="https://origin.test/r1"), "FormByRoute")
    mutate(base, is_origin, lambda e: e.update(party="proxy"), "HttpsOnlyViaTunnelUnlessOptedIn")
    mutate(base, lambda e: e["ev"] == "dial", lambda e: e.update(target="origin.test:443"),
           "HttpsOnlyViaTunnelUnlessOptedIn")
    mutate(base, lambda e: e["ev"] == "reply", lambda e: e.update(code="407"), "NoRequestAfterRefusal")
    mutate(base, lambda e: e["ev"] == "tls" and e["layer"] == "inner", lambda e: e.update(done=False),
           "NoRequestAfterRefusal")
    mutate(base, lambda e: e["ev"] == "end", lambda e: e.update(kind="error", status=0, by="", exc=["ProtocolError"]),
           "Retunnelled")
    # a redirected request (http:// forwarded, then https:// through a tunnel): proxy header inside the tunnel,
    # and the second hop sent to the proxy in absolute-form instead of through the tunnel
    mutate(redirected, is_origin, lambda e: e.update(hdr=sorted(e["hdr"] + ["ptag"])), "ProxyHeadersOnlyToProxy")
    mutate(redirected, is_origin, lambda e: e.update(target="/r1"), "FormByRoute")
    mutate(refused, lambda e: e["ev"] == "end", lambda e: e.update(exc=["ProtocolError", "OSError"]), "RefusalRaises")
    mutate(refused, lambda e: e["ev"] == "end", lambda e: e.update(kind="response", status=200, by="origin", exc=[]),
           "RefusalRaises")
    return out


def sc_key(sc):
    return json.dumps([sc["cfg"], sc["nreq"], sc["replies"], sorted(sc["closes"]),
                       [[r["path"], r["code"]] for r in sc.get("redirs", [])]], sort_keys=True)


def nontrivial(sc):
    c = sc["cfg"]
    return bool(sc["nreq"] > 1 or sc["closes"] or any(r != "200" for r in sc["replies"]) or c["pcert"] != "ok"
                or c["ocert"] != "ok" or sc.get("redirs"))


def clean(o):
    return o["clause"] == "ok" and not o["diff"] and not o["errors"] and o["soft"] == "ok"


def timed_out(o):
    return bool(o["errors"]) or any("Timeout" in x or x == "timeout" for e in o["events"] for x in e["exc"])


def assess(scenarios, runs, verdicts):
    out = []
    for sc, (ev, errs, raw), (pos, clause, soft) in zip(scenarios, runs, verdicts):
        d = diff(sc["log"], ev) if sc.get("log") is not None else None
        out.append({"sc": sc, "events": ev, "errors": errs, "pos": pos, "clause": clause, "soft": soft, "diff": d,
                    "raw": [(c, p, b.decode("latin-1")) for c, p, b in raw]})
    return out


def judge(scenarios):
    """In-process: replay, validate with TLC, compare with the expected logs (used for re-runs / --replay)."""
    runs = [run_scenario(sc) for sc in scenarios]
    return assess(scenarios, runs, validate([{"cfg": sc["cfg"], "events": r[0]} for sc, r in zip(scenarios, runs)]))


# ------------------------------------------------------------------------------ workers

def _emit_shard(args):
    """One emission shard: TLC explores its share of the configurations and prints every finished
    behaviour of the model as a scenario."""
    plan, K, S = args
    r = tlc.run("MC_Proxy", mc_cfg(plan, ["Emit"], K=K, S=S, emit=True), workers=1, timeout=7200, heap="2g")
    scs = tlc.tagged_json(r.out, "SC")
    for sc in scs:
        norm_expected(sc["log"])
        sc["origin"] = "exhaustive:" + plan
    return {"scs": scs, "distinct": r.distinct, "generated": r.generated, "wall": r.wall, "plan": plan}


def _simulate(args):
    nsim, seed = args
    r = tlc.run("MC_Proxy", mc_cfg("full", ["Emit"], emit=True), workers=1, simulate=f"num={nsim}", depth=400,
                seed=seed, heap="2g", timeout=3600)
    return tlc.tagged_json(r.out, "SC")


def _drive_chunk(scs):
    return [run_scenario(sc) for sc in scs]


def _validate_chunk(traces):
    return validate(traces)


def _stage1(args):
    name, plan, invs, bug, cov = args
    r = tlc.run("MC_Proxy", mc_cfg(plan, invs, bug=bug), workers=max(1, min(2, J // 8)), coverage=cov, timeout=7200, heap="3g",
                expect_fail=True)
    return {"name": name, "plan": plan, "bug": bug, "distinct": r.distinct, "generated": r.generated, "depth": r.depth,
            "wall": r.wall, "violated": r.violated, "error": r.error, "coverage": r.coverage, "tail": r.out[-1500:]}


def chunks(xs, n):
    step = max(1, -(-len(xs) // n))
    return [xs[i:i + step] for i in range(0, len(xs), step)]


# ------------------------------------------------------------------------------ the check

def _absorb(rep, results, findings):
    """Book the assessed scenarios: hard verdicts from TLC's Rules, drift from the expected logs."""
    for o in results:
        sc = o["sc"]
        rep.traces += 1
        rep.evaluations += 1
        rep.extra["trace_events"] = rep.extra.get("trace_events", 0) + len(o["events"])
        if nontrivial(sc):
            rep.nontrivial.add(hashlib.md5(sc_key(sc).encode()).hexdigest()[:16])
            if len(rep.samples) < 4 and (len(rep.samples) < 2 or sc["closes"]):
                rep.sample({"scenario": {k: sc[k] for k in ("cfg", "nreq", "replies", "closes", "redirs")},
                            "recorded": [{k: v for k, v in e.items() if v != pn.BLANK[k]} for e in o["events"]],
                            "verdict": o["clause"]})
        for a, b in zip(sc.get("log") or [], o["events"]):
            if a["host"] == "*" and b["host"]:
                seen = rep.extra.setdefault("host_header_where_model_leaves_it_open", [])
                if b["host"] not in seen and len(seen) < 10:
                    seen.append(b["host"])
        if o["clause"] != "ok":
            case = {"kind": "scenario", "scenario": sc, "recorded": o["events"], "raw": o["raw"]}
            facts = dict(sc["cfg"], clause=o["clause"], nreq=sc["nreq"])
            facts["ph"], facts["rh"] = ",".join(sorted(facts["ph"])), ",".join(sorted(facts["rh"]))
            f = known.match(findings, facts)
            ev = o["events"][o["pos"] - 1] if 0 < o["pos"] <= len(o["events"]) else {}
            what = (f"{o['clause']} at event {o['pos']} "
                    f"{ {k: v for k, v in ev.items() if v != pn.BLANK.get(k)} } in scenario {sc_key(sc)}")
            if f:
                rep.known.append((f["id"], what))
            else:
                rep.violation(o["clause"], what, case)
        elif o["errors"]:
            raise tlc.MachineryError(f"harness problem while replaying {sc_key(sc)}: {o['errors']}")
        elif o["diff"]:
            rep.drift.append(f"{o['diff']} in scenario {sc_key(sc)}")
        elif o["soft"] != "ok":
            rep.drift.append(f"extra invariant {o['soft']} does not hold on the recorded log of {sc_key(sc)}")


def run(rep):
    quick = rep.tier == "quick"
    findings = known.load("C09")
    rep.rule = ("a scenario is one TLC behaviour of spec/Proxy.tla (configuration, CONNECT replies, closes between "
                "exchanges, redirects http<->https, expected log) replayed on the real ProxyManager; it is non-trivial "
                "when it has more than one request, a close between exchanges, a redirect, a non-200 CONNECT reply or a "
                "bad proxy/origin certificate; "
                "distinct_nontrivial counts distinct (configuration, environment) pairs")
    rep.assumptions = ["TLS, certificate-chain validation and http.client's status-line parsing are trusted (OpenSSL, "
                       "CPython); the proxy party is ground truth for who received which bytes",
                       "one destination host per scenario (both schemes of it when redirected), GET requests, at most one "
                       "redirect per request, maxsize=1 pools, finite timeouts",
                       "TLC 1.8 and CommunityModules are trusted"]
    world = pn.World.get()
    for kind, ident in [("ok", pn.PROXY_HOST), ("untrusted", pn.PROXY_HOST), ("wrongname", pn.PROXY_HOST)] + \
            [(k, h) for h in pn.HOSTS.values() for k in ("ok", "untrusted", "proxyname")]:
        world.ctx_for(kind, ident)          # minted before the fork: workers share them
    plans = ["core", "forms", "redir"] if quick else ["core3", "forms2", "redir2"]
    K = 1 if quick else 8
    nsim = 300 if quick else 4000
    nproc = min(J, 12 if quick else 16)
    try:
        with mp.Pool(nproc) as pool:
            # ---- stage 2: emission (exhaustive plans + simulation over the full constants, beyond the plans);
            # ---- stage 1 runs asynchronously in the same pool while the scenarios are replayed
            emis = pool.map_async(_emit_shard, [(p, K, s) for p in plans for s in range(K)])
            sim = pool.apply_async(_simulate, ((nsim, rep.seed + 1),))
            s1jobs = [(f"MC_Proxy[{p}]", p, HARD + EXTRA, "none", True) for p in plans]
            s1jobs += [(f"MC_Proxy[bugs,Bug={b}]", "bugs", [c] if c else HARD, b, False) for b, c in BUGS.items()]
            s1 = pool.map_async(_stage1, s1jobs)
            scenarios, seen, emitted = [], set(), 0
            for o in emis.get():
                emitted += len(o["scs"])
                rep.stage1.append({"run": f"emission {o['plan']}", "distinct_states": o["distinct"],
                                   "states_generated": o["generated"], "wall_s": round(o["wall"], 1),
                                   "scenarios": len(o["scs"])})
                for sc in o["scs"]:
                    if sc_key(sc) not in seen:
                        seen.add(sc_key(sc))
                        scenarios.append(sc)
            nsims = 0
            for sc in sim.get():
                nsims += 1
                if sc_key(sc) not in seen:
                    seen.add(sc_key(sc))
                    norm_expected(sc["log"])
                    sc["origin"] = "simulation"
                    scenarios.append(sc)
            if nsims != nsim:
                raise tlc.MachineryError(f"simulation printed {nsims} finished behaviours, asked for {nsim}")
            if emitted < (500 if quick else 5000):
                raise tlc.MachineryError(f"only {emitted} scenarios emitted")
            rep.extra["scenarios_emitted_exhaustive"] = emitted
            rep.extra["scenarios_simulated"] = nsims
            rep.extra["scenarios_distinct"] = len(scenarios)

            # ---- stage 3: replay on the real code;  stage 4: TLC judges the recorded logs
            parts = chunks(scenarios, nproc * 4)
            runs = [r for part in pool.map(_drive_chunk, parts) for r in part]
            if len(runs) != len(scenarios):
                raise tlc.MachineryError(f"replayed {len(runs)} of {len(scenarios)} scenarios")
            traces = [{"cfg": sc["cfg"], "events": r[0]} for sc, r in zip(scenarios, runs)]
            probes = corrupted_traces(scenarios)
            verdicts = [v for part in pool.map(_validate_chunk, chunks(traces + [t for t, _ in probes],
                                                                       min(J, 4 if quick else 12))) for v in part]
            for (_, want), (pos, clause, _) in zip(probes, verdicts[len(traces):]):
                if clause != want:
                    raise tlc.MachineryError(f"monitor self-test: a trace corrupted to break {want} was judged {clause}")
            rep.extra["monitor_selftest_rejected"] = len(probes)
            verdicts = verdicts[:len(traces)]
            results = assess(scenarios, runs, verdicts)
            # a non-clean scenario is re-run once: only a reproducible result counts
            dirty = [i for i, o in enumerate(results) if not clean(o)]
            if dirty:
                again = judge([results[i]["sc"] for i in dirty[:200]])
                for i, o2 in zip(dirty, again):
                    if not clean(o2) and timed_out(o2):
                        o2 = judge([o2["sc"]])[0]      # a starved party thread looks like a timeout: once more
                    if clean(o2):
                        rep.extra["flaky_reruns"] = rep.extra.get("flaky_reruns", 0) + 1
                    results[i] = o2
            _absorb(rep, results, findings)

            # ---- collect stage 1
            for o in s1.get():
                rep.stage1.append({"run": o["name"], "distinct_states": o["distinct"], "states_generated": o["generated"],
                                   "depth": o["depth"], "wall_s": round(o["wall"], 1), "violated": o["violated"]})
                if o["error"]:
                    raise tlc.MachineryError(f"{o['name']}: {o['error']}\n{o['tail']}")
                if o["bug"] == "none":
                    rep.states += o["distinct"]
                    rep.transitions += o["generated"]
                    if o["violated"]:
                        rep.violation("DesignModel", f"TLC: {o['violated']} violated by the model of {o['name']}",
                                      {"kind": "stage1", "plan": o["plan"]})
                    if len(o["coverage"]) < 10:
                        raise tlc.MachineryError(f"{o['name']}: no action coverage reported")
                    cov = rep.extra.setdefault("action_coverage", {})
                    for a, (_, tot) in o["coverage"].items():
                        cov[a] = cov.get(a, 0) + tot
                else:
                    want = BUGS[o["bug"]]
                    if want is None and o["violated"]:
                        raise tlc.MachineryError(f"{o['name']}: harmless deviation violates {o['violated']}")
                    if want is not None and o["violated"] != [want]:
                        raise tlc.MachineryError(f"{o['name']}: the deviation should violate {want}, TLC reported "
                                                 f"{o['violated']} (clause is vacuous or mis-stated)")
            dead = [a for a, t in rep.extra["action_coverage"].items() if t == 0 and a not in DEVIATION_ONLY_ACTIONS]
            if dead:
                raise tlc.MachineryError(f"actions never taken in any stage-1 plan: {dead} (vacuous model)")
            rep.extra["design_deviations_caught"] = sorted(b for b, c in BUGS.items() if c)
    finally:
        shutil.rmtree(world.dir, ignore_errors=True)
    if rep.extra.get("flaky_reruns", 0) > max(5, rep.traces // 100):
        raise tlc.MachineryError(f"{rep.extra['flaky_reruns']} scenarios changed their result on re-run")
    rep.exhaustive = True


def replay(rep, path):
    with open(path) as fh:
        doc = json.load(fh)
    case = doc["case"]
    rep.rule = "replay of one recorded case"
    rep.nontrivial.update({1, 2})
    rep.states = rep.transitions = 1
    if case["kind"] == "stage1":
        r = tlc.run("MC_Proxy", mc_cfg(case["plan"], HARD + EXTRA), workers="auto", heap="3g", expect_fail=True)
        if r.violated:
            rep.violation("DesignModel", f"TLC: {r.violated} violated by the model", case)
        return
    world = pn.World.get()
    try:
        _absorb(rep, judge([case["scenario"]]), known.load("C09"))
    finally:
        shutil.rmtree(world.dir, ignore_errors=True)
