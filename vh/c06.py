"""C06 — credentials are never forwarded to a different origin on redirect.

Same specification and driver as C05 (spec/Redirect.tla, vh/redirdrv.py); the clauses in focus are
SensitiveStripped (absent from the cross-origin request and every later one), OthersPreserved and
SingleHostRefuses, the scenario families vary header spelling, carrier, remove_headers_on_redirect sets,
origin aliases (letter case, explicit default port), scheme / port / host changes and chain shapes.
Header carriers include mappings that hold nothing but removable headers (emptied by the strip loop) with and
without pool/manager-level defaults of their own.  D10 (forwarding ProxyManager, redirect to the proxy's own
origin) is repaired in /repo; the spec keeps it as a named deviation that must trip SensitiveStripped, and the
trace monitor still tags that input class so that a regression is reported with its class.
"""
from . import redirdrv


def run(rep):
    redirdrv.run_property(rep, "C06")


def replay(rep, path):
    redirdrv.replay_property(rep, "C06", path)
