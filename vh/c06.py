"""C06 — credentials are never forwarded to a different origin on redirect.

Same specification and driver as C05 (spec/Redirect.tla, vh/redirdrv.py); the clauses in focus are
SensitiveStripped (absent from the cross-origin request and every later one), OthersPreserved and
SingleHostRefuses, the scenario families vary header spelling, carrier, remove_headers_on_redirect sets,
origin aliases (letter case, explicit default port), scheme / port / host changes and chain shapes.
The recorded finding D10 (forwarding ProxyManager, redirect to the proxy's own origin) is matched by input
class, decided by TLC, through known_findings.d/C06.json.
"""
from . import redirdrv


def run(rep):
    redirdrv.run_property(rep, "C06")


def replay(rep, path):
    redirdrv.replay_property(rep, "C06", path)
