"""Deterministic scheduler over REAL threads (used by C02).

Exactly one scheduled thread is runnable at any time; the main thread is the scheduler.  A scheduled
thread hands control back at *yield points*:

  * sys.monitoring LINE events on code objects of urllib3.connectionpool / urllib3.response whose
    source line was selected by AST as touching the shared pool reference (`self.pool` tested, loaded
    or stored), or - in "dense" mode - every line of the pool functions;
  * every operation of `CoopQueue`, a LifoQueue subclass with identical semantics installed through
    the public `QueueCls` extension point (the yield happens on entry, i.e. after the caller has
    loaded the queue reference and before the operation takes effect - this is the "loaded queue
    reference" step of the model);
  * whatever the harness adds (socket send).

A blocking `get` on an empty queue is cooperative: the thread is marked blocked on that queue object
and is only enabled again when the queue is non-empty, so "all unfinished threads blocked" is
*detected* as a deadlock instead of hanging the check.  Decisions come from a chooser object, which
makes every run replayable from its decision list.
"""
from __future__ import annotations

import ast
import inspect
import queue
import sys
import threading
import types
import _thread

from .tlc import MachineryError

TOOL = sys.monitoring.DEBUGGER_ID
MAIN = "main"


class Abort(BaseException):
    """Raised inside scheduled threads to tear a run down (deadlock / step limit)."""


# --------------------------------------------------------------------------- yield-point selection

def _code_objects(mod):
    seen, out = set(), []

    def walk(co):
        if co in seen:
            return
        seen.add(co)
        out.append(co)
        for c in co.co_consts:
            if isinstance(c, types.CodeType):
                walk(c)

    for v in vars(mod).values():
        if isinstance(v, types.FunctionType) and v.__module__ == mod.__name__:
            walk(v.__code__)
        elif isinstance(v, type) and v.__module__ == mod.__name__:
            for m in vars(v).values():
                f = getattr(m, "__func__", m)
                if isinstance(f, types.FunctionType):
                    walk(f.__code__)
                if isinstance(m, property):
                    for g in (m.fget, m.fset):
                        if g:
                            walk(g.__code__)
    return out


def _is_self_attr(node, names):
    return (isinstance(node, ast.Attribute) and node.attr in names
            and isinstance(node.value, ast.Name) and node.value.id == "self")


# kinds the pattern is expected to find per pool function; when a function no longer shows them (a
# refactor moved the shared accesses), every line of that function becomes a preemption point instead
# HTTPResponse.release_conn reaches the shared queue through _put_conn: each of its lines is a preemption point
ALWAYS_DENSE = ("release_conn",)
EXPECT_CLASS = "HTTPConnectionPool"
EXPECT = {"_get_conn": {"test", "load"}, "_put_conn": {"load"}, "close": {"test", "swap"}}


def select_points(mod, attrs=("pool",), dense_funcs=(), skip_funcs=("__init__",), expect=None, fallback=None):
    """Return {code object: (func, {line: kind}, inline_lines)}.  kind: "test" (`self.pool` inside a
    comparison), "swap" (`self.pool` is stored), "load" (`self.pool` read for use), "line" (dense mode /
    dense fallback).  inline_lines: lines where the loaded `self.pool` is itself the receiver of a call
    (`self.pool.get(...)`: load and use in one expression).  Functions listed in `expect` whose
    pattern-located kinds are incomplete are made dense and their names appended to `fallback`."""
    tree = ast.parse(inspect.getsource(mod))
    per_func = {}   # (name, firstlineno) -> ({line: kind}, inline)
    rank = {"line": 0, "load": 1, "test": 2, "swap": 3}
    expect = expect or {}
    pool_methods = {id(f) for c in ast.walk(tree) if isinstance(c, ast.ClassDef) and c.name == EXPECT_CLASS
                    for f in c.body if isinstance(f, (ast.FunctionDef, ast.AsyncFunctionDef))}

    def note(d, line, kind):
        if line not in d or rank[kind] > rank[d[line]]:
            d[line] = kind

    for fn in ast.walk(tree):
        if not isinstance(fn, (ast.FunctionDef, ast.AsyncFunctionDef)) or fn.name in skip_funcs:
            continue
        d, inline = {}, set()
        compares = set()
        for node in ast.walk(fn):
            if isinstance(node, ast.Compare):
                for sub in ast.walk(node):
                    compares.add(id(sub))
            if isinstance(node, ast.Call) and isinstance(node.func, ast.Attribute) and _is_self_attr(node.func.value, attrs):
                inline.add(node.func.value.lineno)
        for node in ast.walk(fn):
            if _is_self_attr(node, attrs):
                if isinstance(node.ctx, ast.Store):
                    note(d, node.lineno, "swap")
                elif id(node) in compares:
                    note(d, node.lineno, "test")
                else:
                    note(d, node.lineno, "load")
        dense = fn.name in dense_funcs
        if id(fn) in pool_methods and fn.name in expect and not expect[fn.name] <= set(d.values()):
            dense = True
            if fallback is not None:
                fallback.append(f"{fn.name}: pattern found {sorted(set(d.values()))}, expected {sorted(expect[fn.name])}")
        if dense:
            for node in ast.walk(fn):
                if isinstance(node, ast.stmt) and node is not fn:
                    note(d, node.lineno, "line")
        if d:
            first = fn.decorator_list[0].lineno if fn.decorator_list else fn.lineno
            per_func[(fn.name, first)] = (d, inline)
    out = {}
    for co in _code_objects(mod):
        ent = per_func.get((co.co_name, co.co_firstlineno))
        if ent:
            out[co] = (co.co_name, ent[0], ent[1])
    return out


_POINTS = {}        # code -> (funcname, {line: kind}, inline lines)
_FALLBACK = []      # functions whose shared accesses were not located by pattern (dense fallback in use)
_ACTIVE = None      # the Scheduler currently running (at most one per process)
_REGISTERED = False
_INSTRUMENTED = None


def _on_line(code, line):
    s = _ACTIVE
    if s is None:
        return None
    ent = _POINTS.get(code)
    if ent is None:
        return None
    kind = ent[1].get(line)
    if kind is not None:
        s.yield_point(kind, ent[0], line, line in ent[2])
    return None


def instrument(modules, dense=False, dense_funcs=("_get_conn", "_put_conn", "close", "_close_pool_connections",
                                                  "release_conn", "_new_conn")):
    """(Re)install LINE events for the selected lines of `modules`.  Idempotent per (dense) setting.
    Returns {func: {line: kind}} for the evidence file."""
    global _REGISTERED, _INSTRUMENTED
    key = (tuple(m.__name__ for m in modules), bool(dense))
    if not _REGISTERED:
        if sys.monitoring.get_tool(TOOL) is None:
            sys.monitoring.use_tool_id(TOOL, "vh.sched")
        sys.monitoring.register_callback(TOOL, sys.monitoring.events.LINE, _on_line)
        _REGISTERED = True
    if _INSTRUMENTED != key:
        for co in list(_POINTS):
            sys.monitoring.set_local_events(TOOL, co, 0)
        _POINTS.clear()
        del _FALLBACK[:]
        for i, mod in enumerate(modules):
            _POINTS.update(select_points(mod, dense_funcs=dense_funcs if dense else ALWAYS_DENSE, expect=EXPECT if i == 0 else None,
                                         fallback=_FALLBACK))
        found = {name for name, _, _ in _POINTS.values()}
        missing = [f for f in EXPECT if f not in found]
        if missing:     # nothing to hang a preemption point on: the pool functions themselves are gone
            raise MachineryError(f"scheduler: pool functions not found in {modules[0].__name__}: {missing}")
        for co in _POINTS:
            sys.monitoring.set_local_events(TOOL, co, sys.monitoring.events.LINE)
        _INSTRUMENTED = key
    return {f"{co.co_filename.rsplit('/', 1)[-1]}:{name}": {str(k): v for k, v in sorted(d.items())}
            for co, (name, d, _) in _POINTS.items()}


def fallbacks():
    """Functions for which the dense fallback is in use (pattern did not locate the expected accesses)."""
    return list(_FALLBACK)


# --------------------------------------------------------------------------------------- scheduler

class Scheduler:
    """run(fns) executes the callables (name -> fn) on real threads, one at a time.

    chooser(sched, enabled) -> name picks the next thread among the enabled ones.  After run():
      steps     [(picked, tag_it_was_parked_at, enabled_tuple)]
      deadlock  True when unfinished threads remained and none was enabled
      stuck     {name: queue object} for the threads blocked at that moment
    """

    def __init__(self, chooser, on_event=None, max_steps=5000):
        self.chooser = chooser
        self.on_event = on_event or (lambda ev: None)
        self.max_steps = max_steps
        self.sem = {}
        self.main = _thread.allocate_lock()   # binary hand-off locks: acquire = wait, release = signal
        self.main.acquire()
        self.pending = {}      # name -> tag (kind, func, line) the thread is parked at
        self.blocked = {}      # name -> queue object waited for
        self.done = set()
        self.current = None
        self.aborting = False
        self.steps = []
        self.deadlock = False
        self.stuck = {}
        self.errors = {}

    # ---- thread side
    def me(self):
        n = threading.current_thread().name
        return n if n in self.sem else None

    def yield_point(self, kind, func="", line=0, inline=False):
        n = threading.current_thread().name
        if n not in self.sem or self.aborting:
            return
        if self.current != n:
            raise MachineryError(f"scheduler: thread {n} runs while {self.current} holds the token")
        self.pending[n] = (kind, func, line)
        self.main.release()
        self.sem[n].acquire()
        if self.aborting:
            raise Abort()
        if kind in ("test", "load", "swap"):     # the thread now executes that line
            self.on_event({"e": "point", "th": n, "kind": kind, "func": func, "line": line, "inline": inline})

    def wait_nonempty(self, q):
        n = threading.current_thread().name
        first = True
        while q._qsize() == 0:
            self.blocked[n] = q
            self.pending[n] = ("blocked", "get", 0)
            if first:
                self.on_event({"e": "block", "th": n})
                first = False
            self.main.release()
            self.sem[n].acquire()
            if self.aborting:
                self.blocked.pop(n, None)
                raise Abort()
        self.blocked.pop(n, None)

    # ---- scheduler side
    def enabled(self):
        return tuple(n for n in self.names if n not in self.done
                     and (n not in self.blocked or self.blocked[n]._qsize() > 0))

    def run(self, fns):
        global _ACTIVE
        if _ACTIVE is not None:
            raise MachineryError("scheduler: nested run")
        self.names = list(fns)
        threads = []
        for name, fn in fns.items():
            self.sem[name] = _thread.allocate_lock()
            self.sem[name].acquire()
            self.pending[name] = ("begin", "", 0)

            def body(fn=fn, name=name):
                self.sem[name].acquire()
                try:
                    if not self.aborting:
                        fn()
                except Abort:
                    pass
                except BaseException as ex:   # the thread function is expected to catch everything itself
                    self.errors[name] = ex
                finally:
                    self.done.add(name)
                    if not self.aborting:
                        self.main.release()

            th = threading.Thread(target=body, name=name, daemon=True)
            threads.append(th)
            th.start()
        _ACTIVE = self
        try:
            while len(self.done) < len(self.names):
                en = self.enabled()
                if not en:
                    self.deadlock = True
                    self.stuck = dict(self.blocked)
                    break
                if len(self.steps) >= self.max_steps:
                    raise MachineryError(f"scheduler: more than {self.max_steps} steps in one run")
                pick = self.chooser(self, en)
                if pick not in en:
                    raise MachineryError(f"scheduler: chooser picked {pick!r}, enabled {en}")
                self.steps.append((pick, self.pending[pick], en))
                self.current = pick
                self.sem[pick].release()
                if not self.main.acquire(timeout=60):
                    raise MachineryError(f"scheduler: thread {pick} did not come back within 60 s "
                                         f"(parked at {self.pending[pick]})")
        finally:
            # tear down whatever is still parked (deadlock, step limit, machinery error)
            self.aborting = True
            _ACTIVE = None
            for n in self.names:
                if n not in self.done:
                    self.sem[n].release()
            for th in threads:
                th.join(timeout=30)
                if th.is_alive():
                    raise MachineryError(f"scheduler: thread {th.name} could not be torn down")
        if self.errors:
            n, ex = next(iter(self.errors.items()))
            raise MachineryError(f"scheduler: thread {n} leaked {ex!r}")
        return self

    def preemptions(self):
        """Number of context switches away from a thread that was still enabled."""
        k = 0
        for i in range(1, len(self.steps)):
            prev = self.steps[i - 1][0]
            if self.steps[i][0] != prev and prev in self.steps[i][2]:
                k += 1
        return k


def active():
    return _ACTIVE


# ---------------------------------------------------------------------------------------- choosers

class PrefixChooser:
    """Follow `prefix` (thread names); afterwards never preempt: keep running the current thread while
    it is enabled, else the first enabled one.  This is the DFS / replay chooser."""

    def __init__(self, prefix=()):
        self.prefix = list(prefix)
        self.i = 0
        self.diverged = False

    def __call__(self, s, en):
        i = self.i
        self.i += 1
        if i < len(self.prefix):
            if self.prefix[i] in en:
                return self.prefix[i]
            self.diverged = True
        return s.current if s.current in en else en[0]


class RandomChooser:
    """Seeded random schedule: at each yield point switch to a random enabled thread with
    probability p_switch (deep schedules, no preemption bound)."""

    def __init__(self, rng, p_switch=0.35):
        self.rng, self.p = rng, p_switch

    def __call__(self, s, en):
        if s.current in en and self.rng.random() >= self.p:
            return s.current
        return en[self.rng.randrange(len(en))]


class DirectedChooser:
    """Realise an abstract ordering [(thread, kind), ...] of *critical* events: every thread is kept
    parked right before its next critical event (non-critical yield points are passed eagerly); the
    ordering says whose critical event fires next.  `mismatch` records where the code's pending event
    kind differs from the ordering (ordering not realised -> the caller reports drift)."""

    def __init__(self, ordering, critical):
        self.ordering = list(ordering)
        self.critical = critical
        self.pos = 0
        self.mismatch = None
        self.fired = []

    def _parked_critical(self, s, n):
        return s.pending[n][0] in self.critical or n in s.blocked

    def __call__(self, s, en):
        # 1. bring every enabled thread to its next critical event (lowest name first: local steps commute)
        for n in en:
            if n not in s.blocked and s.pending[n][0] not in self.critical:
                return n
        # 2. fire the next critical event of the ordering
        while self.pos < len(self.ordering):
            t, kind = self.ordering[self.pos]
            if t in s.done:
                if self.mismatch is None:
                    self.mismatch = (self.pos, t, kind, "thread already finished")
                self.pos += 1
                continue
            if t not in en:
                if self.mismatch is None:
                    self.mismatch = (self.pos, t, kind, "thread not enabled")
                self.pos += 1
                continue
            got = "qget" if t in s.blocked else s.pending[t][0]
            if got != kind and self.mismatch is None:
                self.mismatch = (self.pos, t, kind, "code is at " + got)
            self.pos += 1
            self.fired.append((t, got))
            return t
        # 3. ordering exhausted: run what is left without preemption
        if self.mismatch is None and any(True for _ in en):
            self.mismatch = (self.pos, en[0], "-", "ordering exhausted before the code finished")
        return s.current if s.current in en else en[0]


# ------------------------------------------------------------------------------- cooperative queue

_QSEQ = [0]


class CoopQueue(queue.LifoQueue):
    """LifoQueue with identical semantics whose operations are yield points of the active scheduler
    and whose blocking get waits cooperatively.  `recorder` (class attribute, callable or None)
    receives one event per completed operation."""

    recorder = None

    def __init__(self, maxsize=0):
        super().__init__(maxsize)
        _QSEQ[0] += 1
        self.qid = _QSEQ[0]

    @staticmethod
    def _ident(item):
        if item is None:
            return 0
        return getattr(item, "vid", -1)

    def _rec(self, op, item, res):
        r = CoopQueue.recorder
        if r is not None:
            r({"e": op, "th": threading.current_thread().name, "q": self.qid, "c": self._ident(item), "res": res})

    def get(self, block=True, timeout=None):
        s = _ACTIVE
        if s is not None and s.me() is not None:
            s.yield_point("qget", "get", 0)
            if block and self._qsize() == 0:
                if timeout is not None:
                    raise MachineryError("CoopQueue: timed blocking get is not modelled")
                s.wait_nonempty(self)
            try:
                item = super().get(block=False)
            except queue.Empty:
                self._rec("get", None, "empty")
                raise
        else:
            try:
                item = super().get(block=False) if (not block or self._qsize() > 0) else super().get(block, timeout)
            except queue.Empty:
                self._rec("get", None, "empty")
                raise
        self._rec("get", item, "ok")
        return item

    def put(self, item, block=True, timeout=None):
        s = _ACTIVE
        if s is not None and s.me() is not None:
            s.yield_point("qput", "put", 0)
            if block and self.maxsize > 0 and self._qsize() >= self.maxsize:
                raise MachineryError("CoopQueue: blocking put on a full queue is not modelled")
        try:
            super().put(item, block=False) if (not block or self.maxsize <= 0 or self._qsize() < self.maxsize) \
                else super().put(item, block, timeout)
        except queue.Full:
            self._rec("put", item, "full")
            raise
        self._rec("put", item, "ok")

    def get_nowait(self):
        return self.get(block=False)

    def put_nowait(self, item):
        return self.put(item, block=False)
