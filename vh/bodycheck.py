"""Shared machinery of C12 / C13 (spec/Body.tla, BodyRules.tla, MC_Body.tla, Body_Trace.tla).

stage 1  TLC checks the implementation-shaped model against one INVARIANT per Rules clause (+ liveness), once as
         the repaired design (KnownDefects = {}: everything must hold) and once per named deviation (TLC must
         report exactly the clause that deviation breaks)
stage 2  TLC emits every behaviour of the model within the bounds: scenario, damage, op sequence and the model's
         observations; grouped per op sequence they are the model's ALLOWED observation sets
stage 3  every emitted op sequence is replayed on REAL HTTPResponse objects (vh/bodydrv.py) built for that scenario
         with real codings / framings (vh/bodygen.py); the observed sequence is compared with the allowed set
         (mismatch = MODEL-DRIFT unless the monitor also objects) and recorded as a trace
stage 4  every trace (replayed, enumerated, random) is judged by TLC with the Rules monitor (Body_Trace.tla);
         a failing clause is a VIOLATION unless the history matches a recorded known finding
"""
from __future__ import annotations

import json
import os
import random
import re
import sys
import time
from concurrent.futures import ThreadPoolExecutor

from . import bodydrv as bd
from . import bodygen as bg
from . import known, tlc

AMTS = [1, 2, 3, 7, 64, 1000]
JOBS = max(1, int(os.environ.get("VERIF_JOBS") or os.cpu_count() or 4))     # size of every pool / TLC worker set

MC_CFG = """SPECIFICATION {spec}
CONSTANTS
  Scenarios <- {sc}
  DamageKinds <- {dk}
  Lag = {lag}
  Amts <- {amts}
  Amts1 <- {amts1}
  IntoAmts <- {into}
  GenAmts <- {gen}
  MaxOps = {maxops}
  AfterEnd = {after}
  ApiModes <- {apis}
  KnownDefects <- {kd}
  ShardK = {k}
  ShardS = {s}
{body}
CHECK_DEADLOCK FALSE
"""
INVARIANTS = ["TypeOK", "InOrderNoLossNoDup", "ReadNShortOnlyAtEnd", "NoEmptyStreamPiece", "EmptyAfterEnd",
              "PreloadEqual", "IntactNeverRaises", "CutNeverComplete", "MalformedChunkRaises", "UndecodableRaises",
              "OnlyUrllib3Errors", "ConnNotReused", "DeliveredIsPrefix", "Conservation", "EndMeansAllDelivered",
              "NeverCompleteWhenOwed"]
STAGE1_BODY = "VIEW View\n" + "\n".join("INVARIANT " + i for i in INVARIANTS)
LIVE_BODY = "INVARIANT NeverCompleteWhenOwed\nPROPERTY Terminates\nPROPERTY OwedErrorArrives"
EMIT_BODY = "ACTION_CONSTRAINT Emit"
ACTIONS = ["Read", "ReadNOp", "Read1N", "Read1All", "ReadInto", "Read0", "Stream", "ChunkedOp", "Iter", "Preload",
           "Dispose", "NextRequest"]
# which clauses each named deviation of the model is allowed (and expected) to break
DEFECT_CLAUSES = {
    "JustD6": {"InOrderNoLossNoDup", "DeliveredIsPrefix", "EmptyAfterEnd"},
    "JustD7": {"IntactNeverRaises"},
    "JustD11": {"MalformedChunkRaises", "InOrderNoLossNoDup", "DeliveredIsPrefix"},
    "JustF1": {"CutNeverComplete", "NeverCompleteWhenOwed"},
    "JustF2": {"UndecodableRaises", "NeverCompleteWhenOwed"},
    "JustF3": {"UndecodableRaises", "NeverCompleteWhenOwed"},
    "JustF4": {"ConnNotReused"},
    "JustPW": {"CutNeverComplete", "NeverCompleteWhenOwed"},
    "JustSLP": {"MalformedChunkRaises", "NeverCompleteWhenOwed"},
}


def cfg(**kw):
    d = dict(spec="Spec", sc="ScC12Tiny", dk="OnlyNone", lag=3, amts="A1237", amts1="A27", into="A3", gen="A27",
             maxops=3, after=1, apis="AllApis", kd="NoDefects", k=1, s=0, body=STAGE1_BODY)
    d.update(kw)
    return MC_CFG.format(**d)


# ---------------------------------------------------------------------------------------------- stage 1
def stage1(plans, workers_each=None):
    """plans: list of (name, cfg kwargs, expectation) with expectation None (must hold) or a set of clause names
    (TLC must report a violation and it must be one of them)."""
    par = 1 if JOBS <= 4 else min(len(plans), max(3, (3 * JOBS) // 4))   # concurrent JVMs (most runs are tiny)
    workers_each = workers_each or max(1, JOBS // par)

    def one(p):
        name, kw, expect = p
        kw = dict(kw)
        r = tlc.run("MC_Body", cfg(**{k: v for k, v in kw.items() if not k.startswith("_")}),
                    workers=min(JOBS, kw.get("_workers", workers_each)), heap="3g",
                    expect_fail=expect is not None, coverage=bool(kw.get("_cov")), timeout=3600)
        return name, kw, expect, r
    with ThreadPoolExecutor(par) as ex:
        return list(ex.map(one, plans))


def account_stage1(rep, outs):
    """Record the stage-1 results on the report (main thread only)."""
    for name, kw, expect, r in outs:
        rep.add_tlc(name, r)
        if expect is None:
            if r.violated:
                rep.violation("ModelVsRules", f"stage 1 {name}: TLC reports {r.violated} on the repaired design "
                              f"(KnownDefects = {{}})", {"kind": "stage1", "plan": name})
            cov = {a: r.coverage.get(a) for a in ACTIONS if a in r.coverage}
            if kw.get("_cov") and not cov:
                raise tlc.MachineryError(f"stage 1 {name}: TLC printed no action coverage")
            if r.coverage:
                dead = [a for a in kw.get("_need", ()) if not (r.coverage.get(a) or (0, 0))[1]]
                if dead:
                    raise tlc.MachineryError(f"stage 1 {name}: actions never taken (vacuous): {dead}")
                rep.extra.setdefault("action_coverage", {})[name] = {a: v[1] for a, v in cov.items() if v}
        else:
            if not r.violated:
                raise tlc.MachineryError(f"stage 1 {name}: the model with the deviation enabled violates nothing "
                                         f"(expected one of {sorted(expect)})")
            if not set(r.violated) <= expect:
                raise tlc.MachineryError(f"stage 1 {name}: unexpected clause {r.violated}, expected within {sorted(expect)}")
            rep.extra.setdefault("deviations_exhibited", {})[name] = r.violated
    return outs


# ---------------------------------------------------------------------------------------------- stage 2
_PRE = '<<"SC", "'


def emit(kw, workers=8, kds=("NoDefects", "AsIs")):
    """Run the emission configuration once per KnownDefects setting and merge: the repaired design ({}) and the code
    as it is (MC_Body!AsIs: the recorded deviations F2, F4).  An observation sequence of the real code that lies in neither set is
    MODEL-DRIFT.  Returns (TLCResult of the first run, groups, number of behaviours) where groups maps
    (framing, coding, stacked, decode, enc, chunks, dmgkind, dmgat, ops) -> {"cls", "allowed": set of obs tuples}."""
    import threading
    groups = {}
    prefixes = {}
    n = [0]
    lock = threading.Lock()

    def make_on_line(kd):
        def on_line(ln):
            if not ln.startswith(_PRE):
                return False
            body = ln[len(_PRE):-3].replace('\\\\', '\x00').replace('\\"', '"').replace('\x00', '\\')
            j = json.loads(body)
            fr, co, st, de, enc, ch, dk, at, cls, hist, second, verdict, final = j
            ops = tuple((e[0], e[1]) for e in hist)
            key = (fr, co, st, de, tuple(enc), tuple(ch), dk, at, ops)
            h = tuple(tuple(e) for e in hist)
            with lock:
                n[0] += 1
                g = groups.get(key)
                if g is None:
                    g = groups[key] = {"cls": cls, "allowed": set(), "verdicts": set()}
                g["allowed"].add(h + (second,))
                for jj in range(1, len(h)):            # every prefix of a behaviour is an allowed observation too
                    prefixes.setdefault(key[:8] + (ops[:jj],), set()).add(h[:jj])
                if kd == "NoDefects":
                    g["verdicts"].add((verdict, final))
            return True
        return on_line

    def one(kd):
        before = n[0]
        r = tlc.run("MC_Body", cfg(body=EMIT_BODY, **dict(kw, kd=kd)), workers=max(1, min(JOBS, workers) // par), heap="3g",
                    on_line=make_on_line(kd), timeout=7200)
        if r.generated == 0 or (par == 1 and n[0] == before):
            raise tlc.MachineryError(f"emission ({kd}) produced no behaviour")
        return r

    par = len(kds) if JOBS > 4 else 1                  # the settings run side by side on a big machine
    with ThreadPoolExecutor(par) as ex:
        rs = list(ex.map(one, kds))
    if n[0] == 0:
        raise tlc.MachineryError("emission produced no behaviour")
    first = rs[0]
    first.wall = max(r.wall for r in rs) if par > 1 else sum(r.wall for r in rs)
    for key, g in groups.items():
        if not g["verdicts"] <= {("ok", "ok"), ("ok", "NotDriven")}:     # NotDriven: MaxOps reached mid-body
            raise tlc.MachineryError(f"the repaired-design model emitted a behaviour its own monitor rejects: {key} {g['verdicts']}")
    for key, g in groups.items():
        g["prefix"] = prefixes.get(key, set())
    groups["__prefixes__"] = prefixes
    return first, groups, n[0]


def api_coverage(groups, need):
    """Vacuity gate read back from the emission run: how many emitted op sequences use each API call.  A call the
    model never takes is a machinery failure (every emitted behaviour also passed Dispose and NextRequest)."""
    seen = {}
    for key in groups:
        if key == "__prefixes__":
            continue
        for op, _ in key[8]:
            seen[op] = seen.get(op, 0) + 1
    dead = [a for a in need if not seen.get(a)]
    if dead:
        raise tlc.MachineryError(f"emission: API calls never taken by the model (vacuous): {dead}")
    return seen


# ---------------------------------------------------------------------------------------------- realization
def model_wire(enc, chunks, framing):
    """Mirror of Body.tla Wire0: list of (kind, enc index | chunk index)."""
    if framing != "chunked":
        return [("D", j + 1) for j in range(len(enc))]
    w, off = [], 0
    for i, c in enumerate(chunks):
        w.append(("S", i))
        w += [("D", off + j + 1) for j in range(c)]
        w.append(("C", i))
        off += c
    return w + [("Z", len(chunks)), ("T", len(chunks))]


def realize(fr, co, stacked, decode, enc, chunks, dk, at, var):
    """A real bodygen case for a model scenario.  var: {scale, lenient, inner, seg, ext, pseed}.
    Returns (case, unit) or None when the scenario cannot be realized with this variant."""
    scale = var.get("scale", 1)
    members, cur = [], 0
    for x in enc:
        if x == "d":
            cur += 1
        else:
            members.append(cur)
            cur = 0
    tail = cur
    case = {"pseed": var.get("pseed", 0), "framing": fr, "decode": bool(decode), "seg": var.get("seg"),
            "ext": bool(var.get("ext"))}
    if co == "identity":
        case.update(coding="identity", size=len(enc) * scale)
        slots = [(j * scale, (j + 1) * scale) for j in range(len(enc))]        # enc element -> byte range of raw
        truncate = None
    else:
        mem = [m * scale for m in members] + ([tail * scale] if tail else [])
        nm = len(mem)
        if co == "lenient":
            name = var.get("lenient", "gzip") if nm == 1 else "gzip-mm"
        else:
            name = "zstd" if nm == 1 else "zstd-mf"
        if stacked:
            name = var.get("inner", "gzip") + "," + name
        case.update(coding=name)
        if nm == 1:
            case["size"] = mem[0]
        else:
            case["members"] = mem
        probe = bg.build(dict(case, framing="cl", damage=None))
        bounds = probe["bounds"]
        if len(bounds) != nm:
            return None
        slots, start, truncate = [], 0, None
        counts = members + ([tail] if tail else [])
        for k, cnt in enumerate(counts):
            a, b = start, bounds[k]
            incomplete = tail and k == nm - 1
            nslots = cnt + (0 if incomplete else 1)
            span = b - a
            if incomplete:                      # the stream stops inside this member: keep about two thirds of it
                span = max(nslots, min(span - 1, (2 * span) // 3))
                truncate = a + span
            if span < nslots:
                return None
            for i in range(nslots):
                slots.append((a + (span * i) // nslots, a + (span * (i + 1)) // nslots))
            start = b
        if truncate is not None:
            case["damage"] = {"kind": "trunccode", "at": truncate}
    rawlen = slots[-1][1] if slots else 0
    if fr == "chunked":
        # chunk i covers enc elements [pos, pos+c): its bytes run from the end of the previous chunk
        sizes, prev, pos = [], 0, 0
        for c in chunks:
            end = slots[pos + c - 1][1]
            sizes.append(end - prev)
            prev, pos = end, pos + c
        if any(s <= 0 for s in sizes) or prev != rawlen:
            return None
        case["sizes"] = sizes
    if dk == "none":
        return case
    if truncate is not None:
        return None                              # one damage per response
    mw = model_wire(enc, chunks, fr)
    base = bg.build(dict(case))
    lay = base["layout"]
    if dk == "cut":
        if at >= len(mw):
            return None
        kind, idx = mw[at]                       # first element that does NOT arrive
        if kind == "D":
            e = idx - 1
            if fr == "chunked":
                ci, acc = 0, 0
                while acc + chunks[ci] <= e:
                    acc += chunks[ci]
                    ci += 1
                d0 = [x for x in lay if x[0] == "data" and x[3] == ci][0][1]
                cstart = sum(case["sizes"][:ci])
                off = d0 + (slots[e][0] - cstart)
            else:
                off = slots[e][0]
        else:
            want = {"S": "size", "C": "crlf", "Z": "last", "T": "trailer"}[kind]
            off = [x for x in lay if x[0] == want and x[3] == idx][0][1]
        if not (0 <= off < len(base["wire"])):
            return None
        case["damage"] = {"kind": "cut", "at": off}
    elif dk in ("badsize", "negsize", "emptysize"):
        kind, idx = mw[at - 1]
        case["damage"] = {"kind": dk, "at": idx, "digit": var.get("digit", 0), "byte": var.get("byte", "g")}
    elif dk == "junksize":                       # the right digits followed by junk: the CR replaced ("64X\n")
        kind, idx = mw[at - 1]
        ent = [x for x in lay if x[0] in ("size", "last") and x[3] == idx][0]
        case["damage"] = {"kind": "sizebyte", "line": idx, "pos": ent[2] - ent[1] - 2, "byte": var.get("byte", "X")}
    elif dk == "corrupt":
        kind, idx = mw[at - 1]
        a, b = slots[idx - 1]
        case["damage"] = {"kind": "corruptcode", "at": (a + b) // 2, "xor": var.get("xor", 0x55)}
    else:
        return None
    return case


# ---------------------------------------------------------------------------------------------- comparison with the model
DET = ("read", "readn", "readinto", "data", "read0")


def _ek(err):
    if not err:
        return ""
    if err.startswith("raw:"):
        return "raw"
    return "decode" if err == "DecodeError" else "framing"


def obs_key(events, second, scale, exact):
    """Projection of an observation sequence that the model predicts exactly.  exact (identity / raw bodies with
    unit = 1 byte): everything.  Otherwise: lengths of the deterministic calls up to the first call whose
    length the abstract codec leaves open; flags of that call; nothing after it."""
    out = []
    for e in events:
        op, n, ln, off, err, end = e
        if exact:
            out.append((op, n, ln, off if ln else -2, _ek(err), bool(end)))
        elif op in DET:
            out.append((op, n, ln, _ek(err), bool(end)))
        else:
            out.append((op, n, "*", _ek(err) if ln == 0 else "", bool(end) if ln == 0 else False))
            return tuple(out)
    out.append(("conn", second if any(e[4] for e in events) else "*"))
    return tuple(out)


def scaled(hist, scale):
    return [(op, n * scale, ln * scale, (off * scale if off >= 0 else off), err, end) for op, n, ln, off, err, end in hist]


# ---------------------------------------------------------------------------------------------- stage 4
TRACE_CFG = "SPECIFICATION TSpec\nCHECK_DEADLOCK FALSE\n"
_KEEP = ("facts", "layout", "cutat", "events", "conn", "final")


def validate(traces):
    """TLC judges every trace with the Rules monitor.  -> list of (badl, clause, finalclause, cls) per trace."""
    if not traces:
        return [], None
    slim = [{k: t[k] for k in _KEEP} for t in traces]
    r = tlc.run("Body_Trace", TRACE_CFG, workers=1, files={"traces.json": json.dumps(slim)},
                env={"TRACE_FILE": "traces.json"}, timeout=3600)
    v = tlc.tagged_tuples(r.out, "VERDICT")
    if len(v) != len(traces) or [x[0] for x in v] != list(range(1, len(traces) + 1)):
        raise tlc.MachineryError(f"trace validation produced {len(v)} verdicts for {len(traces)} traces\n{r.out[-2000:]}")
    return [tuple(x[1:]) for x in v], r


# ---------------------------------------------------------------------------------------------- known findings
def signature(run, trace, badl, clause, fin):
    """Facts identifying the violating history (matched against known_findings.d/C12.json, C13.json)."""
    case, f, ev = run["case"], trace["facts"], trace["events"]
    coding = case["coding"]
    layers = coding.split(",")
    e = ev[badl - 1] if 0 < badl <= len(ev) else None
    sig = "other"
    if clause in ("InOrderNoLossNoDup", "EmptyAfterEnd") and f["decoding"] and e and not e["err"]:
        first_bad = e["op"]
        partial_before = any(x["op"] in ("readn", "readinto", "read1n", "read1", "stream") and x["len"] > 0
                             for x in ev[:badl - 1])
        # stream(amt=None) on a body that is not chunked is a loop around read()
        if (first_bad == "read" or (first_bad == "stream" and e["n"] == 0 and f["framing"] != "chunked")) and partial_before:
            sig = "read-all-after-partial-read-with-content-decoding"
    if clause == "EmptyAfterEnd" and f["decoding"] and e and not e["err"] and sig == "other":
        # the other face of D6: read() returned (signalling the end) without the buffered bytes, which then come
        # out of a later sized read
        ends = [j for j, x in enumerate(ev[:badl - 1]) if x["end"] and not x["err"]]
        if ends:
            j = ends[0]
            is_readall = ev[j]["op"] == "read" or (ev[j]["op"] == "stream" and ev[j]["n"] == 0 and f["framing"] != "chunked")
            if is_readall and any(x["op"] in ("readn", "readinto", "read1n", "read1", "stream") and x["len"] > 0 for x in ev[:j]):
                sig = "read-all-after-partial-read-with-content-decoding"
    if clause == "IntactNeverRaises" and f["decoding"] and e and e["err"] == "raw:Deadline" and e["op"] == "stream" \
            and e["n"] == 0 and any(x["op"] in ("readn", "readinto", "read1n", "read1") and x["len"] > 0 for x in ev[:badl - 1]):
        sig = "stream-without-amount-after-partial-read-never-ends"     # read() never drains the stale buffer (D6)
    if clause == "IntactNeverRaises" and e and e["err"] == "DecodeError" and "zstd-mf" in layers \
            and "multiple times" in trace.get("detail", ""):
        sig = "zstd-frame-end-at-feed-boundary"
    if f["dmg"] == "negsize" and clause in ("MalformedChunkRaises", "InOrderNoLossNoDup"):
        if e and (e["err"] == "raw:ValueError" or (not e["err"] and e["off"] != -2)):
            sig = "negative-chunk-size"
    if clause == "CutNeverComplete" and f["framing"] == "cl" and e and e["op"] == "read1" and e["end"]:
        sig = "read1-without-amount-at-cut-content-length"
    if clause == "UndecodableRaises" and f["strict"] and f["indep"] == "incomplete" and e and e["end"] and not e["err"]:
        # the calls that meet EOF with an empty decoded buffer: sized reads, the read(amt) loop behind stream() /
        # iteration on bodies that are not chunked, and read() only when nothing at all was left to read.  Any coding
        # (stack) with a zstd layer: with MultiDecoder.flush() repaired (F3) the stacks fail by this mechanism only;
        # a stack that also ends normally for read() / read1() / preload is NOT this finding.
        if e["op"] in ("readn", "readinto") or (e["op"] in ("stream", "iter") and f["framing"] != "chunked") \
                or (e["op"] == "read" and e["len"] == 0 and badl > 1):
            sig = "zstd-incomplete-eof-reached-without-flush"
    if clause == "MalformedChunkRaises" and f["dmg"] == "sizebyte" and f.get("line") == "malformed" and e and e["end"] \
            and not e["err"] and isinstance(trace.get("int16"), int) and trace["int16"] >= 0:
        # the damaged size token is not 1*HEXDIG, yet int(token, 16) -- used by http.client and by urllib3 -- takes it
        # ("-0" is 0 = the terminating chunk; "7\r" is 7 because int() strips any whitespace)
        sig = "size-token-accepted-by-liberal-int"
    if clause == "ok" and fin == "ConnNotReused":
        errs = [x["err"] for x in ev if x["err"]]
        if errs and errs[0] == "DecodeError" and f["dmg"] in ("corrupt", "none", "sizebyte") and f["framing"] != "close" \
                and trace["conn"]["second"] == "same":
            sig = "decode-error-after-body-received-connection-reused"
    return {"clause": clause if clause != "ok" else fin, "sig": sig}


def judge(rep, findings, run, trace, verdict, counters):
    """Turn one TLC verdict into violation / known finding / nothing.  Returns the class of the response."""
    badl, clause, fin, cls = verdict
    counters["cls"][cls] = counters["cls"].get(cls, 0) + 1
    if fin == "NotDriven":
        if clause == "ok":
            raise tlc.MachineryError(f"a trace was not driven to an end or an error: {run}")
        fin = "ok"                       # the driver gave up after a violating event (e.g. endless empty pieces)
    if clause == "ok" and fin == "ok":
        return cls
    facts = signature(run, trace, badl, clause, fin)
    k = known.match(findings, facts)
    what = describe(run, trace, badl, facts["clause"])
    if k is not None:
        rep.known.append((k["id"], k["what"]))
        counters["known"][k["id"]] = counters["known"].get(k["id"], 0) + 1
        if k["id"] not in counters["known_sample"]:
            counters["known_sample"][k["id"]] = {"run": run, "events": trace["events"][:max(badl, 1) + 1], "what": what}
    else:
        rep.violation(facts["clause"], what, {"kind": "run", "run": run, "events": trace["events"], "conn": trace["conn"],
                                              "facts": trace["facts"], "detail": trace.get("detail", "")})
    return cls


def describe(run, trace, badl, clause):
    c = run["case"]
    ev = trace["events"]
    upto = ev[:badl] if badl else ev
    calls = " ".join(f"{e['op']}({e['n'] or ''})->{e['err'] or e['len']}{'/end' if e['end'] else ''}" for e in upto[-6:])
    return (f"{clause}: {c['coding']}/{c['framing']} size={c.get('size', c.get('members'))} decode={c.get('decode', True)} "
            f"damage={c.get('damage')} seg={c.get('seg')}: {calls} conn={trace['conn']} {trace.get('detail', '')[:80]}")


# ---------------------------------------------------------------------------------------------- workers
def execute(run):
    """run: {"case", "ops", "drain", "preload"} -> trace record (bodydrv.run_case)."""
    return bd.run_case(run["case"], [tuple(x) for x in run["ops"]], tuple(run["drain"]) if run.get("drain") else None,
                       preload=bool(run.get("preload")), after=[tuple(x) for x in run.get("after") or ()],
                       deadline=float(run.get("deadline") or os.environ.get("VERIF_CASE_DEADLINE") or 300.0))


_JVM_GATE = None


def pool_init(gate):
    """Pool initializer: a semaphore bounding the number of concurrent validation JVMs."""
    global _JVM_GATE
    _JVM_GATE = gate


def make_pool():
    import multiprocessing as mp
    gate = mp.Semaphore(JOBS if JOBS > 4 else 1)
    return mp.Pool(JOBS, initializer=pool_init, initargs=(gate,))


def shard_worker(args):
    """Execute a list of runs, validate their traces with TLC, compare with model expectations.
    Returns compact results (no traces except for failures)."""
    runs = args
    t0 = time.time()
    traces = []
    for r in runs:
        try:
            traces.append(execute(r))
        except bg.GenError as ex:
            traces.append(None)
            r["generr"] = str(ex)
    idx = [i for i, t in enumerate(traces) if t is not None]
    if _JVM_GATE is not None:
        with _JVM_GATE:
            verdicts, _ = validate([traces[i] for i in idx])
    else:
        verdicts, _ = validate([traces[i] for i in idx])
    out = []
    for i, v in zip(idx, verdicts):
        t, r = traces[i], runs[i]
        ok = v[1] == "ok" and v[2] == "ok"
        drift = None
        exp = r.get("expect")
        if exp is not None:
            ev = [(e["op"], e["n"], e["len"], e["off"], e["err"], e["end"]) for e in t["events"][:len(r["ops"]) if not r.get("preload") else 1]]
            key = obs_key(ev, t["conn"]["second"], exp["scale"], exp["exact"])
            if key not in exp["keys"]:
                drift = {"got": key, "want_sample": sorted(exp["keys"], key=repr)[:3]}
        nontriv = nontrivial_key(r, t)
        out.append({"i": i, "verdict": v, "drift": drift, "nev": len(t["events"]), "nontriv": nontriv,
                    "trace": t if (not ok or drift) else None,
                    "sample": t if i == idx[0] else None})
    return {"out": out, "n": len(runs), "generr": sum(1 for t in traces if t is None), "wall": time.time() - t0}


def nontrivial_key(run, trace):
    """A case is non-trivial when more than one call touched the body or the body was damaged; the key identifies
    (coding, framing, damage class, call pattern)."""
    c = run["case"]
    ev = trace["events"]
    ops = tuple((e["op"], e["n"]) for e in ev[:6])
    dm = c.get("damage") or {}
    if len(ev) < 2 and not dm:
        return None
    return (c["coding"], c["framing"], c.get("size", str(c.get("members"))), bool(c.get("decode", True)), dm.get("kind"),
            dm.get("at"), c.get("seg"), ops)


# ---------------------------------------------------------------------------------------------- the LARGE size class
LARGE_SIZES = [2 ** 20 + 1, 3 * 2 ** 20 + 17]


def large_runs(damaged, quick, seed):
    """Bodies of more than 1 MiB (Body.tla's size class "large": unbounded reads with more than max_chunk_amt of
    Content-Length outstanding).  Intact (C12): every API must deliver every byte.  Damaged (C13): cut after the
    first byte, in the middle, just past the first MiB and before the last byte, through the unbounded reads
    (read(), preload, read(n) then read()) and the sized / streaming ones."""
    rng = random.Random(seed * 6151 + 77)
    codings = ["identity", "gzip"] if quick else ["identity", "gzip", "zstd", "deflate", "gzip-mm"]
    big = 65536
    apis = [([("read", 0)], None, False), ([], None, True), ([("readn", 1000), ("read", 0)], None, False),
            ([("readn", big)], ("readn", big), False), ([("read1n", big)], ("read1n", big), False),
            ([("read1", 0)], ("read1", 0), False), ([("stream", big)], ("stream", big), False),
            ([("readinto", 70000)], ("readinto", 70000), False), ([("readn", 300000), ("read", 0)], None, False)]
    runs = []
    for size in LARGE_SIZES:
        for coding in codings:
            for framing in ("cl", "chunked"):
                base = {"size": size, "pseed": seed, "coding": coding, "framing": framing, "chunks": "big", "ext": False,
                        "decode": True, "seg": rng.choice([None, 65536, 16384])}
                mine = list(apis) + ([([("chunked", big)], ("chunked", big), False)] if framing == "chunked" else [])
                if not damaged:
                    for ops, drain, preload in (mine if not quick else rng.sample(mine, 5) + mine[:2]):
                        runs.append({"case": dict(base), "ops": list(ops), "drain": drain or ("readn", big), "preload": preload,
                                     "after": [("readn", 7)] if not preload else None})
                    continue
                nw = len(bg.build(base)["wire"])
                cuts = sorted({1, nw // 2, min(nw - 2, 2 ** 20 + 4096), nw - 1})
                for at in cuts:
                    for ops, drain, preload in (mine if not quick else mine[:3] + rng.sample(mine[3:], 1)):
                        runs.append({"case": dict(base, damage={"kind": "cut", "at": at}), "ops": list(ops),
                                     "drain": drain or ("readn", big), "preload": preload})
    return runs


# ---------------------------------------------------------------------------------------------- model replays -> runs
LENIENT = ["gzip", "deflate", "deflate-raw"]


def runs_from_groups(groups, variants, seed):
    """One run per (emitted op sequence, variant) with the model's allowed observation keys attached."""
    rng = random.Random(seed)
    runs = []
    skipped = 0
    prefixes = groups.get("__prefixes__", {})
    for key, g in groups.items():
        if key == "__prefixes__":
            continue
        fr, co, st, de, enc, ch, dk, at, ops = key
        for vi, var in enumerate(variants):
            var = dict(var)
            if co == "lenient":
                var.setdefault("lenient", LENIENT[(len(ops) + sum(n for _, n in ops) + len(fr) + vi) % 3])
            case = None
            try:
                case = realize(fr, co, st, de, list(enc), list(ch), dk, at, var)
            except bg.GenError:
                case = None
            if case is None:
                skipped += 1
                continue
            scale = var.get("scale", 1)
            exact = co == "identity" and scale == 1 and dk in ("none", "cut", "badsize", "emptysize", "junksize")
            # the model's unit lengths transfer to bytes for identity bodies (exactly) and for intact decoded bodies
            # (deterministic calls); not for the raw view of a coded body, nor for a damaged coded stream, where how
            # much of it still decodes is the codec's business
            comparable = co == "identity" or (de and dk == "none" and "damage" not in case)
            preload = bool(ops and ops[0][0] == "data")
            real_ops = [(op, n * scale) for op, n in ops]
            gens = [op for op, _ in ops if op in bd.GEN_OPS]
            if gens and (fr == "chunked" or gens[0] == "iter"):
                drain = [o for o in real_ops if o[0] == gens[0]][0]
            else:
                drain = ("readn", 997)
            # the model's facts must be the real facts, else its expectation does not transfer
            # a real run stops at the first exception: its observation may be a behaviour of a PREFIX of the ops
            keys = set()
            for j in range(1, len(ops) + 1):
                gj = g if j == len(ops) else groups.get((fr, co, st, de, enc, ch, dk, at, ops[:j]))
                if gj is not None:
                    keys |= {obs_key(scaled(list(h[:-1]), scale), h[-1], scale, exact) for h in gj["allowed"]}
            keys |= {obs_key(scaled(list(h), scale), "*", scale, exact) for h in prefixes.get(key, ())}
            runs.append({"case": case, "ops": real_ops, "drain": drain, "preload": preload, "mcls": g["cls"],
                         "expect": {"keys": keys, "scale": scale, "exact": exact} if comparable else None, "model": [fr, co, st, de, list(enc), list(ch), dk, at]})
    rng.shuffle(runs)
    return runs, skipped


# ---------------------------------------------------------------------------------------------- driving everything
def run_all(rep, pool, runs, findings, counters, label, per=400):
    """Execute + validate `runs` on the process pool; account results on `rep`."""
    shards = [runs[i:i + per] for i in range(0, len(runs), per)]
    t0 = time.time()
    res = []
    for k, o in enumerate(pool.imap(shard_worker, shards)):
        res.append(o)
        if os.environ.get("VERIF_PROGRESS"):
            print(f"[{label}] shard {k + 1}/{len(shards)} {time.time() - t0:.0f}s", file=sys.stderr, flush=True)
    nrun = 0
    drift_unexplained = 0
    for sh, o in zip(shards, res):
        nrun += o["n"] - o["generr"]
        counters["generr"] += o["generr"]
        for x in o["out"]:
            run = sh[x["i"]]
            slim_run = {k: run.get(k) for k in ("case", "ops", "drain", "preload", "deadline", "after")}
            rep.traces += 1
            rep.evaluations += x["nev"]
            if x["nontriv"] is not None:
                rep.nontrivial.add(repr(x["nontriv"]))
            if x["sample"] is not None:
                rep.sample({"leg": label, "case": run["case"], "ops": run["ops"][:6],
                            "events": x["sample"]["events"][:4], "verdict": list(x["verdict"])}, cap=6)
            trace = x["trace"] or {"events": [], "facts": {}, "conn": {}}
            if x["verdict"][1] == "ok" and x["verdict"][2] == "ok":
                cls = x["verdict"][3]
                counters["cls"][cls] = counters["cls"].get(cls, 0) + 1
                if x["drift"] and run.get("mcls") == cls:
                    drift_unexplained += 1
                    if len(rep.drift) < 20:
                        rep.drift.append(f"{label}: observation outside the model's set for {run['case']['coding']}/"
                                         f"{run['case']['framing']} dmg={run['case'].get('damage')} ops={run['ops'][:5]}: "
                                         f"got {x['drift']['got']} model allows e.g. {x['drift']['want_sample'][:2]}")
                continue
            judge(rep, findings, slim_run, trace, x["verdict"], counters)
    counters["legs"][label] = {"runs": nrun, "wall_s": round(time.time() - t0, 1)}
    return nrun


def new_counters():
    return {"cls": {}, "known": {}, "known_sample": {}, "generr": 0, "legs": {}}


def finish(rep, counters):
    rep.extra["response_classes"] = counters["cls"]
    rep.extra["known_finding_counts"] = counters["known"]
    rep.extra["known_finding_samples"] = {k: {"case": v["run"]["case"], "ops": v["run"]["ops"][:6], "what": v["what"]}
                                          for k, v in counters["known_sample"].items()}
    rep.extra["legs"] = counters["legs"]
    rep.extra["generator_rejects"] = counters["generr"]


# ---------------------------------------------------------------------------------------------- replay of a recorded case
def replay_case(rep, pid, path):
    with open(path) as fh:
        doc = json.load(fh)
    case = doc["case"]
    findings = known.load(pid)
    counters = new_counters()
    rep.rule = "replay of one recorded case"
    if case.get("kind") == "stage1":
        raise tlc.MachineryError("stage-1 findings are re-checked by running the check itself")
    run = case["run"]
    t = execute(run)
    verdicts, r = validate([t])
    rep.traces += 1
    rep.evaluations += len(t["events"])
    rep.nontrivial.update({"replay", "case"})
    rep.states = rep.states or (r.distinct if r else 1)
    rep.transitions = rep.transitions or (r.generated if r else 1)
    judge(rep, findings, {k: run.get(k) for k in ("case", "ops", "drain", "preload", "deadline", "after")}, t, verdicts[0], counters)
    finish(rep, counters)
