"""C10 — no input can inject into or split the HTTP request on the wire.

stage 1  TLC checks spec/Wire.tla over the hostile domain of spec/MC_Wire.tla: for every request
         (every string up to the bound over the hostile alphabet in every field, pairs of fields,
         structured seeds) Accept => Parse(Serialize(req)) = <<req'>>, the refusal rules are exactly
         the unrepresentable requests, automatic lines only when neither supplied nor suppressed ...
stage 2  TLC emits the same domain with the three-valued expectation (sharded)
stage 3  every emitted request is driven through the real HTTPConnection.request /
         HTTPConnectionPool.urlopen / PoolManager.request over the in-memory network (and, for header
         validity, HTTP2Connection.putheader); the outcome is compared with the emitted expectation
stage 3b every refused request with short varying fields (and every refused seed) is also call 1 of a two-call history: the same
         pool / PoolManager / (closed and re-used) HTTPConnection then sends a clean request, with the object's connection fresh,
         closed by the server, or alive; TLC judges the bytes of call 2 by the per-call clause (Wire.tla section 9)
stage 4  every execution (emitted domain + seeded random requests beyond the bound) is recorded as a
         trace (input symbols, raised or not, raw wire bytes tokenised into symbols) and judged by TLC
         (spec/Wire_Trace.tla, operator Wire!Judge = strict Parse of the bytes actually written)
"""
from __future__ import annotations

import io
import json
import multiprocessing as mp
import os
import random
import warnings

from . import known, net, tlc

HOST = "h"
ALPHABET = ["CR", "LF", "NUL", "DEL", "SP", "HT", ":", "%", "a", "Z", "NA", "#", "?", "/"]
NAMED = {"CR": "\r", "LF": "\n", "NUL": "\x00", "DEL": "\x7f", "SP": " ", "HT": "\t", "NA": "\xe9"}
_BYTE2SYM = {13: "CR", 10: "LF", 0: "NUL", 127: "DEL", 32: "SP", 9: "HT"}
TWO_CALLS = ["InvSecondCallUntouched", "InvKeptHeadIsCaught", "InvResidueShape"]      # Wire.tla section 9
COMBINED = ["InvAllOnRequest", "InvH1UnsafeIsH2Refused", "InvExpectTotal"] + TWO_CALLS       # InvAllOnRequest = the first six, sharing Serialize/Parse
INVARIANTS = ["InvParseSerializeIdentity", "InvRefuseIffUnrepresentable", "InvRefusalJudged", "InvTargetIsSafe",
              "InvAutoOnlyWhenAbsent", "InvEncodeIdempotent", "InvH1UnsafeIsH2Refused", "InvExpectTotal"] + TWO_CALLS

MC_CFG = """SPECIFICATION Spec
CONSTANTS
  HostValue <- EnvHost
  UAValue <- EnvUA
  MaxM = {m}
  MaxU = {u}
  MaxN = {n}
  MaxV = {v}
  PairLen = {pair}
  H2Len = {h2}
  MaxD = {d}
  PairMaxLen = {pairlen}
  ShardK = {k}
  ShardS = {s}
  EmitOn = {emit}
{invs}
CHECK_DEADLOCK FALSE
"""
TRACE_CFG = """SPECIFICATION TSpec
CONSTANTS
  HostValue <- DocHost
  UAValue <- DocUA
CHECK_DEADLOCK FALSE
"""


# ------------------------------------------------------------------------------ symbols

def syms(text) -> list:
    """str (characters <= U+00FF) or bytes -> symbol list"""
    if isinstance(text, str):
        out = []
        for ch in text:
            if ch == "\xe9":
                out.append("NA")
            else:
                out.extend(tokenise(ch.encode("latin-1")))
        return out
    return tokenise(text)


def tokenise(data: bytes) -> list:
    """raw bytes -> the spec's symbol alphabet (a table, nothing else)"""
    return [_BYTE2SYM.get(b) or (chr(b) if 0x21 <= b <= 0x7E else "x%02X" % b) for b in data]


def text(symbols) -> str:
    return "".join(NAMED.get(s, s) for s in symbols)


def user_agent() -> str:
    from urllib3.connection import _get_default_user_agent
    return _get_default_user_agent()


def env_doc(seeds=()):
    return {"host": syms(HOST), "ua": syms(user_agent()), "seeds": list(seeds)}


# ------------------------------------------------------------------------------ structured seeds

def mkreq(level, method="GET", url="a", hdrs=(), body=("none", ()), slash=True):
    return {"level": level, "method": syms(method), "slash": slash, "url": syms(url),
            "hdrs": [{"n": syms(n), "v": syms(v if v is not None else ""), "skip": v is None} for n, v in hdrs],
            "body": {"kind": body[0], "chunks": [syms(c) for c in body[1]]}, "chunked": False}


EVIL = "GET /evil HTTP/1.1\r\nHost: e\r\n\r\n"


def seeds() -> list:
    out = []
    spell = {"host": ["Host", "host", "HOST"], "accept-encoding": ["Accept-Encoding", "accept-encoding", "ACCEPT-ENCODING"],
             "user-agent": ["User-Agent", "user-agent", "USER-AGENT"]}
    for level in ("conn", "pool", "mgr"):
        # automatic lines: every combination of absent / supplied / suppressed
        for a in range(27):
            hs = []
            for pos, key in enumerate(("host", "accept-encoding", "user-agent")):
                mode = (a // 3 ** pos) % 3
                name = spell[key][(a + pos) % 3]
                if mode == 1:
                    hs.append((name, "v" + str(pos)))
                elif mode == 2:
                    hs.append((name, None))
            if a % 2:
                hs.reverse()
            out.append(mkreq(level, hdrs=hs + [("X-k", "1")]))
        out.append(mkreq(level, hdrs=[("X-a", None)]))                       # SKIP_HEADER on another header
        out.append(mkreq(level, hdrs=[("host ", None)]))
        # bodies: only valid kinds; the framing must not open a second message
        for method in ("POST", "GET", "put"):
            for kind, chunks in (("none", ()), ("bytes", ("aZ",)), ("bytes", (EVIL,)), ("bytes", ("",)), ("str", ("a\xe9Z",)),
                                 # a buffer object whose len() counts 2-byte items: were Content-Length its len(), the second half of
                                 # its bytes - a complete request - would trail the message
                                 ("widebuffer", ("x" * len(EVIL) + EVIL,)), ("widebuffer", ("aZ",)), ("widebuffer", ("",)),
                                 ("str", (EVIL,)), ("iter", ("a", "", "Z\r\n")), ("iter", (EVIL, "0\r\n\r\n")), ("iter", ()),
                                 ("file", ("aZ\r\n\r\n",)), ("file", (EVIL,)), ("file", ())):
                out.append(mkreq(level, method=method, hdrs=[("X-k", "1")], body=(kind, chunks)))
        # embedded complete requests and classic injections, every field
        for u in ("a HTTP/1.1\r\nHost: e\r\n\r\n" + EVIL, "a?x= HTTP/1.1\r\n\r\n" + EVIL, "a#f HTTP/1.1\r\n\r\n" + EVIL,
                  "a%0d%0aX-Injected:%201", "a%0D%0A%zz", "a%", "%a?%aa%a#%", "a\r\nX-Injected: 1", "a\nX-Injected: 1",
                  "a\rX-Injected: 1", "a X", "a\tX", "/a/../b", "a?b?c#d#e", "a\xe9?\xe9#\xe9",
                  # dot segments (the manager's parse_url removes them, pool and connection do not)
                  ".", "..", "./", "../", "a/./b", "a/../b", "a/b/../../c", "a/..", "a/.", "../../a", "..a/.b/c..", "a/%2e%2e/b",
                  "a/..?x/../y#/../z", "a/.. /b", "a/..\r\nX-Injected: 1/..", "/../a", "a//../b"):
            out.append(mkreq(level, url=u))
        for v in ("a\r\n\r\n" + EVIL, "a\r\nX-Injected: 1", "a\nX-Injected: 1", "a\rX-Injected: 1", "a\r\n X-Folded: 1",
                  "a\n\tX-Folded: 1", "a\r X-Folded: 1", "a\r\n", "a\n", "a\r", "a\r\n ", "\r\n a", "a\r\n\r\n b", "a\x00b", "\xe9",
                  "a: b", EVIL.replace("\r\n", " ")):
            out.append(mkreq(level, hdrs=[("X-a", v), ("X-k", "1")]))
        for n in ("X-a\r\nX-Injected", "X-a: v\r\nX-Injected", "X-a\nX-Injected", "X-a\rX-Injected", "X-a:", ":X-a", " X-a", "\tX-a",
                  "X a", "X-a ", "", "X-\xe9", "X-a\r\n\r\n" + EVIL):
            out.append(mkreq(level, hdrs=[("X-k", "1"), (n, "v"), ("X-z", "2")]))
        for m in ("GET / HTTP/1.1\r\nHost: e\r\n\r\nGET", "GET\r\nX-Injected:", "GET\n", "GET /x", "GET\t", "G\x00T", "get", "",
                  "PATCH", "M-SEARCH", "G\xe9T"):
            out.append(mkreq(level, method=m))
        # a refused request that carries a secret before the header that gets it refused (call 1 of the two-call histories)
        out.append(mkreq(level, method="DELETE", url="admin/users/1", hdrs=[("X-Token", "s3cret"), ("X-Bad", "a\r\nb")]))
        out.append(mkreq(level, method="DELETE", url="admin/users/1", hdrs=[("X-Token", "s3cret"), ("X-Skip", None)]))
        out.append(mkreq(level, method="DELETE", url="admin/users/1", hdrs=[("X-Token", "s3cret"), ("X-\xe9", "v")]))
    out.append(mkreq("conn", url="", slash=False))
    out.append(mkreq("conn", url="?a", slash=False))
    out.append(mkreq("conn", url="*", slash=False, method="OPTIONS"))
    return out


# ------------------------------------------------------------------------------ stage 3: the real code

_OK = None


def _responder(peer, request):
    global _OK
    if _OK is None:
        _OK = net.http_response(200, b"")
    return net.Reply(_OK)


def _body(req):
    kind, chunks = req["body"]["kind"], [text(c) for c in req["body"]["chunks"]]
    if kind == "none":
        return None
    if kind == "str":
        return "".join(chunks)
    raw = [c.encode("latin-1") for c in chunks]
    if kind == "bytes":
        return b"".join(raw)
    if kind == "widebuffer":
        import array
        data = b"".join(raw)
        if len(data) % 2:
            raise tlc.MachineryError("a wide buffer needs an even number of bytes")
        body = array.array("H")
        body.frombytes(data)
        return body
    if kind == "iter":
        return iter(raw)
    if kind == "file":
        return io.BytesIO(b"".join(raw))
    raise tlc.MachineryError("unknown body kind " + kind)


def _headers(req):
    from urllib3.util import SKIP_HEADER
    hs = {}
    for h in req["hdrs"]:
        k = text(h["n"])
        if k in hs:
            raise tlc.MachineryError(f"harness generated a duplicate header key {k!r}")
        hs[k] = SKIP_HEADER if h["skip"] else text(h["v"])
    return hs


def execute(req) -> dict:
    """Drive one request through the real code; return the trace (JSON)."""
    level = req["level"]
    if level == "h2":
        return execute_h2(req)
    from urllib3.connection import HTTPConnection
    from urllib3.connectionpool import HTTPConnectionPool
    from urllib3.poolmanager import PoolManager
    method, target = text(req["method"]), ("/" if req["slash"] else "") + text(req["url"])
    headers, body = _headers(req), _body(req)
    n = net.Net(_responder)
    exc = None
    with warnings.catch_warnings():
        warnings.simplefilter("ignore")
        with n:
            try:
                if level == "conn":
                    c = HTTPConnection(HOST, 80, timeout=5)
                    try:
                        c.request(method, target, body=body, headers=headers)
                    finally:
                        c.close()
                elif level == "pool":
                    if not req["slash"]:
                        raise tlc.MachineryError("pool-level targets are always rooted")
                    p = HTTPConnectionPool(HOST, 80, timeout=5, retries=False)
                    try:
                        p.urlopen(method, target, body=body, headers=headers, retries=False)
                    finally:
                        p.close()
                elif level == "mgr":
                    if not req["slash"]:
                        raise tlc.MachineryError("manager-level targets are always rooted")
                    m = PoolManager(timeout=5, retries=False)
                    try:
                        m.request(method, "http://" + HOST + target, body=body, headers=headers, retries=False)
                    finally:
                        m.clear()
                else:
                    raise tlc.MachineryError("unknown level " + level)
            except tlc.MachineryError:
                raise
            except net.HarnessStall as ex:       # the scripted peer could not make sense of what was written
                exc = ex
            except Exception as ex:
                exc = ex
    wire = b"".join(bytes(n.peers[c].received) for c in sorted(n.peers))
    nsend = sum(1 for e in n.log if e[0] == "SEND" and e[2] > 0)
    if (len(wire) == 0) != (nsend == 0):
        raise tlc.MachineryError(f"peer saw {len(wire)} bytes but the socket logged {nsend} SEND events")
    return {"req": req, "raised": exc is not None, "exc": type(exc).__name__ if exc is not None else "",
            "wire": tokenise(wire), "h2": [], "nconn": len(n.peers)}


def execute_h2(req) -> dict:
    from urllib3.http2.connection import HTTP2Connection
    c = HTTP2Connection(HOST, 443)
    h = req["hdrs"][0]
    exc = None
    try:
        c.putheader(text(h["n"]), text(h["v"]))
    except Exception as ex:
        exc = ex
    rec = [{"n": tokenise(bytes(k)), "v": tokenise(bytes(v))} for k, v in c._headers]
    return {"req": req, "raised": exc is not None, "exc": type(exc).__name__ if exc is not None else "",
            "wire": [], "h2": rec, "nconn": 0}


def h2_available() -> bool:
    try:
        import urllib3.http2.connection  # noqa: F401
        return True
    except ImportError:
        return False


# ------------------------------------------------------------------------------ stage 4: TLC judges

def validate(traces):
    """Batch validation by TLC.  Returns [(hard clause, exact?, class, refusal rules that apply, hard clause of call 2, model of
    call 2's bytes)] per trace (the last two "n/a" for single calls)."""
    if not traces:
        return []
    doc = env_doc()
    doc.pop("seeds")
    doc["traces"] = [dict({"req": t["req"], "raised": t["raised"], "wire": t["wire"], "h2": t["h2"]},
                          **({"second": t["second"], "raised2": t["raised2"], "wire2": t["wire2"]} if "second" in t else {})) for t in traces]
    r = tlc.run("Wire_Trace", TRACE_CFG, workers=1, files={"traces.json": json.dumps(doc)},
                env={"TRACE_FILE": "traces.json"}, timeout=7200)
    vs = [ln[1:-1].split("|")[1:] for ln in r.out.splitlines() if ln.startswith('"VERDICT|') and ln.endswith('"')]
    if len(vs) != len(traces) or [v[0] for v in vs] != [str(i) for i in range(1, len(traces) + 1)] or any(len(v) != 7 for v in vs):
        raise tlc.MachineryError(f"Wire_Trace produced {len(vs)} verdicts for {len(traces)} traces\n{r.out[-2000:]}")
    return [(v[1], v[2] == "exact", v[3], [w for w in v[4].split("+") if w], v[5], v[6]) for v in vs]


def nontrivial(req) -> bool:
    fields = [req["method"], req["url"]] + [h["n"] for h in req["hdrs"]] + [h["v"] for h in req["hdrs"]]
    return (any(s in NAMED or s in (":", "%", "#", "?") for f in fields for s in f) or req["body"]["kind"] != "none"
            or any(h["skip"] for h in req["hdrs"]) or any(f == [] for f in fields))


def key(req) -> str:
    return json.dumps(req, sort_keys=True, separators=(",", ":"))


def h2_shape(req):
    n = text(req["hdrs"][0]["n"])
    import re
    if re.fullmatch(r"[!#$%&'*+\-.^_`|~0-9a-zA-Z]+\n", n):
        return "token+trailing-LF"
    return "other"


def assess(items, origin):
    """items: [(req, emitted expectation or None, emitted wire or None)].  Execute, judge, summarise."""
    traces = [execute(req) for req, _, _ in items]
    verdicts = validate(traces)
    res = {"n": len(items), "bad": [], "drift": [], "tally": {}, "nontrivial": set(), "samples": [], "known": []}
    findings = known.load("C10")
    for (req, expect, ewire), t, (hard, exact, cls, why, _h2, _w2) in zip(items, traces, verdicts):
        if expect is not None and expect != cls:
            raise tlc.MachineryError(f"emitted expectation {expect} but the trace monitor computed {cls} for {req}")
        written = bool(t["wire"]) or (req["level"] == "h2" and not t["raised"])
        tk = f"{req['level']}/{cls}/{'written' if written else 'refused'}"
        res["tally"][tk] = res["tally"].get(tk, 0) + 1
        for w in why:          # which refusal rule of the spec this execution exercised
            rk = f"rule:{req['level']}/{w}"
            res["tally"][rk] = res["tally"].get(rk, 0) + 1
        if nontrivial(req):
            res["nontrivial"].add(hash(key(req)))
        clause = hard
        if clause == "ok" and expect is not None:
            # spec -> code: the emitted expectation, compared directly
            if expect == "MustRefuse" and (written or not t["raised"]):
                clause = "EmittedMustRefuse"
            elif expect == "MustBeExactlyThis" and (t["raised"] or (req["level"] != "h2" and t["wire"] != ewire)):
                clause = "EmittedMustBeExactlyThis"
        if clause != "ok":
            facts = {"level": req["level"], "clause": clause, "name_shape": h2_shape(req) if req["level"] == "h2" else "n/a"}
            f = known.match(findings, facts)
            if f is not None:
                res["known"].append((f["id"], f["what"]))
            elif len(res["bad"]) < 10:
                res["bad"].append((clause, _describe(t, clause), {"req": req, "origin": origin}))
        elif not exact and len(res["drift"]) < 3:
            res["drift"].append(f"{req['level']}: wire is one correct request but not the canonical serialisation: "
                                f"{text(t['wire'])!r} for {_short(req)}")
        if len(res["samples"]) < 2 and written and nontrivial(req) and req["level"] != "h2":
            res["samples"].append({"input": _short(req), "class": cls, "exception": t["exc"], "wire": text(t["wire"])})
        elif len(res["samples"]) < 3 and not written and nontrivial(req):
            res["samples"].append({"input": _short(req), "class": cls, "exception": t["exc"], "wire": ""})
    return res


def _short(req):
    return {"level": req["level"], "method": text(req["method"]), "target": ("/" if req["slash"] else "") + text(req["url"]),
            "headers": [[text(h["n"]), "<SKIP_HEADER>" if h["skip"] else text(h["v"])] for h in req["hdrs"]],
            "body": [req["body"]["kind"]] + [text(c) for c in req["body"]["chunks"]]}


def _describe(t, clause):
    s = _short(t["req"])
    if t["req"]["level"] == "h2":
        return f"{clause}: HTTP2Connection.putheader({s['headers'][0][0]!r}, {s['headers'][0][1]!r}) raised={t['exc'] or None} recorded={t['h2']}"
    return (f"{clause}: {s['level']} method={s['method']!r} target={s['target']!r} headers={s['headers']} body={s['body']} "
            f"raised={t['exc'] or None} wrote {text(t['wire'])!r}")


# ------------------------------------------------------------------------------ two calls on one client object

SOCKS = {"conn": ["fresh", "closed", "alive"], "pool": ["fresh", "closed", "alive"], "mgr": ["fresh", "closed", "alive"]}


def execute_pair(r1, r2, sock) -> dict:
    """A refused request (r1) and then an accepted one (r2) through the SAME connection / pool / manager object.
    sock: state of the object's connection when r1 arrives - "fresh" (never connected), "closed" (the server answered an
    earlier request with Connection: close), "alive" (kept alive after an earlier request).  A bare HTTPConnection is
    close()d by the caller after the refusal, which is what makes it usable again."""
    from urllib3.connection import HTTPConnection
    from urllib3.connectionpool import HTTPConnectionPool
    from urllib3.poolmanager import PoolManager
    level = r1["level"]
    seen = []
    closing = net.Reply(net.http_response(200, b"", keepalive=False), close=True)

    def responder(peer, request):
        seen.append(request)
        return closing if (sock == "closed" and len(seen) == 1) else _responder(peer, request)

    n = net.Net(responder)

    def snap():
        return b"".join(bytes(n.peers[c].received) for c in sorted(n.peers))

    def call(obj, req):
        method, target = text(req["method"]), ("/" if req["slash"] else "") + text(req["url"])
        headers, body = _headers(req), _body(req)
        if level == "conn":
            obj.request(method, target, body=body, headers=headers)
            obj.getresponse().read()
        elif level == "pool":
            obj.urlopen(method, target, body=body, headers=headers, retries=False)
        else:
            obj.request(method, "http://" + HOST + target, body=body, headers=headers, retries=False)

    out = {}
    with warnings.catch_warnings():
        warnings.simplefilter("ignore")
        with n:
            obj = (HTTPConnection(HOST, 80, timeout=5) if level == "conn" else
                   HTTPConnectionPool(HOST, 80, timeout=5, retries=False, maxsize=1) if level == "pool" else
                   PoolManager(timeout=5, retries=False, maxsize=1))
            try:
                if sock != "fresh":
                    call(obj, mkreq(level, url="warm"))
                for key_, req in (("1", r1), ("2", r2)):
                    before = snap()
                    exc = None
                    try:
                        call(obj, req)
                    except tlc.MachineryError:
                        raise
                    except (Exception, net.HarnessStall) as ex:
                        exc = ex
                    after = snap()
                    if not after.startswith(before):
                        raise tlc.MachineryError("bytes of an earlier call changed")
                    out[key_] = (exc, after[len(before):])
                    if key_ == "1" and level == "conn":
                        obj.close()          # the caller's way of making the connection object usable again
            finally:
                obj.close() if level != "mgr" else obj.clear()
    (e1, w1), (e2, w2) = out["1"], out["2"]
    return {"req": r1, "raised": e1 is not None, "exc": type(e1).__name__ if e1 is not None else "", "wire": tokenise(w1), "h2": [],
            "second": r2, "raised2": e2 is not None, "exc2": type(e2).__name__ if e2 is not None else "", "wire2": tokenise(w2), "sock": sock}


def assess_pairs(items):
    """items: [(r1, r2, sock, kept, emitted wire2)]: execute, let TLC judge both calls, summarise."""
    traces = [execute_pair(r1, r2, sock) for r1, r2, sock, _, _ in items]
    verdicts = validate(traces)
    res = {"n": len(items), "bad": [], "drift": [], "tally": {}, "nontrivial": set(), "samples": [], "known": []}
    findings = known.load("C10")
    for (r1, r2, sock, kept, ewire2), t, (hard, exact, cls, why, hard2, which2) in zip(items, traces, verdicts):
        level = r1["level"]
        for k in (f"pair:{level}/{sock}/{'head-pending' if kept else 'head-maybe-pending'}/{which2}",) + tuple(f"pair-rule:{level}/{w}" for w in why):
            res["tally"][k] = res["tally"].get(k, 0) + 1
        res["nontrivial"].add(hash(("pair", key(r1), sock)))
        what = (f"{level} ({sock} connection): call 1 method={text(r1['method'])!r} target={'/' + text(r1['url'])!r} headers={_short(r1)['headers']} "
                f"raised={t['exc'] or None} wrote {text(t['wire'])!r}; call 2 GET /pub raised={t['exc2'] or None} wrote {text(t['wire2'])!r}")
        case = {"pair": True, "req": r1, "second": r2, "sock": sock, "origin": "emitted"}
        if cls != "MustRefuse":
            raise tlc.MachineryError(f"a pair was emitted for a request that need not be refused: {_short(r1)}")
        if hard != "ok":
            if len(res["bad"]) < 10:
                res["bad"].append((hard, f"{hard} in call 1: " + what, case))
            continue
        if hard2 != "ok":
            facts = {"level": level, "history": "refused-then-accepted-on-the-same-object", "call2_bytes": which2, "clause": "SecondCall:" + hard2}
            f = known.match(findings, facts)
            if f is not None:
                res["known"].append((f["id"], f["what"]))
            elif len(res["bad"]) < 10:
                res["bad"].append(("SecondCall:" + hard2, f"the call after a refused call breaks the per-call clause ({hard2}): " + what, case))
        elif which2 != "design" or t["wire2"] != ewire2:
            if len(res["drift"]) < 3:
                res["drift"].append("call 2 is one correct request but not the canonical bytes: " + what)
        if len(res["samples"]) < 1 and kept:
            res["samples"].append({"pair": what, "call2_clause": hard2, "call2_bytes": which2})
    return res


# ------------------------------------------------------------------------------ shards

_PR = '<<"PR", "'
_IN = '<<"IN", "'


def _unq(s):
    return s.replace('\\\\', '\x00').replace('\\"', '"').replace('\x00', '\\')


def _assess_chunk(items):
    return assess(items, "emitted")


def random_request(rng):
    level = rng.choice(["conn", "pool", "mgr", "conn", "pool", "mgr", "h2"])
    pool = ALPHABET + ["X", "-", "1", "CR", "LF", "SP"]

    def hostile(lo, hi):
        return [rng.choice(pool) for _ in range(rng.randint(lo, hi))]

    def plain(lo, hi):
        return [rng.choice(["a", "Z", "X", "-", "1"]) for _ in range(rng.randint(lo, hi))]

    if level == "h2":
        return {"level": "h2", "method": syms("GET"), "slash": True, "url": [], "body": {"kind": "none", "chunks": []}, "chunked": False,
                "hdrs": [{"n": hostile(0, 6) if rng.random() < .6 else plain(1, 4),
                          "v": hostile(0, 8) if rng.random() < .6 else plain(0, 5), "skip": False}]}
    which = rng.random()
    req = {"level": level,
           "method": hostile(0, 6) if which < .2 else rng.choice([syms("GET"), syms("POST"), syms("put"), plain(1, 4)]),
           "slash": True if level != "conn" else rng.random() < .8,
           "url": (hostile(0, 10) if .2 <= which < .5 or rng.random() < .2 else
                   [rng.choice([".", ".", "/", "/", "a", "?", "#", "%", "SP"]) for _ in range(rng.randint(0, 9))] if rng.random() < .25
                   else plain(0, 5)),
           "hdrs": [], "body": {"kind": "none", "chunks": []}, "chunked": False}
    seen = set()
    for _ in range(rng.randint(0, 3)):
        n = hostile(0, 6) if rng.random() < .4 else plain(1, 4)
        if text(n) in seen:
            continue
        seen.add(text(n))
        req["hdrs"].append({"n": n, "v": hostile(0, 10) if rng.random() < .6 else plain(0, 5), "skip": False})
    for disp in ("Host", "accept-encoding", "USER-AGENT"):
        x = rng.random()
        if x < .12:
            req["hdrs"].insert(rng.randint(0, len(req["hdrs"])), {"n": syms(disp), "v": plain(0, 3), "skip": x < .06})
    if rng.random() < .25:
        kind = rng.choice(["bytes", "str", "iter", "file", "widebuffer"])
        nch = rng.randint(0, 3) if kind == "iter" else 1
        bpool = [s for s in pool if s != "NA" or kind == "str"]
        req["body"] = {"kind": kind, "chunks": [[rng.choice(bpool) for _ in range(rng.randint(0, 9) if kind != "widebuffer" else 2 * rng.randint(0, 4))]
                                                for _ in range(nch)]}
    return req


def _random_shard(args):
    seed, n = args
    rng = random.Random(seed)
    h2 = h2_available()
    items = []
    while len(items) < n:
        r = random_request(rng)
        if r["level"] == "h2" and not h2:
            continue
        items.append((r, None, None))
    return assess(items, "random")


# ------------------------------------------------------------------------------ run / replay

def run(rep):
    quick = rep.tier == "quick"
    bounds = dict(m=2, u=3, n=2, v=3, pair=1, h2=2, d=3, pairlen=1) if quick else dict(m=4, u=4, n=3, v=4, pair=1, h2=3, d=5, pairlen=2)
    h2 = h2_available()
    sd = seeds()
    envdoc = env_doc(sd)
    envdoc["h2"] = h2
    rep.rule = ("every request of the TLC-enumerated hostile domain (all strings up to the bound over {CR,LF,NUL,DEL,SP,HTAB,':','%',"
                "'a','Z',non-ASCII,'#','?','/'} in method / URL material / header name / header value, pairs of fields, structured "
                "seeds: automatic-header combinations, body kinds, embedded complete requests) and seeded random requests beyond "
                "the bound are executed on the real code and judged by TLC; a case is non-trivial when a field contains a "
                "control/delimiter/non-ASCII symbol or is empty, or a body / SKIP_HEADER is involved")
    rep.assumptions = ["header names are distinct dict keys; no caller-supplied framing header (C11)",
                       "only valid body kinds; host part of the URL is benign (C14/C15)",
                       "HTTP/2: header validity at putheader only", "TLC 1.8, CPython http.client and vh/net.py are trusted"]
    invs = "\n".join("INVARIANT " + i for i in COMBINED)
    files = {"wire_env.json": json.dumps(envdoc)}
    # stage 1 + 2: one exhaustive run checks every invariant in every state and prints every explored request with the
    # spec's three-valued expectation (and, where it must be exactly this, the canonical bytes)
    J = max(1, int(os.environ.get("VERIF_JOBS") or 0) or os.cpu_count() or 4)
    items, pairs = [], []

    def on_line(ln):
        if ln.startswith(_PR):
            if not ln.endswith('">>'):
                raise tlc.MachineryError("wrapped emission line: " + ln[:200])
            d = json.loads(_unq(ln[len(_PR):-3]))
            pairs.append((d["req"], d["second"], d["kept"], d["wire2"]))
            return True
        if not ln.startswith(_IN):
            return False
        if not ln.endswith('">>'):
            raise tlc.MachineryError("wrapped emission line: " + ln[:200])
        d = json.loads(_unq(ln[len(_IN):-3]))
        items.append((d["req"], d["expect"], d["wire"]))
        return True

    r1 = tlc.run("MC_Wire", MC_CFG.format(k=1, s=0, emit="TRUE", invs=invs + "\nINVARIANT EmitInv\nINVARIANT EmitPairs", **bounds), workers=J, files=files,
                 heap="3g", env={"WIRE_ENV": "wire_env.json"}, timeout=7200, on_line=on_line)
    rep.add_tlc(f"MC_Wire {bounds} seeds={len(sd)} invariants={INVARIANTS} (the first six evaluated as InvAllOnRequest)", r1)
    if r1.violated:
        # name the clause: the same domain again with one INVARIANT line per clause
        r1b = tlc.run("MC_Wire", MC_CFG.format(k=1, s=0, emit="FALSE", invs="\n".join("INVARIANT " + i for i in INVARIANTS), **bounds),
                      workers=J, files=files, heap="3g", env={"WIRE_ENV": "wire_env.json"}, timeout=7200)
        rep.violation("SpecInvariant", f"TLC: {r1b.violated or r1.violated} violated in Wire.tla over the hostile domain\n{(r1b.out if r1b.violated else r1.out)[-1500:]}")
        return
    emitted = len(items)
    if emitted != r1.distinct or len({key(it[0]) for it in items}) + 0 > emitted:
        raise tlc.MachineryError(f"emission incomplete: {emitted} requests emitted, stage 1 explored {r1.distinct}")
    if not h2:
        items = [it for it in items if it[0]["level"] != "h2"]
    random.Random(rep.seed).shuffle(items)          # even out the cost of the batches
    per = min(30000, max(2000, (len(items) + J - 1) // J))     # requests per batch = per TLC trace-validation JVM
    with mp.Pool(J) as pool:
        # stage 3/4 on the emitted domain, and beyond the bound
        fut = pool.map_async(_assess_chunk, [items[i:i + per] for i in range(0, len(items), per)])
        # (refused call, accepted call) pairs on one client object, every socket state
        pitems = [(r1, r2, sock, kept, w2) for r1, r2, kept, w2 in pairs for sock in SOCKS[r1["level"]]]
        per_p = max(400, (len(pitems) + J - 1) // J)
        fut_p = pool.map_async(assess_pairs, [pitems[i:i + per_p] for i in range(0, len(pitems), per_p)])
        nrand, per_r = (1600, 400) if quick else (64000, 4000)
        outs_r = pool.map(_random_shard, [(rep.seed * 100003 + i, per_r) for i in range(nrand // per_r)])
        outs = fut.get()
        outs_p = fut_p.get()
    tally = {}
    if not pairs or sum(o["n"] for o in outs_p) != len(pitems):
        raise tlc.MachineryError(f"{len(pairs)} pairs emitted, {len(pitems)} planned, {sum(o['n'] for o in outs_p)} executed")
    rep.extra["two_call_histories"] = len(pitems)
    for o in outs + outs_r + outs_p:
        rep.evaluations += o["n"]
        rep.traces += o["n"]
        rep.nontrivial.update(o["nontrivial"])
        for k, v in o["tally"].items():
            tally[k] = tally.get(k, 0) + v
        for clause, what, case in o["bad"]:
            rep.violation(clause, what, case)
        rep.known.extend(o["known"])
        rep.drift.extend(o["drift"])
    for o in outs[:3] + outs_r[:1] + outs_p[:1]:
        for s in o["samples"][:2]:
            rep.sample(s, cap=8)
    executed = sum(o["n"] for o in outs)
    if h2 and executed != emitted:
        raise tlc.MachineryError(f"{emitted} emitted but {executed} executed")
    rep.extra["emitted_requests"] = emitted
    rep.extra["random_requests"] = sum(o["n"] for o in outs_r)
    rep.extra["tally_level_class_outcome"] = dict(sorted(tally.items()))
    rep.extra["http2_putheader_exercised"] = h2
    rep.extra["seeds"] = len(sd)
    # vacuity: every entry point must have seen every class with the outcome the class demands, and both
    # outcomes of the latitude class where the unchanged code can produce both.  (HTTP/2: putheader's only
    # refusals are exactly the spec's H2MustRefuse rules, so "h2/Either/refused" cannot occur and is not demanded.)
    if rep.violations:          # a violation is reported first; vacuity only matters for a green run
        return
    for level in ("conn", "pool", "mgr") + (("h2",) if h2 else ()):
        need = ["MustRefuse/refused", "MustBeExactlyThis/written", "Either/written"] + ([] if level == "h2" else ["Either/refused"])
        for nd in need:
            if not tally.get(f"{level}/{nd}"):
                raise tlc.MachineryError(f"vacuous coverage: no {level}/{nd} execution (tally {tally})")
    # every refusal rule of the spec must have been exercised at every entry point it applies to
    rules = {lv: ["BadMethod", "BadName", "BreaksLine", "BadSkip"] + (["BadTarget"] if lv == "conn" else [])
             for lv in ("conn", "pool", "mgr")}
    if h2:
        rules["h2"] = ["H2BadName", "H2BadValue"]
    for lv, rs in rules.items():
        for rname in rs:
            if not tally.get(f"rule:{lv}/{rname}"):
                raise tlc.MachineryError(f"vacuous coverage: refusal rule {rname} never exercised at level {lv} (tally {tally})")
    # two-call histories: every entry point x socket state with a head left pending by the refused call, and every
    # header-level refusal rule as call 1
    for lv in ("conn", "pool", "mgr"):
        for sock in SOCKS[lv]:
            if not any(k.startswith(f"pair:{lv}/{sock}/head-pending/") for k in tally):
                raise tlc.MachineryError(f"vacuous coverage: no refused-then-accepted history at {lv}/{sock} with a pending head (tally {tally})")
        for rname in ("BadName", "BreaksLine", "BadSkip", "BadMethod"):
            if not tally.get(f"pair-rule:{lv}/{rname}"):
                raise tlc.MachineryError(f"vacuous coverage: no two-call history whose first call is refused by {rname} at {lv} (tally {tally})")
    rep.exhaustive = True


def replay(rep, path):
    with open(path) as fh:
        doc = json.load(fh)
    case = doc["case"]
    req = case["req"]
    if case.get("pair"):
        tr = execute_pair(req, case["second"], case["sock"])      # (bytes of call 2 are compared with the design by TLC: Which2)
        res = assess_pairs([(req, case["second"], case["sock"], True, tr["wire2"])])
    else:
        res = assess([(req, None, None)], "replay")
    rep.traces += 1
    rep.evaluations += 1
    for clause, what, case in res["bad"]:
        rep.violation(clause, what, case)
    rep.known.extend(res["known"])
    rep.rule = "replay of one recorded case"
    rep.nontrivial.update({1, 2})
    rep.states = rep.states or 1
    rep.transitions = rep.transitions or 1
