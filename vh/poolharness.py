"""Harness for C01: drives the real HTTPConnectionPool along one scenario over the in-memory network
(vh/net.py) and records the event trace that spec/Pool_Trace.tla judges.

Seams (all public extension points, nothing in /repo is touched):
  * `urllib3.util.connection.create_connection`  -> PNet.create_connection (socketpair + inline peer)
  * `HTTPConnectionPool.QueueCls`                -> recording LifoQueue subclass (identical semantics)
  * `ProxyManager.pool_classes_by_scheme`        -> the same pool subclass, so the forwarding-proxy pool is
                                                    created exactly the way ProxyManager creates it

A scenario is  {"cfg": {n, block, retries, preload, release, route}, "steps": [...]}  where a step is
  {"op": "req",  "id": i, "atts": [outcome symbol per attempt]}
  {"op": "disp", "id": i, "how": read|read2rel|release|drain|close|stream}
  {"op": "cut",  "id": k}      the server cuts the k-th (1-based, queue order) idle pooled connection
Faults are injected adaptively: "attempt j of the scenario" starts whenever urlopen checks a connection
out of the queue, whatever the code did in between.

The recorded trace is a list of uniform event records (see EV); nothing in here decides the property.
"""
from __future__ import annotations

import errno
import gc
import queue
import socket
import ssl
import warnings
import weakref

from . import net as vnet

HEAD_OK = b"HTTP/1.1 200 OK\r\nContent-Length: 5\r\n\r\n"
HEAD_OK_CLOSE = b"HTTP/1.1 200 OK\r\nConnection: close\r\nContent-Length: 5\r\n\r\n"
RESP = {
    # symbol: (head, body, peer closes after reply)
    "ok_ka": (HEAD_OK, b"hello", False),
    "ok_close": (HEAD_OK_CLOSE, b"hello", True),
    "ok_10": (b"HTTP/1.0 200 OK\r\n\r\n", b"hello", True),                       # close-delimited body
    "s204_ka": (b"HTTP/1.1 204 No Content\r\n\r\n", b"", False),
    # will-close variants of the mid-body faults
    "short_close": (b"HTTP/1.1 200 OK\r\nConnection: close\r\nContent-Length: 50\r\n\r\n", b"hel", True),
    "bc_boom": (HEAD_OK_CLOSE, b"hello", True),
    "bc_reset": (HEAD_OK_CLOSE, b"hello", True),
    "bc_timeout": (HEAD_OK_CLOSE, b"", False),
    "ok_chunked": (b"HTTP/1.1 200 OK\r\nTransfer-Encoding: chunked\r\n\r\n", b"5\r\nhello\r\n0\r\n\r\n", False),
    # retried status whose back-off fails: unparseable Retry-After / interrupt while sleeping the valid one
    "s503_ra_bad": (b"HTTP/1.1 503 Unavailable\r\nRetry-After: soon\r\nContent-Length: 3\r\n\r\n", b"bad", False),
    "s503_ra_boom": (b"HTTP/1.1 503 Unavailable\r\nRetry-After: 1\r\nContent-Length: 3\r\n\r\n", b"bad", False),
    "s503_ka": (b"HTTP/1.1 503 Unavailable\r\nContent-Length: 3\r\n\r\n", b"bad", False),
    "s503_close": (b"HTTP/1.1 503 Unavailable\r\nConnection: close\r\nContent-Length: 3\r\n\r\n", b"bad", True),
    "r302_ka": (b"HTTP/1.1 302 Found\r\nLocation: %LOC%\r\nContent-Length: 0\r\n\r\n", b"", False),
    "r302_close": (b"HTTP/1.1 302 Found\r\nLocation: %LOC%\r\nConnection: close\r\nContent-Length: 0\r\n\r\n", b"", True),
    "short": (b"HTTP/1.1 200 OK\r\nContent-Length: 50\r\n\r\n", b"hel", True),
    "chunk_trunc": (b"HTTP/1.1 200 OK\r\nTransfer-Encoding: chunked\r\n\r\n", b"5\r\nhel", True),
    # body-stage faults: the head arrives, the fault hits the first receive of the body
    "b_boom": (HEAD_OK, b"hello", False),
    "b_reset": (HEAD_OK, b"hello", False),
    "b_timeout": (HEAD_OK, b"", False),
    # send-stage errors that urllib3 swallows: a complete reply is already readable
    "s_epipe": (HEAD_OK, b"hello", False),
    "s_reset": (HEAD_OK, b"hello", False),
}
NEW_FAULTS = ("n_invalid", "n_boom")                  # raised by the ConnectionCls constructor, after the checkout
CONNECT_FAULTS = ("c_refused", "c_timeout", "c_boom")
SEND_FAULTS = ("s_epipe", "s_reset", "s_oserr", "s_boom")
RECV_FAULTS = ("r_reset", "r_ssl", "r_boom")          # raised by the socket at the first receive
BODY_FAULTS = ("b_boom", "b_reset", "bc_boom", "bc_reset")                   # raised by the socket at the first body receive
SLEEP_FAULTS = ("s503_ra_boom",)                      # raised by time.sleep as seen by urllib3.util.retry
INTERRUPTS = ("n_boom", "c_boom", "s_boom", "r_boom", "b_boom", "bc_boom", "s503_ra_boom")
ALL_SYMBOLS = sorted(set(RESP) | set(NEW_FAULTS) | set(CONNECT_FAULTS) | set(SEND_FAULTS) | set(RECV_FAULTS)
                     | {"r_timeout", "r_eof", "r_garbage", "x_stale"})
DISPOSALS = ("read", "read2rel", "release", "drain", "close", "stream", "read1all", "read1n", "read1cl")


class Interrupt(KeyboardInterrupt):
    """The injected interrupt (a real KeyboardInterrupt subclass; identity is what is checked)."""


def make_fault(sym):
    import http.client
    return {
        "n_invalid": lambda: http.client.InvalidURL("URL can't contain control characters. 'exam ple.invalid' (found at least ' ')"),
        "n_boom": lambda: Interrupt("new connection"),
        "c_refused": lambda: ConnectionRefusedError(errno.ECONNREFUSED, "Connection refused"),
        "c_timeout": lambda: socket.timeout("timed out"),
        "c_boom": lambda: Interrupt("connect"),
        "s_epipe": lambda: BrokenPipeError(errno.EPIPE, "Broken pipe"),
        "s_reset": lambda: ConnectionResetError(errno.ECONNRESET, "Connection reset by peer"),
        "s_oserr": lambda: OSError(errno.EHOSTUNREACH, "No route to host"),
        "s_boom": lambda: Interrupt("send"),
        "r_reset": lambda: ConnectionResetError(errno.ECONNRESET, "Connection reset by peer"),
        "r_ssl": lambda: ssl.SSLError("[SSL: DECRYPTION_FAILED_OR_BAD_RECORD_MAC] bad record mac"),
        "r_boom": lambda: Interrupt("recv"),
        "b_boom": lambda: Interrupt("body"),
        "b_reset": lambda: ConnectionResetError(errno.ECONNRESET, "Connection reset by peer"),
        "s503_ra_boom": lambda: Interrupt("sleep"),
        "bc_boom": lambda: Interrupt("body"),
        "bc_reset": lambda: ConnectionResetError(errno.ECONNRESET, "Connection reset by peer"),
    }[sym]()


_made = []   # injected exception objects of the scenario in progress (their tracebacks are cut at the end)


class Plan:
    """Outcome the environment has chosen for one attempt."""

    def __init__(self, sym, ordinal):
        self.sym, self.ordinal = sym, ordinal
        self.exc = make_fault(sym) if sym in (NEW_FAULTS + CONNECT_FAULTS + SEND_FAULTS + RECV_FAULTS + BODY_FAULTS
                                              + SLEEP_FAULTS) else None
        self.used_send = False
        self.slept = False
        if self.exc is not None:
            _made.append(self.exc)


class PSocket(vnet.VSocket):
    """VSocket whose faults come from the attempt plan current at the time of the send."""

    def sendall(self, data, *flags):
        net = self._net
        p = net.cur
        self._peer.silent = False      # a reply withheld for the previous request does not mute the server
        if p is not None and not p.used_send:
            p.used_send = True
            if p.sym in SEND_FAULTS:
                if p.sym in ("s_epipe", "s_reset"):
                    # the request never leaves; the server's (unsolicited) reply is already there
                    head, body, _ = RESP[p.sym]
                    self.recv_limit = len(head)
                    self._peer.outbuf += head + body
                    self._peer._flush()
                self._nsend += 1
                net.log.append(("FAULT", self._cid, "send", self._nsend, type(p.exc).__name__))
                net.inject(p.exc)
                raise p.exc
            if p.sym in RECV_FAULTS:
                self._script.setdefault("recv", {})[self._nrecv + 1] = p.exc
            elif p.sym in BODY_FAULTS and not net.head_request:
                self._script.setdefault("recv", {})[self._nrecv + 2] = p.exc
        return super().sendall(data, *flags)

    def _fault(self, kind, k):
        f = self._script.get(kind, {}).get(k)
        if f is not None:
            self._net.inject(f)
        return super()._fault(kind, k)

    def recv_into(self, buffer, nbytes=0, *flags):
        try:
            return super().recv_into(buffer, nbytes, *flags)
        except vnet.HarnessStall:
            # the client reads although the scripted server owes it nothing (only a tree that reuses a connection it
            # should have closed gets here): with the pool's finite read timeout that is a read timeout, not a hang
            if self._timeout_v is None:
                raise
            self._net.log.append(("STALL", self._cid))
            self._net.stalls += 1
            self._net.clock_advance(self._timeout_v)
            raise socket.timeout("timed out") from None


class _RetryTime:
    """Stand-in for the `time` module inside urllib3.util.retry: only sleep() differs."""

    def __init__(self, pnet):
        self._pnet = pnet

    def sleep(self, dt):
        self._pnet.sleep(dt)

    def __getattr__(self, name):
        import time
        return getattr(time, name)


class PNet(vnet.Net):
    """Net with PSocket clients, per-attempt plans and a single ordered log shared with the recorder."""

    def __init__(self, loc):
        super().__init__(self._respond)
        self.cur = None            # Plan of the attempt in progress
        self.loc = loc             # Location value for 302 replies
        self.injected = []         # BaseException objects raised into urllib3 since the last mark
        self.explicit_closed = set()
        self.stalls = 0
        self.head_request = False

    def __enter__(self):
        super().__enter__()
        import urllib3.util.retry as ur
        self._ur, self._ur_time = ur, ur.time
        ur.time = _RetryTime(self)       # time.sleep as seen by urllib3.util.retry is virtual (and scriptable)
        return self

    def __exit__(self, *a):
        self._ur.time = self._ur_time
        return super().__exit__(*a)

    def sleep(self, dt):
        p = self.cur
        self.log.append(("SLEEP", dt))
        if p is not None and p.sym in SLEEP_FAULTS and not p.slept:
            p.slept = True
            self.inject(p.exc)
            raise p.exc
        self.clock_advance(dt)

    def inject(self, exc):
        if not isinstance(exc, Exception):
            self.injected.append(exc)
            self.log.append(("INTERRUPT",))

    def _respond(self, peer, req):
        p = self.cur
        sym = p.sym if p is not None else "ok_ka"
        vs = self.socks[peer.cid]()
        if sym in ("r_timeout",) + RECV_FAULTS:
            return vnet.Reply(silent=True)
        if sym == "r_eof":
            return vnet.Reply(b"", close=True)
        if sym == "r_garbage":
            return vnet.Reply(b"\x00\x01garbage\r\n\r\n")
        if sym not in RESP:
            sym = "ok_ka"
        head, body, close = RESP[sym]
        head = head.replace(b"%LOC%", self.loc)
        if vs is not None:
            vs.recv_limit = len(head)      # the head is exactly one receive, the body the next one
        if req.method == "HEAD":          # the headers of the chosen reply, no body
            return vnet.Reply(head, close=close)
        if sym in ("b_timeout", "bc_timeout"):
            return vnet.Reply(head, silent=True)
        return vnet.Reply(head + body, close=close)

    def create_connection(self, address, timeout=None, source_address=None, socket_options=None):
        with self._lock:
            cid = len(self.dials) + 1
            self.dials.append((cid, address, timeout, source_address, socket_options))
        p = self.cur
        if p is not None and p.sym in CONNECT_FAULTS and not p.used_send:
            p.used_send = True
            self.log.append(("DIAL", cid, "fault"))
            self.inject(p.exc)
            raise p.exc
        a, b = socket.socketpair()
        peer = vnet.Peer(self, cid, b, self.responder)
        self.peers[cid] = peer
        vs = PSocket(a.detach(), self, cid, peer, {})
        self.socks[cid] = weakref.ref(vs)
        self.log.append(("DIAL", cid, "ok"))
        vs.settimeout(timeout if isinstance(timeout, (int, float)) else None)
        for opt in socket_options or ():
            vs.setsockopt(*opt)
        return vs


class Recorder:
    """Identity of queue items without keeping them alive, and the attempt counter."""

    def __init__(self, pnet):
        self.net = pnet
        self._ids = {}
        self._n = 0
        self.atts = None        # iterator state of the request in progress: list of symbols
        self.att_pos = 0
        self.att_total = 0
        self.extra_attempts = 0
        self.block = False

    def ident(self, obj):
        if obj is None:
            return 0
        k = id(obj)
        if k not in self._ids:
            self._n += 1
            self._ids[k] = self._n
            weakref.finalize(obj, self._ids.pop, k, None)
        return self._ids[k]

    @staticmethod
    def sock_of(obj):
        s = getattr(obj, "sock", None)
        return getattr(s, "_cid", 0) if s is not None else 0

    def begin_attempt(self):
        self.att_total += 1
        if self.atts is None:
            self.net.cur = None
            return
        if self.att_pos < len(self.atts):
            sym = self.atts[self.att_pos]
        else:
            sym = "ok_ka"
            self.extra_attempts += 1
        self.att_pos += 1
        self.net.cur = Plan(sym, self.att_total)
        self.net.log.append(("ATTEMPT", sym))

    def on_get(self, item, empty=False):
        if empty:
            self.net.log.append(("QGET", -1, 0, "empty"))
            if not self.block:
                self.begin_attempt()
            return
        self.net.log.append(("QGET", self.ident(item), self.sock_of(item), "ok"))
        self.begin_attempt()

    def on_put(self, item, full=False):
        self.net.log.append(("QPUT", self.ident(item), self.sock_of(item), "full" if full else "ok"))


class RecQueue(queue.LifoQueue):
    rec = None

    def get(self, block=True, timeout=None):
        try:
            item = super().get(block, timeout)
        except queue.Empty:
            self.rec.on_get(None, empty=True)
            raise
        self.rec.on_get(item)
        return item

    def put(self, item, block=True, timeout=None):
        try:
            super().put(item, block, timeout)
        except queue.Full:
            self.rec.on_put(item, full=True)
            raise
        self.rec.on_put(item)


def _retries(sym):
    from urllib3.util.retry import Retry
    return {"F": False, "0": 0, "1": 1}.get(sym, None) if sym != "R2" else Retry(2, status_forcelist=[503], redirect=1)


def _conn_init(self, *a, **kw):
    """ConnectionCls extension point: the constructor consults the attempt plan (outcome class 'the connection
    object cannot be built after the slot was checked out', e.g. http.client.InvalidURL for a host with a blank)."""
    pnet = type(self).pnet
    p = pnet.cur
    if p is not None and p.sym in NEW_FAULTS and not p.used_send:
        p.used_send = True
        pnet.log.append(("NEWFAULT", type(p.exc).__name__))
        pnet.inject(p.exc)
        raise p.exc
    super(type(self), self).__init__(*a, **kw)


def make_pool(cfg, rec):
    """The pool under test, built through the public constructors (direct) or by ProxyManager (fwd)."""
    import urllib3
    from urllib3.connection import HTTPConnection
    from urllib3.util.timeout import Timeout
    q = type("RecQ", (RecQueue,), {"rec": rec})
    ccls = type("ScriptedConn", (HTTPConnection,), {"pnet": rec.net, "__init__": _conn_init})
    pcls = type("RecPool", (urllib3.HTTPConnectionPool,), {"QueueCls": q, "ConnectionCls": ccls})
    to = Timeout(connect=0.05, read=0.03)
    if cfg["route"] == "direct":
        return None, pcls("h.test", 80, maxsize=cfg["n"], block=cfg["block"], timeout=to)
    pm = urllib3.ProxyManager("http://proxy.test:3128", maxsize=cfg["n"], block=cfg["block"], timeout=to)
    pm.pool_classes_by_scheme = {"http": pcls, "https": pm.pool_classes_by_scheme["https"]}
    return pm, pm.connection_from_url("http://h.test/")


def _cut():
    """Injected exception objects are kept for identity checks only: drop their tracebacks (the frames in them
    would keep responses and the pool alive behind the caller's back)."""
    for x in _made:
        x.__traceback__ = None
        x.__context__ = None
    del _made[:]


def _classify(exc, injected, badarg=False):
    from urllib3.exceptions import HTTPError
    if any(exc is x for x in injected):
        return "interrupt"
    if isinstance(exc, HTTPError):
        return "urllib3"
    if badarg and isinstance(exc, (ValueError, TypeError)):
        return "caller"      # the harness itself passed an invalid argument: the caller's own error
    return "raw"


def _dispose(r, how):
    if how == "read":
        r.read()
    elif how == "read2rel":
        r.read(2)
        r.release_conn()
    elif how == "release":
        r.release_conn()
    elif how == "drain":
        r.drain_conn()
    elif how == "close":
        r.close()
    elif how == "stream":
        for _ in r.stream(2, decode_content=True):
            pass
    elif how == "read1all":
        while r.read1():
            pass
    elif how == "read1n":
        while r.read1(2):
            pass
    elif how == "read1cl":
        # stop as soon as the announced Content-Length has been received (no final empty read); without one
        # (chunked) the caller can only go on until b""
        cl = r.headers.get("Content-Length")
        want, got = (int(cl) if cl is not None else None), 0
        while True:
            d = r.read1(2)
            got += len(d)
            if not d or (want is not None and got >= want):
                break
    else:
        raise ValueError(how)


def _idle(pool, rec, log, resps, will):
    """No response that the caller is still going to dispose of is outstanding: snapshot the queue.  Taken while the
    caller still holds whatever the last step gave it (an exception with its traceback, disposed responses)."""
    if any(i in will for i in resps):
        return
    items = list(pool.pool.queue)
    log.append(("IDLE", [rec.ident(c) for c in items], [rec.sock_of(c) for c in items]))


def run_scenario(sc):
    """Execute one scenario on the real code.  Returns {"events": [...], "obs": {...}}."""
    warnings.simplefilter("ignore")
    cfg = sc["cfg"]
    url = "/" if cfg["route"] == "direct" else "http://h.test/"
    loc = b"/next" if cfg["route"] == "direct" else b"http://h.test/next"
    pnet = PNet(loc)
    rec = Recorder(pnet)
    rec.block = cfg["block"]
    log = pnet.log
    obs = {"reqs": [], "disps": []}
    with pnet:
        pm, pool = make_pool(cfg, rec)
        log.append(("CREATED",))
        resps = {}
        done = []      # disposed responses stay referenced by the caller until quiescence
        will = {st["id"] for st in sc["steps"] if st["op"] == "disp"}
        for st in sc["steps"]:
            op = st["op"]
            if op == "req":
                rec.atts, rec.att_pos = list(st["atts"]), 0
                d0 = len(pnet.dials)
                del pnet.injected[:]
                log.append(("REQSTART", st["id"]))
                kw = dict(retries=_retries(cfg["retries"]), preload_content=cfg["preload"],
                          release_conn=cfg["release"], pool_timeout=0)
                if cfg["route"] != "direct":
                    kw["assert_same_host"] = False
                badarg = st.get("how") == "badarg"
                pnet.head_request = st.get("how") == "head"
                if badarg:
                    kw["timeout"] = "bad"      # not a number: fails in _get_timeout, before any checkout
                try:
                    r = pool.urlopen("HEAD" if pnet.head_request else "GET", url, **kw)
                except BaseException as ex:  # noqa: B036 - the harness records whatever comes out
                    if isinstance(ex, vnet.HarnessStall):
                        raise
                    cls = _classify(ex, pnet.injected, badarg)
                    log.append(("REQEND", st["id"], "raised", cls, type(ex).__name__))
                    obs["reqs"].append({"id": st["id"], "out": type(ex).__name__ if cls != "interrupt" else "Interrupt",
                                        "atts": rec.att_pos, "dials": len(pnet.dials) - d0})
                    _idle(pool, rec, log, resps, will)       # judged while the exception is still held
                    ex = None
                else:
                    resps[st["id"]] = r
                    log.append(("REQEND", st["id"], "response", "none", str(r.status)))
                    obs["reqs"].append({"id": st["id"], "out": str(r.status), "atts": rec.att_pos,
                                        "dials": len(pnet.dials) - d0})
                    r = None
                    _idle(pool, rec, log, resps, will)
                rec.atts = None
                pnet.cur = None
                pnet.head_request = False
                _cut()
            elif op == "disp":
                r = resps.pop(st["id"], None)
                if r is None:
                    obs["disps"].append({"id": st["id"], "how": st["how"], "out": "absent"})
                    continue
                del pnet.injected[:]
                log.append(("DISPSTART", st["id"], st["how"]))
                try:
                    _dispose(r, st["how"])
                except BaseException as ex:  # noqa: B036
                    if isinstance(ex, vnet.HarnessStall):
                        raise
                    cls = _classify(ex, pnet.injected)
                    log.append(("DISPEND", st["id"], "raised", cls, type(ex).__name__))
                    obs["disps"].append({"id": st["id"], "how": st["how"],
                                         "out": type(ex).__name__ if cls != "interrupt" else "Interrupt"})
                    _idle(pool, rec, log, resps, will)
                    ex = None
                else:
                    log.append(("DISPEND", st["id"], "response", "none", "ok"))
                    obs["disps"].append({"id": st["id"], "how": st["how"], "out": "ok"})
                    _idle(pool, rec, log, resps, will)
                done.append(r)
                r = None
                _cut()
            elif op == "cut":
                items = [c for c in list(pool.pool.queue) if c is not None and rec.sock_of(c)]
                k = st["id"]
                if 1 <= k <= len(items):
                    cid = rec.sock_of(items[k - 1])
                    pnet.peers[cid].close()
                    log.append(("CUT", cid))
                items = None
            else:
                raise ValueError(op)
        # ---- quiescence: the caller is done with every response: drop them, collect, then look
        undisposed = sorted(resps)
        before = sorted(pnet.open_conns())
        resps.clear()
        del done[:]
        gc.collect()
        items = list(pool.pool.queue)
        qi = [rec.ident(c) for c in items]
        qs = [rec.sock_of(c) for c in items]
        items = None
        log.append(("QUIESCE", qi, qs, sorted(pnet.open_conns())))
        obs["undisposed"] = undisposed
        obs["open_before_drop"] = before
        obs["fin"] = {"qlen": len(qi), "pooled": sum(1 for x in qi if x), "pooled_open": sum(1 for x in qs if x),
                      "dials": len(pnet.peers)}
        obs["extra_attempts"] = rec.extra_attempts
        obs["stalls"] = pnet.stalls
        # ---- probe: the public behaviour named in the property's anchor
        from urllib3.exceptions import EmptyPoolError
        rec.atts = None
        leases, extra = [], "none"
        log.append(("PROBESTART",))
        if cfg["block"]:
            kw = dict(retries=False, preload_content=False, release_conn=False, pool_timeout=0)
            if cfg["route"] != "direct":
                kw["assert_same_host"] = False
            for _ in range(cfg["n"] + 1):
                try:
                    leases.append(pool.urlopen("GET", url, **kw))
                except EmptyPoolError:
                    extra = "EmptyPoolError"
                    break
                except Exception as ex:
                    extra = type(ex).__name__
                    break
            else:
                extra = "response"
            nle = len(leases) - (1 if extra == "response" else 0)
            for r in leases:
                try:
                    r.read()
                    r.release_conn()
                except Exception as ex:      # giving a probe lease back must not fail either
                    extra = "giveback-" + type(ex).__name__
        else:
            nle = pool.pool.qsize()
        leases = None
        log.append(("PROBE", nle, extra))
        obs["probe"] = [nle, extra]
        pool.close()
        pool = pm = None
    # the injected exceptions carry tracebacks whose frames reference the pool: cut them, or the pool (kept
    # reachable by its own weakref.finalize entry through queue -> recorder -> plan -> exception) never dies
    _cut()
    pnet.cur = None
    del pnet.injected[:]
    del pnet.faults[:]
    events = encode(log)
    del log[:]
    return {"events": events, "obs": obs}


# ------------------------------------------------------------------------------------------------
# Uniform event records for TLC (every record has every field).

def EV(ev, req=0, item=0, sock=0, res="", cls="", how="", q=(), qs=(), open_=(), n=0):
    return {"ev": ev, "req": req, "item": item, "sock": sock, "res": res, "cls": cls, "how": how,
            "q": list(q), "qs": list(qs), "open": list(open_), "n": n}


def encode(log):
    out = []
    for e in log:
        k = e[0]
        if k == "QGET":
            out.append(EV("QGet", item=e[1], sock=e[2], res=e[3]))
        elif k == "QPUT":
            out.append(EV("QPut", item=e[1], sock=e[2], res=e[3]))
        elif k == "DIAL":
            out.append(EV("Dial", sock=e[1], res=e[2]))
        elif k == "CREATED":
            out.append(EV("Created"))
        elif k == "CLOSE":
            out.append(EV("SockClose", sock=e[1]))
        elif k == "INTERRUPT":
            out.append(EV("Interrupt"))
        elif k == "REQSTART":
            out.append(EV("ReqStart", req=e[1]))
        elif k == "REQEND":
            out.append(EV("ReqEnd", req=e[1], res=e[2], cls=e[3], how=e[4]))
        elif k == "DISPSTART":
            out.append(EV("DispStart", req=e[1], how=e[2]))
        elif k == "DISPEND":
            out.append(EV("DispEnd", req=e[1], res=e[2], cls=e[3], how=e[4]))
        elif k == "CUT":
            out.append(EV("Cut", sock=e[1]))
        elif k == "IDLE":
            out.append(EV("Idle", q=e[1], qs=e[2]))
        elif k == "QUIESCE":
            out.append(EV("Quiesce", q=e[1], qs=e[2], open_=e[3]))
        elif k == "PROBESTART":
            out.append(EV("ProbeStart"))
        elif k == "PROBE":
            out.append(EV("Probe", n=e[1], res=e[2]))
    return out


def compare(sc, obs):
    """Model's expected observations (emitted by TLC with the scenario) against the real run."""
    diffs = []
    ereq = [st for st in sc["steps"] if st["op"] == "req"]
    edis = [st for st in sc["steps"] if st["op"] == "disp"]
    for e, o in zip(ereq, obs["reqs"]):
        if (e["out"], len(e["atts"]), e["dials"]) != (o["out"], o["atts"], o["dials"]):
            diffs.append(f"req {e['id']}: model out={e['out']} attempts={len(e['atts'])} dials={e['dials']}; "
                         f"code out={o['out']} attempts={o['atts']} dials={o['dials']}")
    for e, o in zip(edis, obs["disps"]):
        if e["out"] != o["out"]:
            diffs.append(f"disposal {e['how']} of {e['id']}: model {e['out']}; code {o['out']}")
    if "fin" in sc and sc["fin"] != obs["fin"]:
        diffs.append(f"final state: model {sc['fin']}; code {obs['fin']}")
    if obs.get("stalls"):
        diffs.append(f"{obs['stalls']} reads the scripted server did not owe (timed out)")
    if obs.get("extra_attempts"):
        diffs.append(f"{obs['extra_attempts']} attempts beyond the model's")
    return diffs
