"""C16 — HTTPHeaderDict behaves as a case-insensitive, order-preserving multimap.

stage 1  TLC checks the reference model (spec/HeaderDict.tla) for internal consistency
stage 2  TLC emits every transition (from, op, to, result) of the reachable graph (sharded)
stage 3  each transition is replayed on real HTTPHeaderDict objects (built through the public API)
         and the projected state / return value compared with the model's
stage 4  random walks (<= 30 ops, copies mutated afterwards) on real objects are recorded with
         everything the caller can observe and validated by TLC (spec/HeaderDict_Trace.tla)
"""
from __future__ import annotations

import json
import multiprocessing as mp
import random
import re

from . import tlc

NAMES = ["A", "a", "B", "b", "Set-Cookie", "set-cookie"]
VALUES = ["1", "2", "x, y", ""]
QUERY = NAMES + ["SET-COOKIE", "C"]
SOURCES = [None,
           ("dict", [("A", "1"), ("b", "2")]),
           ("list", [("a", "1"), ("A", "2"), ("Set-Cookie", "x, y")]),
           ("kw", [("b", "")]),
           ("list", [])]
NONE, KEYERROR = "<none>", "<KeyError>"

MC_CFG = """SPECIFICATION Spec
CONSTANTS NObj = {nobj}
  Names <- {names}
  Values <- {values}
  MaxDepth = {depth}
  Sources <- MCSources
  ShardK = {k}
  ShardS = {s}
VIEW View
INVARIANT TypeOK
INVARIANT CaseInsensitive
INVARIANT MergedIsJoinOfLines
PROPERTY Independent
PROPERTY OthersPreserved
CHECK_DEADLOCK FALSE
{emit}
"""
TRACE_CFG = """SPECIFICATION TSpec
CONSTANTS NObj = 3
  Names <- TrNames
  Values <- TrValues
  MaxDepth = 1000000
  Sources <- TrSources
CHECK_DEADLOCK FALSE
"""


def _hd():
    from urllib3._collections import HTTPHeaderDict
    return HTTPHeaderDict


def build(entries):
    """Real object in the model state `entries`, through the public API only."""
    d = _hd()()
    for e in entries:
        for v in e["vs"]:
            d.add(e["d"], v)
    return d


def project(d):
    """Projected abstract state of a real object, from its public per-line iteration."""
    out = []
    for k, v in d.iteritems():
        if out and out[-1]["d"] == k:
            out[-1]["vs"].append(v)
        else:
            out.append({"k": k.lower(), "d": k, "vs": [v]})
    return out


def src_obj(s):
    kind, pairs = SOURCES[s]
    if kind == "dict":
        return dict(pairs)
    if kind == "list":
        return list(pairs)
    return dict(pairs)  # kw: passed as **kwargs


def apply_real(objs, op):
    """Apply model operation record `op` to the list of real objects (index 1..); return result."""
    o, i, n, v, j, s = op["op"], op["i"], op["n"], op["v"], op["j"], op["src"]
    d = objs[i]
    try:
        if o == "setitem":
            d[n] = v
        elif o == "delitem":
            del d[n]
        elif o == "discard":
            d.discard(n)
        elif o == "add":
            d.add(n, v)
        elif o == "addc":
            d.add(n, v, combine=True)
        elif o == "setdefault":
            return d.setdefault(n, v)
        elif o == "pop":
            return d.pop(n)
        elif o == "popd":
            return d.pop(n, v)
        elif o == "extend_obj":
            d.extend(objs[j])
        elif o == "ior_obj":
            d |= objs[j]
            objs[i] = d
        elif o == "update_obj":
            d.update(objs[j])
        elif o == "extend_src":
            if SOURCES[s][0] == "kw":
                d.extend(**src_obj(s))
            else:
                d.extend(src_obj(s))
        elif o == "ior_src":
            d |= src_obj(s)
            objs[i] = d
        elif o == "update_src":
            if SOURCES[s][0] == "kw":
                d.update(**src_obj(s))
            else:
                d.update(src_obj(s))
        elif o == "copy":
            objs[j] = d.copy()
        elif o == "or_obj":
            objs[s] = d | objs[j]
        elif o == "or_src":
            objs[j] = d | src_obj(s)
        elif o == "ror_src":
            objs[j] = src_obj(s) | d
        elif o == "drop":
            objs[i] = None
        else:
            raise tlc.MachineryError("unknown op " + o)
    except KeyError:
        return KEYERROR
    return NONE


def check_transition(t):
    """Replay one model transition on real objects.  Returns None or (clause, detail)."""
    nobj = len(t["from"])
    live = set(t["live"])
    objs = [None] + [build(t["from"][x]) if (x + 1) in live else None for x in range(nobj)]
    try:
        res = apply_real(objs, t["op"])
    except Exception as ex:  # any exception other than KeyError is outside the reference
        return ("RaisesUnexpected", repr(ex))
    if res != t["op"]["res"]:
        return ("ReturnValue", f"got {res!r} want {t['op']['res']!r}")
    for x in t["live2"]:
        got = project(objs[x])
        if got != [{"k": e["k"], "d": e["d"], "vs": list(e["vs"])} for e in t["to"][x - 1]]:
            return ("StateAfterOp", f"object {x}: got {got} want {t['to'][x - 1]}")
    return None


_TR = re.compile(r'<<"TR", "((?:[^"\\]|\\.)*)">>')


def _unq(s):
    return s.replace('\\\\', '\x00').replace('\\"', '"').replace('\x00', '\\')


def _shard(args):
    """One emission shard: run TLC (1 worker), replay each printed transition at once."""
    cfg, sidx = args
    n = 0
    bad = []
    nontriv = 0
    samples = []

    def on_line(ln):
        nonlocal n, nontriv
        if not ln.startswith('<<"TR"'):
            return False
        for m in _TR.finditer(ln):
            t = json.loads(_unq(m.group(1)))
            n += 1
            if t["from"] != t["to"]:
                nontriv += 1
            if len(samples) < 2 and t["from"][0]:
                samples.append({"from": t["from"], "op": t["op"], "to": t["to"]})
            v = check_transition(t)
            if v and len(bad) < 20:
                bad.append((v[0], v[1], t))
        return True

    r = tlc.run("MC_HeaderDict", cfg, workers=1, on_line=on_line, timeout=7200)
    return {"n": n, "bad": bad, "nontriv": nontriv, "generated": r.generated, "distinct": r.distinct,
            "violated": r.violated, "wall": r.wall, "samples": samples, "depth": r.depth}


# ------------------------------------------------------------------------------ stage 4

def observe(d):
    look, lists, has = {}, {}, {}
    for n in QUERY:
        try:
            look[n] = d[n]
        except KeyError:
            look[n] = NONE
        lists[n] = list(d.getlist(n))
        has[n] = n in d
    lines = list(d.iteritems())
    # equality with accepted source types built from the object's own content (the statement lists equality among the
    # observations): per-line pairs, the merged view as a dict, the pairs with every name's casing flipped -> equal;
    # the pairs plus one extra line -> not equal
    eqsrc = {"lines": bool(d == lines) and not bool(d != lines),
             "merged": bool(d == dict(d.itermerged())),
             "caseflip": bool(d == [(k.swapcase(), v) for k, v in lines]),
             "extra": bool(d == lines + [("zz-extra", "1")])}
    return {"eqsrc": eqsrc, "lines": [[k, v] for k, v in d.iteritems()], "merged": [[k, v] for k, v in d.itermerged()],
            "keys": list(d.keys()) if True else [], "len": len(d), "look": look, "lists": lists, "has": has}


DEAD = {"lines": [], "merged": [], "keys": [], "len": 0, "look": {}, "lists": {}, "has": {}}


def random_trace(rng, length, nobj=3):
    objs = [None, _hd()()] + [None] * (nobj - 1)
    live = {1}
    tr = []
    for _ in range(length):
        i = rng.choice(sorted(live))
        free = [x for x in range(1, nobj + 1) if x not in live]
        kinds = ["setitem", "add", "addc", "setdefault", "popd", "delitem", "discard", "pop", "extend_src",
                 "update_src", "ior_src"]
        if len(live) > 1:
            kinds += ["extend_obj", "ior_obj", "update_obj"]
        if free:
            kinds += ["copy", "or_obj", "or_src", "ror_src"]
        if i != 1:
            kinds += ["drop"]
        o = rng.choice(kinds)
        op = {"op": o, "i": i, "n": NONE, "v": NONE, "j": 0, "src": 0}
        if o in ("setitem", "add", "addc", "setdefault", "popd"):
            op["n"], op["v"] = rng.choice(NAMES), rng.choice(VALUES)
        elif o in ("delitem", "discard", "pop"):
            op["n"] = rng.choice(NAMES)
        elif o in ("extend_obj", "ior_obj", "update_obj"):
            op["j"] = rng.choice(sorted(live - {i}))
        elif o in ("extend_src", "update_src"):
            op["src"] = rng.randint(1, 4)
        elif o == "ior_src":
            op["src"] = rng.choice([1, 2, 4])
        elif o == "copy":
            op["j"] = rng.choice(free)
        elif o == "or_obj":
            op["j"], op["src"] = rng.choice(sorted(live)), rng.choice(free)
        elif o in ("or_src", "ror_src"):
            op["j"], op["src"] = rng.choice(free), rng.choice([1, 2, 4])
        try:
            res = apply_real(objs, op)
        except Exception as ex:
            res = "<raised " + type(ex).__name__ + ">"
        if o == "copy" or o in ("or_src", "ror_src"):
            live.add(op["j"])
        elif o == "or_obj":
            live.add(op["src"])
        elif o == "drop":
            live.discard(i)
        ev = dict(op)
        ev["res"] = res
        ev["live"] = [x in live for x in range(1, nobj + 1)]
        ev["obs"] = [observe(objs[x]) if x in live else DEAD for x in range(1, nobj + 1)]
        ev["eq"] = [[bool(objs[x] == objs[y]) if (x in live and y in live) else False
                     for y in range(1, nobj + 1)] for x in range(1, nobj + 1)]
        tr.append(ev)
    return tr


def validate_traces(traces):
    """Batch trace validation by TLC.  Returns list of (tid, position, clause)."""
    r = tlc.run("HeaderDict_Trace", TRACE_CFG, workers=1, files={"traces.json": json.dumps(traces)},
                env={"TRACE_FILE": "traces.json"}, timeout=3600)
    verdicts = tlc.tagged_tuples(r.out, "VERDICT")
    if len(verdicts) != len(traces):
        raise tlc.MachineryError(f"trace validation produced {len(verdicts)} verdicts for {len(traces)} traces\n{r.out[-2000:]}")
    return r, verdicts


def _val_shard(args):
    seed, n, length = args
    rng = random.Random(seed)
    traces = [random_trace(rng, rng.randint(1, length)) for _ in range(n)]
    r, verdicts = validate_traces(traces)
    bad = [(tid, l, c, traces[tid - 1][:l]) for tid, l, c in verdicts if c != "ok"]
    return {"n": n, "events": sum(len(t) for t in traces), "bad": bad[:10], "distinct": r.distinct,
            "generated": r.generated, "sample": traces[0][:2]}


def run(rep):
    quick = rep.tier == "quick"
    plans = ([dict(nobj=2, names="MCNames", values="MCValues", depth=3, k=16)] if quick else
             [dict(nobj=2, names="MCNames", values="MCValues", depth=4, k=16),
              dict(nobj=3, names="MCNamesSmall", values="MCValuesSmall", depth=4, k=16)])
    rep.rule = ("stage 2/3: every transition of the reference graph within the depth bound is replayed on real "
                "objects; a transition is non-trivial when it changes the state; stage 4: random walks <= 30 ops "
                "over up to 3 live objects validated by TLC; distinct_nontrivial counts state-changing transitions "
                "(all distinct by construction of the collapsed graph) ")
    rep.assumptions = ["names/values restricted to the property's alphabet", "TLC 1.8 and CPython are trusted"]
    with mp.Pool(16) as pool:
        for plan in plans:
            # stage 1: the reference's own invariants / action properties, all workers, no emission
            r1 = tlc.run("MC_HeaderDict", MC_CFG.format(emit="", s=0, **plan), workers="auto", timeout=7200)
            if r1.violated:
                rep.violation("ReferenceInconsistent", f"TLC: {r1.violated} violated in the reference model")
            # stage 2/3: sharded emission (no properties: they were just checked) + immediate replay
            ecfg = re.sub(r"(INVARIANT|PROPERTY) \w+\n", "", MC_CFG)
            jobs = [(ecfg.format(emit="ACTION_CONSTRAINT Emit", s=s, **plan), s) for s in range(plan["k"])]
            outs = pool.map(_shard, jobs)
            first = outs[0]
            total = sum(o["n"] for o in outs)
            # each shard explores the whole graph; count the graph once
            rep.states += first["distinct"]
            rep.transitions += first["generated"]
            rep.stage1.append({"run": f"MC_HeaderDict {plan}", "distinct_states": first["distinct"],
                               "states_generated": first["generated"], "depth": first["depth"],
                               "wall_s": round(max(o['wall'] for o in outs), 1), "transitions_replayed": total})
            if total != first["generated"] - 1:
                raise tlc.MachineryError(f"emission incomplete: {total} transitions parsed, TLC generated {first['generated']}")
            rep.evaluations += total
            nt = sum(o["nontriv"] for o in outs)
            rep.nontrivial.update((str(plan), x) for x in range(nt))
            for o in outs:
                for s in o["samples"][:1]:
                    rep.sample(s, cap=3)
                for clause, detail, t in o["bad"]:
                    rep.violation(clause, detail, {"kind": "transition", "transition": t})
        # stage 4
        ntr, per = (2000, 125) if quick else (40000, 2500)
        jobs = [(rep.seed * 1000 + s, per, 30) for s in range(ntr // per)]
        outs = pool.map(_val_shard, jobs)
    for o in outs:
        rep.traces += o["n"]
        rep.evaluations += o["events"]
        for tid, l, c, prefix in o["bad"]:
            rep.violation(c, f"trace rejected by HeaderDict_Trace at event {l}: clause {c}",
                          {"kind": "trace", "events": prefix})
    rep.sample({"trace_prefix": outs[0]["sample"]}, cap=4)
    rep.extra["trace_events"] = sum(o["events"] for o in outs)
    rep.exhaustive = True


def replay(rep, path):
    with open(path) as fh:
        doc = json.load(fh)
    case = doc["case"]
    if case["kind"] == "transition":
        v = check_transition(case["transition"])
        if v:
            rep.violation(v[0], v[1], case)
    else:
        # re-execute the recorded operations on the current tree and re-validate the fresh trace
        objs = [None, _hd()(), None, None]
        live = {1}
        tr = []
        for ev in case["events"]:
            op = {k: ev[k] for k in ("op", "i", "n", "v", "j", "src")}
            try:
                res = apply_real(objs, op)
            except Exception as ex:
                res = "<raised " + type(ex).__name__ + ">"
            o = op["op"]
            if o == "copy" or o in ("or_src", "ror_src"):
                live.add(op["j"])
            elif o == "or_obj":
                live.add(op["src"])
            elif o == "drop":
                live.discard(op["i"])
            e2 = dict(op)
            e2["res"] = res
            e2["live"] = [x in live for x in range(1, 4)]
            e2["obs"] = [observe(objs[x]) if x in live else DEAD for x in range(1, 4)]
            e2["eq"] = [[bool(objs[x] == objs[y]) if (x in live and y in live) else False for y in range(1, 4)]
                        for x in range(1, 4)]
            tr.append(e2)
        r, verdicts = validate_traces([tr])
        rep.traces += 1
        for tid, l, c in verdicts:
            if c != "ok":
                rep.violation(c, f"trace rejected at event {l}: clause {c}", {"kind": "trace", "events": tr[:l]})
    rep.rule = "replay of one recorded case"
    rep.nontrivial.update({1, 2})
    rep.evaluations += 1
    rep.states = rep.states or 1
    rep.transitions = rep.transitions or 1
