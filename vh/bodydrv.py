"""Driver shared by C12 / C13: runs an operation sequence on a REAL urllib3 HTTPResponse produced by a real
HTTPConnectionPool over the in-memory network (vh/net.py) and records what the caller observes.

An event is {"op", "n", "len", "off", "err", "end"} (the event alphabet of spec/BodyRules.tla):
  op   read | readn | read1n | read1 | readinto | read0 | stream | chunked | iter | data
  n    the amount (0 when the op has none)
  len  number of bytes returned (0 on error / end of a generator)
  off  offset of the returned piece inside the EXPECTED bytes (bodygen: independent stdlib decode): the current
       delivery position when the piece is the next slice, else the first other place it occurs, else -1;
       -2 when len = 0
  err  "" or the class of the exception: a urllib3 HTTPError family name or "raw:<Class>"
  end  the call signalled the normal end of the body (read() / .data returned, a sized read returned nothing,
       the generator finished)
Every call carries an EXPLICIT decode_content (readinto and iteration cannot: the response is created with the
same value as its default; iteration always decodes and is only used with decode=True).
"""
from __future__ import annotations

import gc
import logging

from . import bodygen as bg
from . import net as vnet

logging.getLogger("urllib3").setLevel(logging.CRITICAL)

READ_OPS = ("read", "readn", "read1n", "read1", "readinto", "read0")
GEN_OPS = ("stream", "chunked", "iter")


def err_class(ex) -> str:
    from urllib3 import exceptions as E
    if isinstance(ex, vnet.HarnessStall):
        return "raw:HarnessStall"
    if isinstance(ex, E.DecodeError):
        return "DecodeError"
    if isinstance(ex, E.ReadTimeoutError):
        return "ReadTimeoutError"
    if isinstance(ex, E.InvalidChunkLength):
        return "InvalidChunkLength"
    if isinstance(ex, E.IncompleteRead):
        return "IncompleteRead"
    if isinstance(ex, E.ProtocolError):
        return "ProtocolError"
    if isinstance(ex, E.HTTPError):
        return "HTTPError"
    return "raw:" + type(ex).__name__


_FROZEN = [False]


def _freeze_once():
    """gc.collect() is needed to judge 'the first socket is closed' independently of reference cycles, and a full
    collection walks every live object: park everything that exists after the imports in the permanent generation
    once per process, so that the later collections only look at what the runs themselves created."""
    if not _FROZEN[0]:
        import urllib3  # noqa: F401
        import urllib3.connectionpool  # noqa: F401
        gc.collect()
        gc.freeze()
        _FROZEN[0] = True


class Session:
    """One response being consumed."""

    def __init__(self, case: dict, built: dict | None = None):
        import urllib3
        _freeze_once()
        self.case = case
        self.b = built or bg.build(case)
        self.decode = bool(case.get("decode", True))
        self.expected = self.b["expected"]
        self.pos = 0                      # bytes of `expected` delivered so far (only advanced by next slices)
        self.events = []
        self.gens = {}
        self.resp = None
        self.open_error = ""
        self.detail = ""                  # text of the first exception (for reports)
        b = self.b
        cut = None if b["cut"] is None else len(b["head"]) + b["cut"]
        first = {"done": False}

        def responder(peer, req):
            if not first["done"]:
                first["done"] = True
                return vnet.Reply(b["head"] + b["wire"], close=b["close"], eof_after=cut)
            return vnet.Reply(vnet.http_response(200, b"second"))

        script = {}
        if case.get("seg"):
            script["seg"] = case["seg"]
        if b["garbled"]:
            script["never_answers"] = True      # a garbled framing may legitimately make the client wait
        self.net = vnet.Net(responder, scripts=lambda cid, addr: dict(script) if cid == 1 else {})
        self.net.__enter__()
        try:
            self.pool = urllib3.HTTPConnectionPool("body.test", 80, maxsize=1, block=True, timeout=3.0, retries=False)
        except BaseException:
            self.net.__exit__()
            raise

    # ---- opening
    def open(self, preload: bool = False):
        try:
            self.resp = self.pool.urlopen("GET", "/b", preload_content=preload, decode_content=self.decode,
                                          retries=False, redirect=False)
        except BaseException as ex:  # noqa: BLE001  (HarnessStall is a BaseException)
            if isinstance(ex, (KeyboardInterrupt, SystemExit)):
                raise
            self.open_error = err_class(ex)
            self.detail = self.detail or repr(ex)[:300]
        return self.resp

    # ---- one operation
    def _piece(self, op, n, data, end):
        ln = len(data)
        if ln == 0:
            off = -2
        elif self.expected[self.pos:self.pos + ln] == data:
            off = self.pos
            self.pos += ln
        else:
            off = self.expected.find(data)
        self.events.append({"op": op, "n": n, "len": ln, "off": off, "err": "", "end": bool(end)})

    def _gen(self, kind, n):
        if kind not in self.gens:
            r, d = self.resp, self.decode
            amt = n or None               # n = 0 stands for amt=None (stream(0) / read_chunked(0) never make progress)
            if kind == "stream":
                g = r.stream(amt, decode_content=d)
            elif kind == "chunked":
                g = r.read_chunked(amt, decode_content=d)
            else:
                g = iter(r)
            self.gens[kind] = g
        return self.gens[kind]

    def step(self, op: str, n: int = 0) -> dict:
        r, d = self.resp, self.decode
        try:
            if op == "read":
                x = r.read(decode_content=d)
                self._piece(op, 0, x, True)
            elif op == "readn":
                x = r.read(n, decode_content=d)
                self._piece(op, n, x, len(x) == 0)
            elif op == "read1n":
                x = r.read1(n, decode_content=d)
                self._piece(op, n, x, len(x) == 0)
            elif op == "read1":
                x = r.read1(decode_content=d)
                self._piece(op, 0, x, len(x) == 0)
            elif op == "readinto":
                buf = bytearray(n)
                k = r.readinto(buf)
                self._piece(op, n, bytes(buf[:k]), k == 0)
            elif op == "read0":
                x = r.read(0, decode_content=d)
                self._piece(op, 0, x, False)
            elif op in GEN_OPS:
                g = self._gen(op, n)
                try:
                    x = next(g)
                except StopIteration:
                    self._piece(op, n, b"", True)
                else:
                    self._piece(op, n, x, False)
            else:
                raise ValueError("unknown op " + op)
        except BaseException as ex:  # noqa: BLE001
            if isinstance(ex, (KeyboardInterrupt, SystemExit)):
                raise
            if isinstance(ex, ValueError) and str(ex).startswith("unknown op"):
                raise
            self.detail = self.detail or repr(ex)[:300]
            self.events.append({"op": op, "n": n, "len": 0, "off": -2, "err": err_class(ex), "end": False})
        return self.events[-1]

    def preload(self) -> dict:
        """preload_content=True: the body is read inside urlopen; .data is the observation."""
        r = self.open(preload=True)
        if r is None:
            self.events.append({"op": "data", "n": 0, "len": 0, "off": -2, "err": self.open_error, "end": False})
        else:
            x = r.data
            self._piece("data", 0, x if x is not None else b"", True)
        return self.events[-1]

    # ---- the connection clause (C13): the response is dropped, then a second request goes through the same pool
    def drop_response(self):
        for g in self.gens.values():
            try:
                g.close()
            except BaseException:  # noqa: BLE001
                pass
        self.gens = {}
        self.resp = None
        gc.collect()

    def connection_facts(self) -> dict:
        """{"second": which socket served the next request on the same pool ("same" | "new" | "none"),
            "firstopen": the first socket is still open afterwards} -- ground truth from the peer side."""
        self.drop_response()
        facts = {"second": "none", "firstopen": False, "second_err": ""}
        try:
            r2 = self.pool.urlopen("GET", "/second", preload_content=True, retries=False, redirect=False,
                                   pool_timeout=0.01)
            facts["second_ok"] = bool(r2.data == b"second")
        except BaseException as ex:  # noqa: BLE001
            if isinstance(ex, (KeyboardInterrupt, SystemExit)):
                raise
            facts["second_err"] = err_class(ex)
        cids = [cid for cid, rq in self.net.requests() if rq.target == "/second"]
        if cids:
            facts["second"] = "same" if cids[-1] == 1 else "new"
        gc.collect()
        facts["firstopen"] = 1 in self.net.open_conns()
        return facts

    def close(self):
        try:
            self.drop_response()
            self.pool.close()
        finally:
            self.net.__exit__()


class Deadline(BaseException):
    """A single response took longer than the per-case deadline: recorded as the exception of the current call."""


def _alarm(signum, frame):
    raise Deadline("per-case deadline exceeded")


def run_case(case: dict, ops: list, drain=None, preload: bool = False, built: dict | None = None, cap: int = 400000,
             deadline: float = 300.0, after=None):
    """Execute `ops` ([(op, n)]) on a fresh response for `case`; then, unless a call ended or raised, keep
    calling `drain` (op, n) until one does; then, if the body ended normally, make the `after` calls (which must
    all return b"").  Returns the trace record for spec/Body_Trace.tla."""
    import signal
    import threading
    s = Session(case, built)
    armed = threading.current_thread() is threading.main_thread()
    if armed:
        signal.signal(signal.SIGALRM, _alarm)
        signal.setitimer(signal.ITIMER_REAL, deadline)
    try:
        done = False
        if preload:
            s.preload()
            done = True
        else:
            if s.open() is None:
                s.events.append({"op": ops[0][0] if ops else "read", "n": 0, "len": 0, "off": -2,
                                 "err": s.open_error, "end": False})
                done = True
            else:
                for op, n in ops:
                    e = s.step(op, n)
                    if e["err"]:
                        done = True
                        break
                ended = any(e["end"] and not e["err"] for e in s.events)
                if not done and not ended and drain is not None:
                    empties = 0
                    for _ in range(cap):
                        e = s.step(*drain)
                        if e["err"] or e["end"]:
                            break
                        empties = empties + 1 if e["len"] == 0 else 0
                        if empties >= 3:          # a generator that keeps yielding b"": already a violation
                            break
                if after and s.events and s.events[-1]["end"] and not any(e["err"] for e in s.events):
                    for op, n in after:
                        if s.step(op, n)["err"]:
                            break
        conn = s.connection_facts()
        b = s.b
        return {"facts": b["facts"], "layout": b["layout3"], "cutat": b["cutat"], "events": s.events,
                "conn": {"second": conn["second"], "firstopen": bool(conn["firstopen"])}, "final": True,
                "detail": s.detail, "second_err": conn["second_err"], "int16": b.get("int16")}
    finally:
        if armed:
            signal.setitimer(signal.ITIMER_REAL, 0)
        s.close()
