"""Driver shared by C12 / C13: runs an operation sequence on a REAL urllib3 HTTPResponse produced by a real
HTTPConnectionPool over the in-memory network (vh/net.py) and records what the caller observes.

An event is {"op", "n", "len", "off", "err", "end"}:
  op   read | readn | read1n | read1 | readinto | read0 | stream | chunked | iter | data
  n    the amount (0 when the op has none)
  len  number of bytes returned (0 on error / end of a generator)
  off  offset of the returned piece inside the expected bytes, computed by comparing bytes:
       the current delivery position if the piece is the next slice there, else -1; -2 when len = 0
  err  "" or the class of the exception: one of ERR_U3 names (urllib3 HTTPError family) or "raw:<Class>"
  end  the call signalled the normal end of the body (read() returned, a sized read returned nothing,
       the generator finished)
"""
from __future__ import annotations

import logging

from . import bodygen as bg
from . import net as vnet

logging.getLogger("urllib3").setLevel(logging.CRITICAL)

READ_OPS = ("read", "readn", "read1n", "read1", "readinto", "read0")
GEN_OPS = ("stream", "chunked", "iter")


def err_class(ex) -> str:
    from urllib3 import exceptions as E
    if isinstance(ex, vnet.HarnessStall):
        return "raw:HarnessStall"
    if isinstance(ex, E.DecodeError):
        return "DecodeError"
    if isinstance(ex, E.ReadTimeoutError):
        return "ReadTimeoutError"
    if isinstance(ex, E.InvalidChunkLength):
        return "InvalidChunkLength"
    if isinstance(ex, E.IncompleteRead):
        return "IncompleteRead"
    if isinstance(ex, E.ProtocolError):
        return "ProtocolError"
    if isinstance(ex, E.HTTPError):
        return "HTTPError"
    return "raw:" + type(ex).__name__


class Session:
    """One response being consumed."""

    def __init__(self, case: dict, built: dict | None = None, second_request: bool = False):
        import urllib3
        self.case = case
        self.b = built or bg.build(case)
        self.decode = bool(case.get("decode", True))
        self.expected = self.b["payload"] if self.decode else self.b["raw"]
        self.pos = 0                      # bytes of `expected` delivered so far (only advanced by next slices)
        self.events = []
        self.gens = {}
        self.resp = None
        self.open_error = ""
        b = self.b
        cut = None if b["cut"] is None else len(b["head"]) + b["cut"]
        first = {"done": False}

        def responder(peer, req):
            if not first["done"]:
                first["done"] = True
                return vnet.Reply(b["head"] + b["wire"], close=b["close"], eof_after=cut)
            return vnet.Reply(vnet.http_response(200, b"second"))

        seg = case.get("seg") or None
        script = {}
        if seg:
            script["seg"] = seg
        if b["dclass"] in ("badsize", "negsize", "emptysize") or b["dclass"].startswith("corrupt"):
            script["never_answers"] = True      # a garbled framing may legitimately make the client wait
        self.net = vnet.Net(responder, scripts=lambda cid, addr: dict(script) if cid == 1 else {})
        self.net.__enter__()
        try:
            self.pool = urllib3.HTTPConnectionPool("body.test", 80, maxsize=1, block=True, timeout=3.0, retries=False)
        except BaseException:
            self.net.__exit__()
            raise

    # ---- opening
    def open(self, preload: bool = False):
        try:
            self.resp = self.pool.urlopen("GET", "/b", preload_content=preload, decode_content=self.decode,
                                          retries=False, redirect=False)
        except BaseException as ex:  # noqa: BLE001  (HarnessStall is a BaseException)
            if isinstance(ex, (KeyboardInterrupt, SystemExit)):
                raise
            self.open_error = err_class(ex)
        return self.resp

    # ---- one operation
    def _piece(self, op, n, data, end):
        ln = len(data)
        if ln == 0:
            off = -2
        elif self.expected[self.pos:self.pos + ln] == data:
            off = self.pos
            self.pos += ln
        else:
            off = -1
        self.events.append({"op": op, "n": n, "len": ln, "off": off, "err": "", "end": bool(end)})

    def _gen(self, kind, n):
        key = kind
        if key not in self.gens:
            r, d = self.resp, self.decode
            if kind == "stream":
                g = r.stream(n, decode_content=d)
            elif kind == "chunked":
                g = r.read_chunked(n, decode_content=d)
            else:
                g = iter(r)
            self.gens[key] = g
        return self.gens[key]

    def step(self, op: str, n: int = 0) -> dict:
        r, d = self.resp, self.decode
        try:
            if op == "read":
                x = r.read(decode_content=d)
                self._piece(op, 0, x, True)
            elif op == "readn":
                x = r.read(n, decode_content=d)
                self._piece(op, n, x, len(x) == 0)
            elif op == "read1n":
                x = r.read1(n, decode_content=d)
                self._piece(op, n, x, len(x) == 0)
            elif op == "read1":
                x = r.read1(decode_content=d)
                self._piece(op, 0, x, len(x) == 0)
            elif op == "readinto":
                buf = bytearray(n)
                k = r.readinto(buf)
                self._piece(op, n, bytes(buf[:k]), k == 0)
            elif op == "read0":
                x = r.read(0, decode_content=d)
                self._piece(op, 0, x, False)
            elif op in GEN_OPS:
                g = self._gen(op, n)
                try:
                    x = next(g)
                except StopIteration:
                    self._piece(op, n, b"", True)
                else:
                    self._piece(op, n, x, False)
            elif op == "data":
                x = r.data
                self._piece(op, 0, x if x is not None else b"", True)
            else:
                raise ValueError("unknown op " + op)
        except BaseException as ex:  # noqa: BLE001
            if isinstance(ex, (KeyboardInterrupt, SystemExit)):
                raise
            if isinstance(ex, ValueError) and str(ex).startswith("unknown op"):
                raise
            self.events.append({"op": op, "n": n, "len": 0, "off": -2, "err": err_class(ex), "end": False})
        return self.events[-1]

    # ---- the connection clause (C13): what happened to the socket, who serves the next request
    def connection_facts(self) -> dict:
        import gc
        first_open = 1 in self.net.open_conns()
        ndials = len(self.net.dials)
        facts = {"first_open_before": first_open, "second": "none", "second_err": ""}
        try:
            r2 = self.pool.urlopen("GET", "/second", preload_content=True, retries=False, redirect=False,
                                   pool_timeout=0.01)
            cids = [cid for cid, rq in self.net.requests() if rq.target == "/second"]
            if not cids:
                facts["second"] = "none"
            else:
                facts["second"] = "same" if cids[-1] == 1 else "new"
            facts["second_ok"] = bool(r2.data == b"second")
        except BaseException as ex:  # noqa: BLE001
            if isinstance(ex, (KeyboardInterrupt, SystemExit)):
                raise
            facts["second_err"] = err_class(ex)
            cids = [cid for cid, rq in self.net.requests() if rq.target == "/second"]
            if cids:
                facts["second"] = "same" if cids[-1] == 1 else "new"
        facts["dials"] = len(self.net.dials)
        facts["dialed_new"] = len(self.net.dials) > ndials
        gc.collect()
        facts["first_open_after"] = 1 in self.net.open_conns()
        return facts

    def close(self):
        for g in self.gens.values():
            try:
                g.close()
            except BaseException:  # noqa: BLE001
                pass
        try:
            if self.resp is not None:
                self.resp.close()
            self.pool.close()
        finally:
            self.net.__exit__()
